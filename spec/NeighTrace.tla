----------------------------- MODULE NeighTrace -----------------------------
(* Monitor for the `neigh` world: one real Ethernet interface, every other station played by the harness.
   C16: N1 a unicast IP frame goes to a hardware address learned (from a validated ARP message) for its next hop and
           confirmed less than 60 s ago;  N2 next hop = destination if on-link, else gateway of the longest-prefix
           unexpired route;  N3 discovery requests (ARP requests for any target) are at least one second apart;  N4 queued data is not lost while
           unresolved and goes out (exactly once, D3) once resolvable
   C09: D1 wire order per socket = accept order, D2 at most once, D3 exactly once at quiescence when resolvable,
        D4 payload/addresses/ports unmodified, D5 inbound datagrams delivered whole, once, in order, with correct
        metadata (mandatory when the receive queue was empty and the datagram fits), D6 short buffer => error
   C10: E2 frame size <= MTU, E3 legal source addresses;  C13: Q2 an idle poll leaves a later-or-absent deadline *)
EXTENDS Integers, Sequences, FiniteSets, TLC, Json, IOUtils
Rec == ndJsonDeserialize(IOEnv.TRACE)
VARIABLES l, run, cfg, viol, hits, nruns, learned, lastDisc, acc, wpos, rxq
vars == <<l, run, cfg, viol, hits, nruns, learned, lastDisc, acc, wpos, rxq>>
Rules == {"N1", "N2", "N3", "N4", "D1", "D2", "D3", "D4", "D5", "D6", "E2", "E3", "K2", "Q2", "PANIC"}
SOCKS == {0, 1, 2, 3, 4}  \* two UDP sockets, an ICMP socket bound to an identifier, a raw socket, a raw socket of the other family
\* the cap is per rule (x[2]): a flood of one rule (say Q2, which another check owns) must not crowd out the others
Add(v, x) == IF Len(SelectSeq(v, LAMBDA e : e[2] = x[2])) >= 6 THEN v ELSE Append(v, x)
RECURSIVE AddAll(_, _)
AddAll(v, xs) == IF xs = <<>> THEN v ELSE AddAll(Add(v, Head(xs)), Tail(xs))
Flush == viol = <<>> \/ PrintT(<<"RUNVIOL", ToJson([run |-> run, viol |-> viol])>>)
Idx(s, P(_)) == LET I == {i \in 1..Len(s) : P(s[i])} IN IF I = {} THEN 0 ELSE CHOOSE i \in I : \A j \in I : i <= j
Remove(s, i) == SubSeq(s, 1, i - 1) \o SubSeq(s, i + 1, Len(s))
Init == /\ l = 1 /\ run = -1 /\ cfg = [x |-> 0] /\ viol = <<>> /\ hits = [r \in Rules |-> 0] /\ nruns = 0
        /\ learned = <<>> /\ lastDisc = <<>> /\ acc = [s \in SOCKS |-> <<>>] /\ wpos = [s \in SOCKS |-> 0] /\ rxq = [s \in SOCKS |-> <<>>]

\* a second own address on a /31 point-to-point subnet in some runs: cfg.p2p = <<ours, peer>>; such a subnet has no
\* broadcast address, its peer is an ordinary on-link unicast destination
P2P == "p2p" \in DOMAIN cfg /\ cfg.p2p # <<>>
MyIps == {cfg.my_ip} \cup (IF P2P THEN {cfg.p2p[1]} ELSE {})
OnLink(ip) == (ip[1] = cfg.net[1] /\ ip[2] = cfg.net[2] /\ ip[3] = cfg.net[3]) \/ (P2P /\ ip = cfg.p2p[2])
IsBcast(ip) == ip = <<255, 255, 255, 255>> \/ (OnLink(ip) /\ ip[4] = 255 /\ ~(P2P /\ ip = cfg.p2p[2]))
IsMcast(ip) == ip[1] >= 224 /\ ip[1] <= 239
Matches(rt, ip, now) == /\ (rt.exp = -1 \/ now <= rt.exp)
                        /\ (rt.plen = 0 \/ (rt.plen = 24 /\ ip[1] = rt.p[1] /\ ip[2] = rt.p[2] /\ ip[3] = rt.p[3]) \/ (rt.plen = 32 /\ ip = rt.p))
\* N2: next hop, <<>> when there is none
NextHop(ip, now) ==
  IF OnLink(ip) THEN ip
  ELSE LET R == {i \in 1..Len(cfg.routes) : Matches(cfg.routes[i], ip, now)} IN
       IF R = {} THEN <<>> ELSE cfg.routes[CHOOSE i \in R : \A j \in R : cfg.routes[i].plen >= cfg.routes[j].plen].gw
Answers(ip) == \E i \in 1..Len(cfg.arp_delay) : cfg.arp_delay[i][1] = ip[4] /\ cfg.arp_delay[i][2] >= 0

\* ---- what a delivered frame teaches / confirms
V6 == "v6" \in DOMAIN cfg /\ cfg.v6
Learn(lrn, ip, mac, now) == LET i == Idx(lrn, LAMBDA x : x.ip = ip) IN
                            (IF i = 0 THEN lrn ELSE Remove(lrn, i)) \o <<[ip |-> ip, mac |-> mac, t |-> now]>>
Teach(lrn, g, now) ==
  IF "et" \notin DOMAIN g THEN lrn
  ELSE IF ~V6 /\ g.et = "arp" /\ g.tpa \in MyIps /\ g.op \in {1, 2} /\ g.shau /\ OnLink(g.spa) /\ g.spa[4] \notin {0, 255} /\ g.spa # cfg.my_ip THEN
       Learn(lrn, g.spa, g.sha, now)
  \* neighbour discovery: a solicitation teaches its source, an advertisement its source or its target (the more
  \* permissive reading); any unicast link-layer address option counts as validated
  ELSE IF V6 /\ g.et = "arp" /\ g.op \in {1, 2} THEN
       \* (a discovery message is an IP packet too: it confirms an existing entry for its source like any other)
       LET l0 == [i \in 1..Len(lrn) |-> IF lrn[i].ip = g.spa /\ lrn[i].mac = g.smac THEN [lrn[i] EXCEPT !.t = now] ELSE lrn[i]]
           l1 == IF g.shau /\ g.cs /\ g.spa # cfg.my_ip THEN Learn(l0, g.spa, g.sha, now) ELSE l0
       IN IF g.shau /\ g.cs /\ "spa2" \in DOMAIN g /\ g.spa2 # cfg.my_ip /\ g.spa2 # g.spa THEN Learn(l1, g.spa2, g.sha, now) ELSE l1
  ELSE IF g.et = "ip4" /\ "src" \in DOMAIN g THEN
       [i \in 1..Len(lrn) |-> IF lrn[i].ip = g.src /\ lrn[i].mac = g.smac THEN [lrn[i] EXCEPT !.t = now] ELSE lrn[i]]
  ELSE lrn
RECURSIVE TeachAll(_, _, _)
TeachAll(lrn, rx, now) == IF rx = <<>> THEN lrn ELSE TeachAll(Teach(lrn, Head(rx), now), Tail(rx), now)
\* inbound datagrams for our sockets: rx queue model per socket
BcastDst == {<<10, 0, 0, 255>>, <<255, 255, 255, 255>>, <<224, 0, 0, 1>>}
RECURSIVE InjectAll(_, _)
InjectAll(q, rx) ==
  IF rx = <<>> THEN q
  ELSE LET g == Head(rx)
           \* (UDP sockets, bound to the port alone or to our address, also take broadcast / all-nodes datagrams)
           isDg == "et" \in DOMAIN g /\ g.et = "ip4" /\ "sk" \in DOMAIN g /\ (g.dst = cfg.my_ip \/ (g.sk \in {0, 1} /\ g.dst \in BcastDst)) /\ g.did >= 0 /\ g.cs /\ g.wf
       IN IF ~isDg THEN InjectAll(q, Tail(rx))
          ELSE LET s == g.sk
                   sc == cfg.socks[s + 1]
                   must == q[s] = <<>> /\ g.size <= sc.rxp /\ sc.rxm >= 1
               IN InjectAll([q EXCEPT ![s] = Append(@, [did |-> g.did, must |-> must, size |-> g.size, src |-> g.src, sport |-> g.sport, dst |-> g.dst])], Tail(rx))

Big(x) == V6 /\ x.iplen > cfg.mtu
\* ---- emitted frames: fold with state a = [lrn (unchanged), disc, wpos, v]
OutStep(a, o, now) ==
  LET P(r, ok, x) == IF ok THEN <<>> ELSE << <<l, r>> \o x >>
      e2 == P("E2", "len" \notin DOMAIN o \/ o.len <= cfg.mtu + 14, <<o.len>>)
  IN
  IF "et" \notin DOMAIN o THEN [a EXCEPT !.v = @ \o << <<l, "E2", "unparsed">> >>]
  ELSE IF o.et = "arp" THEN
       LET i == Idx(a.disc, LAMBDA x : x.tpa = o.tpa)
           \* discovery requests (for any target) are at least one second apart
           recent == {j \in 1..Len(a.disc) : now - a.disc[j].t < 1000}
           n3 == P("N3", o.op # 1 \/ recent = {}, <<o.tpa, IF recent = {} THEN -1 ELSE now - a.disc[CHOOSE j \in recent : TRUE].t, IF i \in recent THEN "same-target" ELSE "other-target">>)
           e3 == P("E3", o.spa \in MyIps /\ o.sha = cfg.my_mac /\ o.smac = cfg.my_mac, <<"arp", o.spa>>)
       IN [a EXCEPT !.disc = IF o.op # 1 THEN @ ELSE (IF i = 0 THEN @ ELSE Remove(@, i)) \o <<[tpa |-> o.tpa, t |-> now]>>,
                    !.v = @ \o e2 \o n3 \o e3]
  ELSE IF o.et = "ip4" /\ "dst" \in DOMAIN o THEN
       LET uni == ~IsBcast(o.dst) /\ ~IsMcast(o.dst)
           nh == NextHop(o.dst, now)
           n2 == P("N2", ~uni \/ nh # <<>>, <<o.dst>>)
           known == \E i \in 1..Len(a.lrn) : a.lrn[i].ip = nh /\ a.lrn[i].mac = o.dmac /\ now - a.lrn[i].t < 60000
           stale == \E i \in 1..Len(a.lrn) : a.lrn[i].ip = nh /\ a.lrn[i].mac = o.dmac
           n1 == P("N1", ~uni \/ nh = <<>> \/ known, <<o.dst, o.dmac, IF stale THEN "expired" ELSE IF ~o.dmu THEN "non-unicast-mac" ELSE "never-learned">>)
           e3 == P("E3", (o.src \in MyIps \/ ("exempt" \in DOMAIN o /\ o.exempt)) /\ o.smac = cfg.my_mac, <<"ip", o.src>>)
           isMine == "sk" \in DOMAIN o /\ o.did >= 0
           \* K2 (C08): the transport checksum of an emitted packet verifies; a UDP checksum field of zero is never emitted
           \* (the stack computes checksums: a sum that comes out as zero is transmitted as 0xffff)
           kk2 == P("K2", ("cs" \notin DOMAIN o \/ o.cs) /\ ~("cs0" \in DOMAIN o /\ o.cs0), <<o.dst, IF "cs0" \in DOMAIN o /\ o.cs0 THEN "zero-udp-checksum" ELSE "checksum">>)
       IN IF ~isMine THEN [a EXCEPT !.v = @ \o e2 \o n2 \o n1 \o e3 \o kk2]
          ELSE LET s == o.sk
                   q == acc[s]
                   pos == a.wpos[s]
                   j == Idx(q, LAMBDA x : x.did = o.did)
                   \* the next datagram due on the wire: the first one behind the last sent that the link can carry
                   \* (IPv6 datagrams longer than the IP MTU are dropped by the stack, the statement's "fits the link")
                   cand == {k \in (pos + 1)..Len(q) : ~Big(q[k])}
                   nxt == IF cand = {} THEN 0 ELSE CHOOSE k \in cand : \A k2 \in cand : k <= k2
                   d1 == IF j # 0 /\ j = nxt THEN <<>>
                         ELSE IF j # 0 /\ j <= pos THEN << <<l, "D2", s, o.did>> >>          \* already transmitted once
                         ELSE << <<l, "D1", s, o.did, j, pos>> >>                              \* out of queue order / unknown
                   d4 == IF j = 0 THEN <<>> ELSE P("D4", o.pd = -1 /\ o.size = q[j].size /\ o.dst = q[j].dst /\ o.dport = q[j].dport /\ o.cs /\ o.wf, <<s, o.did, o.pd, o.size>>)
               IN [a EXCEPT !.wpos[s] = IF j > pos THEN j ELSE @, !.v = @ \o e2 \o n2 \o n1 \o e3 \o kk2 \o d1 \o d4]
  ELSE [a EXCEPT !.v = @ \o e2]
RECURSIVE OutFold(_, _, _)
OutFold(a, outs, now) == IF outs = <<>> THEN a ELSE OutFold(OutStep(a, Head(outs), now), Tail(outs), now)

Step ==
  /\ l <= Len(Rec) /\ l' = l + 1
  /\ LET r == Rec[l] IN
     CASE r.ev = "reset" ->
            /\ Flush
            /\ run' = r.run /\ cfg' = r.cfg /\ viol' = <<>> /\ nruns' = nruns + 1 /\ hits' = hits
            /\ learned' = <<>> /\ lastDisc' = <<>> /\ acc' = [s \in SOCKS |-> <<>>] /\ wpos' = [s \in SOCKS |-> 0] /\ rxq' = [s \in SOCKS |-> <<>>]
       [] r.ev = "api" /\ r.call = "send" ->
            /\ acc' = IF r.err = "none" THEN [acc EXCEPT ![r.sock] = Append(@, [did |-> r.did, size |-> r.size, dst |-> r.dst, dport |-> r.dport, t |-> r.now, iplen |-> IF "iplen" \in DOMAIN r THEN r.iplen ELSE 0])] ELSE acc
            /\ UNCHANGED <<run, cfg, viol, hits, nruns, learned, lastDisc, wpos, rxq>>
       [] r.ev = "api" /\ r.call = "addrs" ->
            \* the address list was touched: the neighbour cache is flushed (the discovery rate limit is not)
            /\ learned' = <<>>
            /\ UNCHANGED <<run, cfg, viol, hits, nruns, lastDisc, acc, wpos, rxq>>
       [] r.ev = "api" /\ r.call = "close" ->
            \* a UDP socket closed and bound again: what was queued in either direction is gone
            /\ acc' = [acc EXCEPT ![r.sock] = SubSeq(@, 1, wpos[r.sock])]
            /\ rxq' = [rxq EXCEPT ![r.sock] = <<>>]
            /\ UNCHANGED <<run, cfg, viol, hits, nruns, learned, lastDisc, wpos>>
       [] r.ev = "api" /\ r.call = "recv" ->
            LET s == r.sock
                q == rxq[s]
            IN IF r.err = "truncated" THEN
                  \* the datagram at the head of the queue did not fit the user buffer: it is consumed
                  LET i == Idx(q, LAMBDA x : x.size > r.cap) IN
                  /\ rxq' = [rxq EXCEPT ![s] = IF i = 0 THEN <<>> ELSE SubSeq(q, i + 1, Len(q))]
                  /\ viol' = viol /\ hits' = [hits EXCEPT !["D6"] = @ + 1]
                  /\ UNCHANGED <<run, cfg, nruns, learned, lastDisc, acc, wpos>>
               ELSE
                  LET i == Idx(q, LAMBDA x : x.did = r.did)
                      skipped == i # 0 /\ \E j \in 1..(i - 1) : q[j].must
                      d5 == IF i = 0 THEN << <<l, "D5", s, "unknown-or-duplicate", r.did>> >>
                            ELSE IF skipped THEN << <<l, "D5", s, "lost-or-reordered", r.did>> >>
                            ELSE IF r.diff # -1 \/ r.size # q[i].size \/ r.sport # q[i].sport THEN << <<l, "D5", s, "altered", r.did, r.size, r.diff>> >>
                            ELSE IF "srct" \in DOMAIN r /\ r.srct # <<>> /\ r.srct # q[i].src THEN << <<l, "D5", s, "wrong-source", r.did, r.srct>> >>
                            ELSE IF "localt" \in DOMAIN r /\ r.localt # <<>> /\ r.localt # q[i].dst THEN << <<l, "D5", s, "wrong-destination", r.did, r.localt, q[i].dst>> >>
                            ELSE <<>>
                      d6 == IF r.size > r.cap THEN << <<l, "D6", s, r.size, r.cap>> >> ELSE <<>>
                  IN /\ rxq' = [rxq EXCEPT ![s] = IF i = 0 THEN @ ELSE SubSeq(q, i + 1, Len(q))]
                     /\ viol' = AddAll(viol, d5 \o d6)
                     /\ hits' = [hits EXCEPT !["D5"] = @ + 1]
                     /\ UNCHANGED <<run, cfg, nruns, learned, lastDisc, acc, wpos>>
       [] r.ev = "api" /\ r.call = "peek" ->
            \* peek shows the datagram recv would hand out next, whole and unchanged, and leaves the queue as it is
            LET q == rxq[r.sock]
                i == Idx(q, LAMBDA x : x.did = r.did)
                skipped == i # 0 /\ \E j \in 1..(i - 1) : q[j].must
                d5 == IF i = 0 THEN << <<l, "D5", r.sock, "peek-unknown", r.did, r.size>> >>
                      ELSE IF skipped THEN << <<l, "D5", r.sock, "peek-out-of-order", r.did>> >>
                      ELSE IF r.diff # -1 \/ r.size # q[i].size \/ r.sport # q[i].sport THEN << <<l, "D5", r.sock, "peek-altered", r.did, r.size, r.diff>> >>
                      ELSE <<>>
            IN /\ viol' = AddAll(viol, d5) /\ hits' = [hits EXCEPT !["D5"] = @ + 1]
               /\ UNCHANGED <<run, cfg, nruns, learned, lastDisc, acc, wpos, rxq>>
       [] r.ev = "poll" ->
            LET lrn == TeachAll(learned, r.rx, r.now)
                a == OutFold([lrn |-> lrn, disc |-> lastDisc, wpos |-> wpos, v |-> <<>>], r.out, r.now)
                q2 == IF r.rx = <<>> /\ r.out = <<>> /\ ~r.exhausted /\ r.rxleft = 0 /\ r.pa # -1 /\ r.pa <= r.now THEN << <<l, "Q2", r.now, r.pa>> >> ELSE <<>>
            IN /\ learned' = lrn /\ lastDisc' = a.disc /\ wpos' = a.wpos
               /\ rxq' = InjectAll(rxq, r.rx)
               /\ viol' = AddAll(viol, a.v \o q2)
               /\ hits' = [hits EXCEPT !["N1"] = @ + Len(r.out), !["E2"] = @ + Len(r.out), !["Q2"] = @ + (IF r.rx = <<>> /\ r.out = <<>> THEN 1 ELSE 0)]
               /\ UNCHANGED <<run, cfg, nruns, acc>>
       [] r.ev = "end" ->
            LET \* D3/N4: per socket, walk the accepted datagrams in order while their next hop answers ARP
                \* index of the last datagram that has to have been sent: the leading run of datagrams whose next hop
                \* answers, datagrams too long for the link skipped
                RECURSIVE Need(_, _, _, _)
                Need(q, i, now, last) == IF i > Len(q) THEN last
                                         ELSE IF Big(q[i]) THEN Need(q, i + 1, now, last)
                                         ELSE LET nh == NextHop(q[i].dst, q[i].t) IN
                                              IF nh # <<>> /\ Answers(nh) /\ NextHop(q[i].dst, now) = nh THEN Need(q, i + 1, now, i) ELSE last
                miss == {s \in SOCKS : Need(acc[s], 1, r.now, 0) > wpos[s]}
                ms == CHOOSE s \in miss : TRUE
                mnh == NextHop(acc[ms][wpos[ms] + 1].dst, r.now)
                solicited == \E i \in 1..Len(lastDisc) : lastDisc[i].tpa = mnh
                deadOther == \E i \in 1..Len(lastDisc) : ~Answers(lastDisc[i].tpa) /\ r.now - lastDisc[i].t < 2000
                d3 == IF r.how = "quiescent" /\ miss # {}
                      THEN << <<l, "D3", ms, wpos[ms], IF solicited THEN "solicited" ELSE "never-solicited", IF deadOther THEN "other-target-unanswered" ELSE "no-other">> >> ELSE <<>>
                lost == {s \in SOCKS : \E j \in 1..Len(rxq[s]) : rxq[s][j].must}
                d5 == IF "drained" \in DOMAIN r /\ lost # {} THEN << <<l, "D5", CHOOSE s \in lost : TRUE, "never-delivered">> >> ELSE <<>>
            IN /\ viol' = AddAll(viol, d3 \o d5)
               /\ hits' = [hits EXCEPT !["D3"] = @ + Len(acc[0]) + Len(acc[1]) + Len(acc[2]) + Len(acc[3]) + Len(acc[4])]
               /\ UNCHANGED <<run, cfg, nruns, learned, lastDisc, acc, wpos, rxq>>
       [] r.ev = "panic" ->
            /\ viol' = Add(viol, <<l, "PANIC", r.msg>>)
            /\ hits' = [hits EXCEPT !["PANIC"] = @ + 1]
            /\ UNCHANGED <<run, cfg, nruns, learned, lastDisc, acc, wpos, rxq>>
       [] OTHER -> UNCHANGED <<run, cfg, viol, hits, nruns, learned, lastDisc, acc, wpos, rxq>>
Spec == Init /\ [][Step]_vars
Final == l = Len(Rec) + 1 => /\ Flush
                             /\ PrintT(<<"FINAL", ToJson([events |-> Len(Rec), runs |-> nruns, hits |-> hits])>>)
=============================================================================
