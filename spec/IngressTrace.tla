---------------------------- MODULE IngressTrace ----------------------------
(* Monitor for the `ingress` world.  One event per table row: the classes of the injected packet and what the interface
   did.  C11: I1 traffic not addressed to the interface is neither delivered nor answered nor changes a socket;
   I2 a socket only receives what matches its endpoint; I3 no TCP reset / ICMP error towards a packet sent to a
   broadcast or multicast destination or from a non-unicast source; I4 no error in answer to an ICMP error or a reset;
   I5 TCP segments to broadcast / multicast / loopback destinations never change socket state.
   C08: K3 a packet whose checksum does not verify has no effect, K4 a zero UDP checksum is only accepted over IPv4,
   K2 emitted checksums verify.  C10: E3 replies are sourced from one of the interface's own unicast addresses. *)
EXTENDS IngressOps, Sequences, FiniteSets, TLC, Json, IOUtils
Rec == ndJsonDeserialize(IOEnv.TRACE)
VARIABLES l, run, viol, hits, nruns
vars == <<l, run, viol, hits, nruns>>
Rules == {"I1", "I2", "I3", "I4", "I5", "K2", "K3", "K4", "E3", "PANIC"}
Flush == viol = <<>> \/ PrintT(<<"RUNVIOL", ToJson([run |-> run, viol |-> viol])>>)
Init == l = 1 /\ run = -1 /\ viol = <<>> /\ hits = [r \in Rules |-> 0] /\ nruns = 0
Kinds(out) == {out[i].kind : i \in 1..Len(out)}
ErrKinds == {"tcp-rst", "icmp-err"}
\* frames that are replies to the row's packet (neighbor discovery and group reports are not)
ReplyKinds(out) == Kinds(out) \ {"arp", "ndisc", "mld", "igmp"}
Step ==
  /\ l <= Len(Rec) /\ l' = l + 1
  /\ LET r == Rec[l] IN
     CASE r.ev = "reset" -> /\ Flush /\ run' = r.run /\ viol' = <<>> /\ nruns' = nruns + 1 /\ hits' = hits
       [] r.ev = "row" ->
            LET ks == ReplyKinds(r.out)
                errs == ks \cap ErrKinds
                tcpChanged == r.tcpb # r.tcpa
                P(rule, ok) == IF ok THEN <<>> ELSE << <<l, rule, r.m, r.ld, r.v, r.s, r.d, r.p, r.c>> >>
                i1 == P("I1", Addressed(r) \/ (r.udp = 0 /\ ~tcpChanged /\ ks = {}))
                i2 == P("I2", (r.udp > 0 => (MayDeliverUdp(r) /\ r.udp = 1 /\ r.udp_ok)) /\ (tcpChanged => MayChangeTcp(r)))
                i3 == P("I3", errs = {} \/ (UnicastDst(r) /\ UnicastSrc(r)))
                i4 == P("I4", errs = {} \/ ~IsError(r))
                i5 == P("I5", ~(IsTcp(r) /\ ~UnicastDst(r)) \/ ~tcpChanged)
                k3 == P("K3", ~(r.c \in {"ip-hdr", "ip-opt", "l4"}) \/ (r.udp = 0 /\ ~tcpChanged /\ ks = {}))
                \* a corrupted solicitation / query draws no advertisement / report either
                k3q == P("K3", ~(IsQuery(r) /\ r.c \in {"ip-hdr", "l4"}) \/ Kinds(r.out) \cap {"ndisc", "mld", "igmp"} = {})
                \* a solicitation for somebody else's address is not addressed to the interface whatever group it was sent to
                i1n == P("I1", r.p # "ns-other" \/ "ndisc" \notin Kinds(r.out))
                k4 == P("K4", ~(r.c = "udp0" /\ r.v = 6) \/ (r.udp = 0 /\ ks = {}))
                k2 == P("K2", \A i \in 1..Len(r.out) : "wf" \notin DOMAIN r.out[i] \/ r.out[i].wf)
                e3 == P("E3", \A i \in 1..Len(r.out) : "src_own" \notin DOMAIN r.out[i] \/ r.out[i].kind \in {"ndisc", "mld", "igmp"} \/ r.out[i].src_own)
            IN /\ viol' = IF Len(viol) >= 60 THEN viol ELSE viol \o i1 \o i1n \o i2 \o i3 \o i4 \o i5 \o k3 \o k3q \o k4 \o k2 \o e3
               /\ hits' = [hits EXCEPT !["I1"] = @ + (IF Addressed(r) THEN 0 ELSE 1), !["I2"] = @ + (IF r.udp > 0 \/ tcpChanged THEN 1 ELSE 0),
                                       !["I3"] = @ + (IF UnicastDst(r) /\ UnicastSrc(r) THEN 0 ELSE 1), !["I4"] = @ + (IF IsError(r) THEN 1 ELSE 0),
                                       !["I5"] = @ + (IF IsTcp(r) /\ ~UnicastDst(r) THEN 1 ELSE 0), !["K3"] = @ + (IF r.c \in {"ip-hdr", "ip-opt", "l4"} THEN 1 ELSE 0),
                                       !["K4"] = @ + (IF r.c = "udp0" THEN 1 ELSE 0), !["K2"] = @ + Len(r.out), !["E3"] = @ + Len(r.out)]
               /\ UNCHANGED <<run, nruns>>
       [] r.ev = "panic" -> /\ viol' = Append(viol, <<l, "PANIC", r.msg>>) /\ hits' = [hits EXCEPT !["PANIC"] = @ + 1] /\ UNCHANGED <<run, nruns>>
       [] OTHER -> UNCHANGED <<run, viol, hits, nruns>>
Spec == Init /\ [][Step]_vars
Final == l = Len(Rec) + 1 => /\ Flush
                             /\ PrintT(<<"FINAL", ToJson([events |-> Len(Rec), runs |-> nruns, hits |-> hits])>>)
=============================================================================
