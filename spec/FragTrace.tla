----------------------------- MODULE FragTrace -----------------------------
(* Monitor for the `frag` world (property C12).  Rules:
   F1 every frame fits the MTU; fragment payloads are multiples of 8 except the last; K2 valid header checksums
   F2 the fragments of one datagram carry exactly its bytes: offsets consecutive from 0, MF only on non-final
      fragments, final offset+length = datagram length, no byte differs from the original (pd = -1)
   F3 what the receiver's socket hands out is exactly one original datagram (size and content)
   F4 a datagram whose fragments all arrived while a reassembly slot tracked it within the configured number of
      gaps is delivered (obligation computed with the same slot / interval-set bookkeeping the property describes)
   F5 at quiescence every accepted datagram that fits the fragmentation buffer was transmitted completely
   Q1 / Q2 (C13, pending fragments): a poll without frames, with no socket call since the node's previous poll, at an
      instant before the deadline poll_at gave after that poll (or when it gave none) transmits nothing; after a
      poll that neither received nor transmitted (on a device without back-pressure), poll_at is absent or strictly later *)
EXTENDS Integers, Sequences, FiniteSets, TLC, Json, IOUtils
Rec == ndJsonDeserialize(IOEnv.TRACE)
VARIABLES l, run, cfg, viol, hits, nruns, snd, done, acc, slots, due, got, refused, lastPa
vars == <<l, run, cfg, viol, hits, nruns, snd, done, acc, slots, due, got, refused, lastPa>>
Rules == {"F1", "F2", "F3", "F4", "F5", "K2", "Q1", "Q2", "PANIC"}
EPS == {0, 1, 2}
Max(a, b) == IF a > b THEN a ELSE b
Min(a, b) == IF a < b THEN a ELSE b
\* the cap is per rule (x[2]): a flood of one rule (say Q2, which another check owns) must not crowd out the others
Add(v, x) == IF Len(SelectSeq(v, LAMBDA e : e[2] = x[2])) >= 6 THEN v ELSE Append(v, x)
RECURSIVE AddAll(_, _)
AddAll(v, xs) == IF xs = <<>> THEN v ELSE AddAll(Add(v, Head(xs)), Tail(xs))
Flush == viol = <<>> \/ PrintT(<<"RUNVIOL", ToJson([run |-> run, viol |-> viol])>>)
RECURSIVE IntAdd(_, _, _)
IntAdd(s, lo, hi) ==
  IF lo >= hi THEN s
  ELSE IF s = <<>> THEN << <<lo, hi>> >>
  ELSE LET h == Head(s) IN
       IF hi < h[1] THEN << <<lo, hi>> >> \o s
       ELSE IF lo > h[2] THEN <<h>> \o IntAdd(Tail(s), lo, hi)
       ELSE IntAdd(Tail(s), Min(lo, h[1]), Max(hi, h[2]))
Init == /\ l = 1 /\ run = -1 /\ cfg = [mtu |-> 0] /\ viol = <<>> /\ hits = [r \in Rules |-> 0] /\ nruns = 0
        /\ snd = <<>> /\ done = {} /\ acc = <<>> /\ slots = <<>> /\ due = {} /\ got = {} /\ refused = {} /\ lastPa = [e \in EPS |-> -2]

Idx(s, P(_)) == LET I == {i \in 1..Len(s) : P(s[i])} IN IF I = {} THEN 0 ELSE CHOOSE i \in I : \A j \in I : i <= j
Remove(s, i) == SubSeq(s, 1, i - 1) \o SubSeq(s, i + 1, Len(s))

\* ---- sender side: fold over emitted frames; state a = [snd, done, v]
SendStep(e, a, o) ==
  LET f1 == (IF "iplen" \in DOMAIN o /\ (o.iplen > cfg.mtu \/ (o.frag /\ o.mf /\ o.plen % 8 # 0)) THEN << <<l, "F1", e, o.iplen, o.plen>> >> ELSE <<>>)
            \* K2 (C08 / C10): every emitted packet, fragments included, has a valid header checksum and consistent lengths
            \o (IF "hcs" \in DOMAIN o /\ ~(o.hcs /\ o.wf) THEN << <<l, "K2", e, o.foff, o.mf>> >> ELSE <<>>)
            \* ... and the ICMP checksum in the first fragment of an echo message is the checksum of the whole message
            \o (IF "l4cs" \in DOMAIN o /\ ~o.l4cs THEN << <<l, "K2", e, "icmp-checksum", o.did>> >> ELSE <<>>)
  IN IF "unparsed" \in DOMAIN o THEN [a EXCEPT !.v = @ \o << <<l, "F2", e, "unparsed">> >>]
     ELSE IF o.did < 0 THEN [a EXCEPT !.v = @ \o f1]
     ELSE IF ~o.frag THEN
          [a EXCEPT !.done = @ \cup (IF o.plen = o.total /\ o.pd = -1 THEN {o.did} ELSE {}),
                    !.v = @ \o f1 \o (IF o.plen = o.total /\ o.pd = -1 THEN <<>> ELSE << <<l, "F2", e, "whole", o.did, o.plen, o.total, o.pd>> >>)]
     ELSE LET i == Idx(a.snd, LAMBDA x : x.e = e /\ x.ident = o.ident) IN
          IF o.foff = 0 THEN
             [a EXCEPT !.snd = (IF i = 0 THEN @ ELSE Remove(@, i)) \o <<[e |-> e, ident |-> o.ident, did |-> o.did, next |-> o.plen]>>,
                       !.v = @ \o f1 \o (IF o.pd = -1 /\ o.mf THEN <<>> ELSE << <<l, "F2", e, "first", o.did, o.pd>> >>)]
          ELSE IF i = 0 \/ a.snd[i].next # o.foff \/ a.snd[i].did # o.did \/ o.pd # -1 \/ (~o.mf /\ o.foff + o.plen # o.total) \/ (o.mf /\ o.foff + o.plen >= o.total)
          THEN [a EXCEPT !.v = @ \o f1 \o << <<l, "F2", e, "offset", o.did, o.foff, o.plen, o.pd, o.total>> >>]
          ELSE IF ~o.mf THEN [a EXCEPT !.snd = Remove(@, i), !.done = @ \cup {o.did}, !.v = @ \o f1]
          ELSE [a EXCEPT !.snd[i].next = o.foff + o.plen, !.v = @ \o f1]
RECURSIVE SendFold(_, _, _)
SendFold(e, a, outs) == IF outs = <<>> THEN a ELSE SendFold(e, SendStep(e, a, Head(outs)), Tail(outs))

\* ---- receiver side: fold over consumed frames; state b = [slots, due, refused]
RecvStep(e, b, g, now) ==
  IF "unparsed" \in DOMAIN g \/ g.did < 0 \/ ~g.frag THEN b
  ELSE LET i == Idx(b.slots, LAMBDA x : x.e = e /\ x.ident = g.ident /\ x.src = g.src)
           fresh == [e |-> e, ident |-> g.ident, src |-> g.src, did |-> g.did, ivs |-> <<>>, total |-> -1, bad |-> FALSE, t0 |-> now]
           have == i # 0
           room == Cardinality({j \in 1..Len(b.slots) : b.slots[j].e = e}) < cfg.slots
       IN IF ~have /\ ~room THEN [b EXCEPT !.refused = @ \cup {g.did}]
          ELSE LET s0 == IF have THEN b.slots[i] ELSE fresh
                   ivs == IntAdd(s0.ivs, g.foff, g.foff + g.plen)
                   over == Len(ivs) > cfg.asmN
                   s1 == [s0 EXCEPT !.ivs = IF over THEN s0.ivs ELSE ivs, !.total = IF ~g.mf THEN g.foff + g.plen ELSE @, !.bad = @ \/ over]
                   complete == s1.total # -1 /\ s1.ivs = << <<0, s1.total>> >>
                   rest == IF have THEN Remove(b.slots, i) ELSE b.slots
               IN IF complete THEN [b EXCEPT !.slots = rest, !.due = IF s1.bad THEN @ ELSE @ \cup {g.did},
                                            !.refused = IF s1.bad THEN @ \cup {g.did} ELSE @]
                  ELSE [b EXCEPT !.slots = rest \o <<s1>>, !.refused = IF over THEN @ \cup {g.did} ELSE @]
RECURSIVE RecvFold(_, _, _, _)
RecvFold(e, b, rx, now) == IF rx = <<>> THEN b ELSE RecvFold(e, RecvStep(e, b, Head(rx), now), Tail(rx), now)
\* a reassembly slot is given up 60 s after its first fragment (the worlds jump over that boundary by a second or more)
Alive(sl, e, now) == SelectSeq(sl, LAMBDA x : ~(x.e = e /\ now - x.t0 > 60000))

Step ==
  /\ l <= Len(Rec) /\ l' = l + 1
  /\ LET r == Rec[l] IN
     CASE r.ev = "reset" ->
            /\ Flush
            /\ run' = r.run /\ cfg' = r.cfg /\ viol' = <<>> /\ nruns' = nruns + 1 /\ hits' = hits
            /\ snd' = <<>> /\ done' = {} /\ acc' = <<>> /\ slots' = <<>> /\ due' = {} /\ got' = {} /\ refused' = {} /\ lastPa' = [e \in EPS |-> -2]
       [] r.ev = "api" /\ r.call = "send" ->
            /\ acc' = IF r.ok THEN Append(acc, [did |-> r.did, total |-> r.total, kind |-> r.kind]) ELSE acc
            /\ lastPa' = [lastPa EXCEPT ![r.ep] = -2]
            /\ UNCHANGED <<run, cfg, viol, hits, nruns, snd, done, slots, due, got, refused>>
       [] r.ev = "api" /\ r.call = "recv" ->
            LET i == Idx(acc, LAMBDA x : x.did = r.did)
                ok == i # 0 /\ r.diff = -1 /\ r.size + 8 = acc[i].total
            IN /\ viol' = IF ok \/ (r.kind = "icmp" /\ i # 0 /\ r.diff = -1) THEN viol ELSE Add(viol, <<l, "F3", r.ep, r.did, r.size, r.diff>>)
               /\ got' = got \cup {r.did}
               /\ hits' = [hits EXCEPT !["F3"] = @ + 1]
               /\ lastPa' = [lastPa EXCEPT ![r.ep] = -2]
               /\ UNCHANGED <<run, cfg, nruns, snd, done, acc, slots, due, refused>>
       [] r.ev = "poll" ->
            LET a == SendFold(r.ep, [snd |-> snd, done |-> done, v |-> <<>>], r.out)
                b == RecvFold(r.ep, [slots |-> Alive(slots, r.ep, r.now), due |-> due, refused |-> refused], r.rx, r.now)
                lp == lastPa[r.ep]
                lo == "lo" \in DOMAIN r /\ r.lo > 0   \* frames the device kept from the previous poll arrive now
                early == r.rx = <<>> /\ ~lo /\ lp # -2 /\ (lp = -1 \/ r.now < lp)
                q1 == IF early /\ r.out # <<>> THEN << <<l, "Q1", r.ep, r.now, lp>> >> ELSE <<>>
                idle == r.rx = <<>> /\ ~lo /\ r.out = <<>>
                q2 == IF idle /\ ~("bp" \in DOMAIN r /\ r.bp) /\ r.pa # -1 /\ r.pa <= r.now THEN << <<l, "Q2", r.ep, r.now, r.pa>> >> ELSE <<>>
            IN /\ snd' = a.snd /\ done' = a.done /\ slots' = b.slots /\ due' = b.due /\ refused' = b.refused
               /\ viol' = AddAll(viol, a.v \o q1 \o q2)
               /\ lastPa' = [lastPa EXCEPT ![r.ep] = r.pa]
               /\ hits' = [hits EXCEPT !["F1"] = @ + Len(r.out), !["F2"] = @ + Len(r.out), !["Q1"] = @ + (IF early THEN 1 ELSE 0), !["Q2"] = @ + (IF idle THEN 1 ELSE 0)]
               /\ UNCHANGED <<run, cfg, nruns, acc, got>>
       [] r.ev = "end" ->
            LET missTx == {i \in 1..Len(acc) : acc[i].total + 20 <= cfg.fragbuf /\ acc[i].did \notin done}
                f5 == IF r.how = "quiescent" /\ missTx # {} THEN << <<l, "F5", acc[CHOOSE i \in missTx : TRUE].did, Cardinality(missTx)>> >> ELSE <<>>
                \* (echo requests are datagrams like any other: the receiver's ICMP socket is handed a copy -- judged when the
                \*  run has a single one of them, or a socket buffer that holds one message could have refused the second)
                \* (... and only those A sent: what station C sends arrives at A, whose device may be holding frames back)
                icmpDue == due \cap {acc[i].did : i \in {j \in 1..Len(acc) : acc[j].kind = "icmp" /\ acc[j].did < 900000}}
                udp == {acc[i].did : i \in {j \in 1..Len(acc) : acc[j].kind = "udp"}} \cup (IF Cardinality(icmpDue) = 1 THEN icmpDue ELSE {})
                missRx == (due \cap udp) \ got
                f4 == IF missRx # {} THEN << <<l, "F4", CHOOSE d \in missRx : TRUE, Cardinality(missRx)>> >> ELSE <<>>
            IN /\ viol' = AddAll(viol, f5 \o f4)
               /\ hits' = [hits EXCEPT !["F5"] = @ + Len(acc), !["F4"] = @ + Cardinality(due)]
               /\ UNCHANGED <<run, cfg, nruns, snd, done, acc, slots, due, got, refused, lastPa>>
       [] r.ev = "panic" ->
            /\ viol' = Add(viol, <<l, "PANIC", r.ep, r.msg>>)
            /\ hits' = [hits EXCEPT !["PANIC"] = @ + 1]
            /\ UNCHANGED <<run, cfg, nruns, snd, done, acc, slots, due, got, refused, lastPa>>
       [] OTHER -> UNCHANGED <<run, cfg, viol, hits, nruns, snd, done, acc, slots, due, got, refused, lastPa>>
Spec == Init /\ [][Step]_vars
Final == l = Len(Rec) + 1 => /\ Flush
                             /\ PrintT(<<"FINAL", ToJson([events |-> Len(Rec), runs |-> nruns, hits |-> hits])>>)
=============================================================================
