------------------------------- MODULE Mcast -------------------------------
(* Multicast group membership as smoltcp does it for IPv4 / IGMPv2 (iface/interface/multicast.rs): the group table
   (an insertion-ordered map whose removal swaps the last entry into the hole), join / leave, the single report state
   (inactive, answering a general query group by group, answering a group-specific query) and multicast_egress,
   which runs once per poll with the device tokens that poll has: first the reports of groups being joined, then the
   leave messages of groups being left, then at most one step of the report state.  Time is in milliseconds.

   None of the twenty listed properties speaks about group reports (C13 excludes their timers, C11 only demands
   silence towards corrupted queries); the module extends the specification to behaviour the list does not cover.
   Checked as invariants (they hold for the code-shaped model):
     JoinReported    a group leaves the state `joining` only through an unsolicited report, and never reports twice for one join
     LeaveAnnounced  a group leaves the table from `leaving` only through a leave message; from `joining` silently
     NotMember       a group being left is no member (has_multicast_group is false) although it is still in the table
     Bounded         the table never exceeds its capacity and holds no group twice
   Stated as an observation, NOT an invariant of the code (TLC finds counterexamples, listed in DESIGN.md): the answer
   to a general query covers every group that was a member from the query to the end of its response time -- the
   single report state is overwritten by a later query, and the walk by index skips a group when a removal reorders
   the table under it (GeneralAnswered, checked with Dev switches off only to print the counterexample).
   Export prints the explored behaviours; the harness replays them on a real interface (drift). *)
EXTENDS Integers, Sequences, FiniteSets, TLC, Json
CONSTANTS Groups, Cap, MaxT, Resp, MaxEvents, Tokens
VARIABLES now, tab, rep, hist, polled, done, q
vars == <<now, tab, rep, hist, polled, done, q>>

Inactive == [k |-> "inactive", timeout |-> 0, interval |-> 0, next |-> 0, g |-> "none"]
Init == /\ now = 0 /\ tab = <<>> /\ rep = Inactive /\ hist = <<>> /\ polled = FALSE /\ done = FALSE
        /\ q = [at |-> -1, until |-> -1, owed |-> {}]

Idx(g) == LET I == {i \in 1..Len(tab) : tab[i].g = g} IN IF I = {} THEN 0 ELSE CHOOSE i \in I : TRUE
Member(g) == Idx(g) # 0 /\ tab[Idx(g)].st \in {"joining", "joined"}
SwapRemove(s, i) == IF i = Len(s) THEN SubSeq(s, 1, Len(s) - 1) ELSE [SubSeq(s, 1, Len(s) - 1) EXCEPT ![i] = s[Len(s)]]
FirstIn(s, st) == LET I == {i \in 1..Len(s) : s[i].st = st} IN IF I = {} THEN 0 ELSE CHOOSE i \in I : \A j \in I : i <= j
Log(e) == Append(hist, e)

Join(g) ==
  /\ ~done /\ Len(hist) < MaxEvents
  /\ LET i == Idx(g) IN
     IF i # 0 THEN tab' = [tab EXCEPT ![i].st = IF @ = "leaving" THEN "joined" ELSE @]
     ELSE IF Len(tab) < Cap THEN tab' = Append(tab, [g |-> g, st |-> "joining"]) ELSE tab' = tab
  /\ hist' = Log([e |-> "join", g |-> g, t |-> now, out |-> <<>>])
  /\ UNCHANGED <<now, rep, polled, done, q>>
Leave(g) ==
  /\ ~done /\ Len(hist) < MaxEvents /\ Idx(g) # 0
  /\ LET i == Idx(g) IN
     tab' = IF tab[i].st = "joining" THEN SwapRemove(tab, i) ELSE [tab EXCEPT ![i].st = "leaving"]
  /\ hist' = Log([e |-> "leave", g |-> g, t |-> now, out |-> <<>>])
  /\ q' = [q EXCEPT !.owed = @ \ {g}]
  /\ UNCHANGED <<now, rep, polled, done>>

\* queries arrive inside a poll (ingress), the egress of that poll follows: modelled as one step
Egress(tb, rp, tokens, t) ==
  LET RECURSIVE Joins(_, _, _)
      Joins(x, tk, out) == LET i == FirstIn(x, "joining") IN
                           IF i = 0 \/ tk = 0 THEN [tab |-> x, tk |-> tk, out |-> out]
                           ELSE Joins([x EXCEPT ![i].st = "joined"], tk - 1, Append(out, [m |-> "report", g |-> x[i].g]))
      RECURSIVE Leaves(_, _, _)
      Leaves(x, tk, out) == LET i == FirstIn(x, "leaving") IN
                            IF i = 0 \/ tk = 0 THEN [tab |-> x, tk |-> tk, out |-> out]
                            ELSE Leaves(SwapRemove(x, i), tk - 1, Append(out, [m |-> "leave", g |-> x[i].g]))
      a == Joins(tb, tokens, <<>>)
      b == Leaves(a.tab, a.tk, a.out)
      due == rp.k # "inactive" /\ t >= rp.timeout
      r == IF ~due THEN [rep |-> rp, out |-> b.out]
           ELSE IF rp.k = "specific" THEN
                (IF b.tk > 0 THEN [rep |-> Inactive, out |-> Append(b.out, [m |-> "report", g |-> rp.g])] ELSE [rep |-> rp, out |-> b.out])
           ELSE IF rp.next + 1 > Len(b.tab) THEN [rep |-> Inactive, out |-> b.out]
           ELSE IF b.tk > 0 THEN [rep |-> [rp EXCEPT !.timeout = IF rp.timeout + rp.interval > t THEN rp.timeout + rp.interval ELSE t, !.next = @ + 1],
                                  out |-> Append(b.out, [m |-> "report", g |-> b.tab[rp.next + 1].g])]
           ELSE [rep |-> rp, out |-> b.out]
  IN [tab |-> b.tab, rep |-> r.rep, out |-> r.out]

Poll(tokens, qk, qg) ==
  /\ ~done /\ Len(hist) < MaxEvents
  /\ LET n == Len(tab)
         rp1 == IF qk = "general" /\ n # 0 THEN [k |-> "general", timeout |-> now + Resp \div (n + 1), interval |-> Resp \div (n + 1), next |-> 0, g |-> "none"]
                ELSE IF qk = "specific" /\ Member(qg) THEN [k |-> "specific", timeout |-> now + Resp \div 4, interval |-> 0, next |-> 0, g |-> qg]
                ELSE rep
         eg == Egress(tab, rp1, tokens, now)
         reported == {eg.out[i].g : i \in {j \in 1..Len(eg.out) : eg.out[j].m = "report"}}
     IN /\ tab' = eg.tab /\ rep' = eg.rep
        /\ hist' = Log([e |-> "poll", g |-> qg, t |-> now, q |-> qk, tokens |-> tokens, out |-> eg.out])
        /\ polled' = (polled \/ tokens > 0)
        /\ q' = IF qk = "general" THEN [at |-> now, until |-> now + Resp, owed |-> {g \in Groups : Member(g)} \ reported]
              ELSE [q EXCEPT !.owed = @ \ reported]
  /\ UNCHANGED <<now, done>>
\* the clock only advances after a poll that had a device token (the observation below is about polled interfaces)
Tick == /\ ~done /\ now < MaxT /\ polled /\ now' = now + 1 /\ polled' = FALSE /\ UNCHANGED <<tab, rep, hist, done, q>>
Finish == /\ ~done /\ done' = TRUE /\ UNCHANGED <<now, tab, rep, hist, polled, q>>
Next == \/ \E g \in Groups : Join(g) \/ Leave(g)
        \/ \E tk \in Tokens : Poll(tk, "none", "none") \/ Poll(tk, "general", "none") \/ (\E g \in Groups : Poll(tk, "specific", g))
        \/ Tick \/ Finish
Spec == Init /\ [][Next]_vars

Bounded == Len(tab) <= Cap /\ \A i, j \in 1..Len(tab) : i # j => tab[i].g # tab[j].g
NotMember == \A i \in 1..Len(tab) : tab[i].st = "leaving" => ~Member(tab[i].g)
\* action properties over the last history entry
Last == hist[Len(hist)]
JoinReported == [][\A g \in Groups :
                     (\E i \in 1..Len(tab) : tab[i].g = g /\ tab[i].st = "joining") /\ ~(\E i \in 1..Len(tab') : tab'[i].g = g /\ tab'[i].st = "joining")
                     => \/ hist'[Len(hist')].e = "leave" /\ hist'[Len(hist')].g = g
                        \/ \E k \in 1..Len(hist'[Len(hist')].out) : hist'[Len(hist')].out[k] = [m |-> "report", g |-> g]]_vars
LeaveAnnounced == [][\A g \in Groups :
                       (\E i \in 1..Len(tab) : tab[i].g = g /\ tab[i].st = "leaving") /\ ~(\E i \in 1..Len(tab') : tab'[i].g = g)
                       => \E k \in 1..Len(hist'[Len(hist')].out) : hist'[Len(hist')].out[k] = [m |-> "leave", g |-> g]]_vars
\* the observation: when a general query's response time has passed, nothing is still owed
GeneralAnswered == (q.until # -1 /\ now > q.until) => q.owed = {}

View == <<now, tab, rep, polled, done, q, Len(hist)>>
Export == done => PrintT(<<"REPLAY", ToJson([ev |-> hist])>>)
=============================================================================
