-------------------------------- MODULE Lowpan --------------------------------
(* Scenario space of C20 (6LoWPAN compression and fragmentation are lossless): upper protocol x address class x UDP
   port class x payload size class x hop limit x fragment arrival order x back-to-back count.  TLC enumerates the
   product and exports every scenario; the harness runs it between two real IEEE 802.15.4 interfaces (the receiving
   interface is the decoder) and LowpanTrace judges what the receiving socket got against what was sent. *)
EXTENDS Integers, FiniteSets, TLC, Json
Uppers == {"udp", "icmp", "tcp"}
Addrs == {"ll-ext", "ll-short", "global"}         \* link-local from the EUI-64, link-local from a short address, fd00::/64
Ports == {"both4", "one8", "dst8", "none"}         \* both in 0xf0b0..0xf0bf; source / destination alone in 0xf000..0xf0ff; neither
Sizes == {0, 1, 40, 80, 120, 300, 700, 1100}
Hops == {1, 64, 255, 17}
Orders == {"inorder", "reverse", "dup-first", "swap-tail", "drop-one"}
Scenarios == { s \in [u : Uppers, a : Addrs, p : Ports, z : Sizes, h : Hops, o : Orders, n : 1..2] :
                 /\ (s.u # "udp" => s.p = "none" /\ s.h = 64)
                 /\ (s.u = "tcp" => s.o = "inorder" /\ s.n = 1 /\ s.z \in {1, 300, 1100})
                 /\ (s.u = "icmp" => s.n = 1)
                 /\ (s.o # "inorder" => s.z >= 120) }
\* what the statement demands of a scenario
MustDeliver(s) == s.o \in {"inorder", "reverse", "dup-first", "swap-tail"}        \* orders the reassembler can track
\* IPHC header scenarios (wire level: emit into a dirty buffer, parse with the same link-layer context, compare).  The
\* interface cannot resolve neighbours with short link addresses, so the forms that depend on them are reached here.
\* "ll10-ext": inside fe80::/10 but outside fe80::/64 (fe80:0:0:1::/64) with the interface identifier of the extended
\* link-layer address -- no stateless form may drop its bits 10..64
SrcClasses == {"unspec", "ll-from-ext", "ll-from-short", "ll-short-other", "ll-iid64", "ll10-ext", "global"}
\* "mc-8f" / "mc-32f": link-local-scope groups with a small group id but non-zero flags or a scope the short forms cannot
\* express (ff12::42, ff32::1:2:3 is not needed: one per short form): they must NOT be squeezed into the 8- / 32-bit forms
DstClasses == (SrcClasses \ {"unspec"}) \cup {"mc-8", "mc-32", "mc-48", "mc-full", "mc-8f", "mc-32f"}
LlKinds == {"ext", "short", "none"}
NextHdrs == {"compressed", "udp", "tcp", "icmp6", "hbh"}
IphcScenarios == [s : SrcClasses, d : DstClasses, ls : LlKinds, ld : LlKinds, h : Hops \cup {0, 2, 63, 254}, nh : NextHdrs]
VARIABLES sc, done
Init == sc = [u |-> "udp"] /\ done = FALSE
Pick == ~done /\ done' = TRUE /\ \/ \E s \in Scenarios : sc' = s
                                 \/ \E s \in IphcScenarios : sc' = [u |-> "iphc"] @@ s
Spec == Init /\ [][Pick]_<<sc, done>>
Export == done => PrintT(<<"REPLAY", ToJson(sc)>>)
=============================================================================
