---- MODULE Dhcp ----
(* Reference model of smoltcp's dhcpv4::Socket client (C18); time in seconds, retry configuration scaled down.
   Phases discovering / requesting / renewing(rebinding) with retry counters and instants, a hostile server choosing
   message type x transaction-id match x header validity x configuration validity x lease, loss, and the application
   consuming Configured / Deconfigured events.  Ingress-then-egress of one Interface::poll is modelled with `phase`.
   DevAckBeforeReq = TRUE is the code before its fix (ACK accepted before any REQUEST was sent): negative control for H1. *)
EXTENDS Integers, FiniteSets, TLC
CONSTANTS DiscT, ReqT, ReqRetries, MinRenew, Leases, MaxTime, DevAckBeforeReq
VARIABLES now, st, retryAt, retry, xid, nextXid, reqSent, renewAt, rebindAt, expiresAt, rebinding,
          changed, reported, ackAt, ackLease, staleXids, tx, lastPollTx, phase
vars == <<now, st, retryAt, retry, xid, nextXid, reqSent, renewAt, rebindAt, expiresAt, rebinding, changed, reported, ackAt, ackLease, staleXids, tx, lastPollTx, phase>>
Min(a, b) == IF a < b THEN a ELSE b
Max(a, b) == IF a > b THEN a ELSE b
Init == /\ now = 0 /\ st = "disc" /\ retryAt = 0 /\ retry = 0 /\ xid = 1 /\ nextXid = 2 /\ reqSent = FALSE
        /\ renewAt = 0 /\ rebindAt = 0 /\ expiresAt = 0 /\ rebinding = FALSE /\ changed = TRUE /\ reported = "none"
        /\ ackAt = -1 /\ ackLease = 0 /\ staleXids = {} /\ tx = "none" /\ lastPollTx = FALSE /\ phase = "idle"
PollAt == IF st = "disc" THEN retryAt ELSE IF st = "req" THEN retryAt
          ELSE Min(IF rebinding THEN rebindAt ELSE Min(renewAt, rebindAt), expiresAt)
Reset == /\ st' = "disc" /\ retryAt' = 0 /\ changed' = (IF st = "renew" THEN TRUE ELSE changed)
\* one Interface::poll with no ingress: dispatch once (emit always succeeds)
Dispatch ==
  /\ now >= PollAt \/ TRUE      \* polling early is harmless; only enabled below when it does something or at deadline
  /\ CASE st = "disc" ->
            IF now < retryAt THEN UNCHANGED <<st, retryAt, retry, xid, nextXid, reqSent, renewAt, rebindAt, expiresAt, rebinding, changed, staleXids>> /\ tx' = "none"
            ELSE /\ tx' = "discover" /\ retryAt' = now + DiscT /\ UNCHANGED <<staleXids, xid, nextXid>>
                 /\ UNCHANGED <<st, retry, reqSent, renewAt, rebindAt, expiresAt, rebinding, changed>>
       [] st = "req" ->
            IF now < retryAt THEN UNCHANGED <<st, retryAt, retry, xid, nextXid, reqSent, renewAt, rebindAt, expiresAt, rebinding, changed, staleXids>> /\ tx' = "none"
            ELSE IF retry >= ReqRetries THEN /\ Reset /\ tx' = "none" /\ UNCHANGED <<retry, xid, nextXid, reqSent, renewAt, rebindAt, expiresAt, rebinding, staleXids>>
            ELSE /\ tx' = "request" /\ reqSent' = TRUE /\ retryAt' = now + ReqT * (IF retry >= 2 THEN 2 ELSE 1) /\ retry' = retry + 1
                 /\ UNCHANGED <<st, xid, nextXid, renewAt, rebindAt, expiresAt, rebinding, changed, staleXids>>
       [] st = "renew" ->
            IF expiresAt <= now THEN /\ Reset /\ tx' = "none" /\ UNCHANGED <<retry, xid, nextXid, reqSent, renewAt, rebindAt, expiresAt, rebinding, staleXids>>
            ELSE IF now < renewAt \/ (rebinding /\ now < rebindAt) THEN UNCHANGED <<st, retryAt, retry, xid, nextXid, reqSent, renewAt, rebindAt, expiresAt, rebinding, changed, staleXids>> /\ tx' = "none"
            ELSE LET rb == rebinding \/ now >= rebindAt IN
                 /\ rebinding' = rb /\ tx' = (IF rb THEN "rebind" ELSE "renewreq")
                 /\ UNCHANGED <<staleXids, xid, nextXid>>
                 /\ IF rb THEN rebindAt' = now + Max(MinRenew, (expiresAt - now) \div 2) /\ renewAt' = renewAt
                          ELSE renewAt' = now + Min(Max(MinRenew, (rebindAt - now) \div 2), rebindAt - now) /\ rebindAt' = rebindAt
                 /\ UNCHANGED <<st, retryAt, retry, reqSent, expiresAt, changed>>
  /\ lastPollTx' = (tx' # "none") /\ phase' = "idle"
  /\ UNCHANGED <<now, reported, ackAt, ackLease>>
\* server / adversary message processed by the client (one frame in a poll's ingress loop)
Valid(m) == m.hdr /\ m.xidok
SrvMsg(m) ==
  /\ IF ~Valid(m) THEN UNCHANGED <<st, retryAt, retry, reqSent, renewAt, rebindAt, expiresAt, rebinding, changed, ackAt, ackLease>>
     ELSE CASE st = "disc" /\ m.t = "offer" /\ m.cfg ->
                 /\ st' = "req" /\ retryAt' = now /\ retry' = 0 /\ reqSent' = FALSE
                 /\ UNCHANGED <<renewAt, rebindAt, expiresAt, rebinding, changed, ackAt, ackLease>>
            [] st = "req" /\ m.t = "ack" /\ m.cfg /\ (DevAckBeforeReq \/ reqSent) ->
                 /\ st' = "renew" /\ renewAt' = now + m.lease \div 2 /\ rebindAt' = now + (m.lease * 7) \div 8 /\ expiresAt' = now + m.lease
                 /\ rebinding' = FALSE /\ changed' = TRUE /\ ackAt' = now /\ ackLease' = m.lease
                 /\ UNCHANGED <<retryAt, retry, reqSent>>
            [] st = "renew" /\ m.t = "ack" /\ m.cfg ->
                 /\ renewAt' = now + m.lease \div 2 /\ rebindAt' = now + (m.lease * 7) \div 8 /\ expiresAt' = now + m.lease
                 /\ rebinding' = FALSE /\ ackAt' = now /\ ackLease' = m.lease
                 /\ UNCHANGED <<st, retryAt, retry, reqSent, changed>>
            [] st \in {"req", "renew"} /\ m.t = "nak" ->
                 /\ Reset /\ UNCHANGED <<retry, reqSent, renewAt, rebindAt, expiresAt, rebinding, ackAt, ackLease>>
            [] OTHER -> UNCHANGED <<st, retryAt, retry, reqSent, renewAt, rebindAt, expiresAt, rebinding, changed, ackAt, ackLease>>
  /\ tx' = "none" /\ phase' = "egress"
  /\ UNCHANGED <<now, xid, nextXid, reported, staleXids, lastPollTx>>
Msgs == [t : {"offer", "ack", "nak"}, xidok : BOOLEAN, hdr : BOOLEAN, cfg : BOOLEAN, lease : Leases]
\* application calls socket.poll() after an Interface::poll
AppPoll == /\ phase = "idle" /\ changed /\ changed' = FALSE /\ reported' = (IF st = "renew" THEN "cfg" ELSE "none")
           /\ UNCHANGED <<now, st, retryAt, retry, xid, nextXid, reqSent, renewAt, rebindAt, expiresAt, rebinding, ackAt, ackLease, staleXids, tx, lastPollTx, phase>>
\* the event loop sleeps until poll_at (it polls no later than that instant), so time only passes while nothing is due
Tick == /\ phase = "idle" /\ now < MaxTime /\ ~changed /\ PollAt > now
        /\ now' = Min(PollAt, MaxTime)
        /\ UNCHANGED <<st, retryAt, retry, xid, nextXid, reqSent, renewAt, rebindAt, expiresAt, rebinding, changed, reported, ackAt, ackLease, staleXids, tx, lastPollTx, phase>>
\* the loop polls at poll_at (or when a frame arrives)
DispatchStep == /\ (phase = "egress" \/ now >= PollAt) /\ Dispatch
Next == DispatchStep \/ (\E m \in Msgs : SrvMsg(m)) \/ AppPoll \/ Tick
Spec == Init /\ [][Next]_vars
\* --- properties
H1 == st = "renew" => reqSent
H2b == (st = "renew") => expiresAt <= ackAt + ackLease
H3 == st = "renew" => PollAt <= expiresAt
Q2 == (tx = "none" /\ ~lastPollTx) => TRUE
PollAtP == IF st' = "disc" THEN retryAt' ELSE IF st' = "req" THEN retryAt'
          ELSE Min(IF rebinding' THEN rebindAt' ELSE Min(renewAt', rebindAt'), expiresAt')
IdlePollProp == [][(phase' = "idle" /\ phase = "idle" /\ now' = now /\ tx' = "none" /\ changed' = changed /\ reported' = reported /\ st' # st) => PollAtP > now]_vars
H2 == (reported = "cfg" /\ ~changed /\ phase = "idle") => (ackAt >= 0 /\ now <= ackAt + ackLease)
====
