----------------------------- MODULE SlaacTrace -----------------------------
(* Monitor for the `slaac` world (C13: the SLAAC timers behind poll_at).
   Q1  a poll strictly before the instant poll_at returned (or at any instant when it returned none), with no frame
       queued and no API call in between, transmits nothing (multicast listener reports are exempt)
   Q2  after a poll that neither received nor transmitted a frame, poll_at is absent or strictly later than that
       poll's timestamp, and poll_delay agrees with poll_at
   R1  router solicitations: at most three, at least 4 s apart, none after an advertisement with a non-zero router
       lifetime was accepted in a poll later than the first solicitation (RFC 4861 6.3.7)
   R2  sufficiency, solicitation timer: while solicitations remain (fewer than three sent, no acceptable
       advertisement delivered after the first one), poll_at is present and not later than 4 s after the last one
   R3  sufficiency, lifetime timers: a SLAAC address (a default route) still held after a poll is backed by an
       accepted advertisement whose valid (router) lifetime ends later than that poll, and poll_at is present and not
       later than that end -- the end is the latest one any accepted advertisement for that prefix (router) gave,
       so neither "the last advertisement wins" nor RFC 4862's two-hour rule can make the rule fire on correct code
   LAG (counted, not a violation) an address / route some accepted advertisement entitles the interface to but which it
       does not hold after a poll (withdrawn, superseded by a later advertisement, or no room in the tables) *)
EXTENDS Integers, Sequences, FiniteSets, TLC, Json, IOUtils
Rec == ndJsonDeserialize(IOEnv.TRACE)
VARIABLES l, run, viol, hits, nruns, rs, stopped, firstRsPoll, polls, pend, rend, lag
vars == <<l, run, viol, hits, nruns, rs, stopped, firstRsPoll, polls, pend, rend, lag>>
Rules == {"Q1", "Q2", "R1", "R2", "R3", "LAG", "PANIC"}
Max(a, b) == IF a > b THEN a ELSE b
\* the cap is per rule (x[2]): a flood of one rule (say Q2, which another check owns) must not crowd out the others
Add(v, x) == IF Len(SelectSeq(v, LAMBDA e : e[2] = x[2])) >= 6 THEN v ELSE Append(v, x)
RECURSIVE AddAll(_, _)
AddAll(v, xs) == IF xs = <<>> THEN v ELSE AddAll(Add(v, Head(xs)), Tail(xs))
Flush == viol = <<>> \/ PrintT(<<"RUNVIOL", ToJson([run |-> run, viol |-> viol])>>)
PFX == {1, 2}
RTR == {1, 2}
Init == /\ l = 1 /\ run = -1 /\ viol = <<>> /\ hits = [r \in Rules |-> 0] /\ nruns = 0
        /\ rs = <<>> /\ stopped = [any |-> FALSE, nz |-> FALSE] /\ firstRsPoll = -1 /\ polls = 0
        /\ pend = [p \in PFX |-> -1] /\ rend = [r \in RTR |-> -1] /\ lag = 0
Pr(o) == IF "proto" \in DOMAIN o THEN o.proto ELSE -1
Exempt(o) == o.k = "mld" \/ (o.et = "ip4" /\ Pr(o) = 2)
NonExempt(outs) == {i \in 1..Len(outs) : ~Exempt(outs[i])}
Has(s, x) == \E i \in 1..Len(s) : s[i] = x
NRs(outs) == Cardinality({i \in 1..Len(outs) : outs[i].k = "rs"})

Step ==
  /\ l <= Len(Rec) /\ l' = l + 1
  /\ LET r == Rec[l] IN
     CASE r.ev = "reset" ->
            /\ Flush /\ run' = r.run /\ viol' = <<>> /\ nruns' = nruns + 1 /\ hits' = hits
            /\ rs' = <<>> /\ stopped' = [any |-> FALSE, nz |-> FALSE] /\ firstRsPoll' = -1 /\ polls' = 0
            /\ pend' = [p \in PFX |-> -1] /\ rend' = [x \in RTR |-> -1] /\ lag' = 0
       [] r.ev = "ra" ->
            \* delivered in the poll that follows (poll number polls + 1)
            LET afterFirst == firstRsPoll # -1 /\ polls + 1 > firstRsPoll IN
            /\ stopped' = [any |-> stopped.any \/ (r.ok /\ afterFirst), nz |-> stopped.nz \/ (r.ok /\ afterFirst /\ r.rl > 0)]
            /\ pend' = IF r.pok /\ r.pk \in PFX /\ r.valid > 0 THEN [pend EXCEPT ![r.pk] = Max(@, r.now + 1000 * r.valid)] ELSE pend
            /\ rend' = IF r.ok /\ r.rl > 0 THEN [rend EXCEPT ![r.from] = Max(@, r.now + 1000 * r.rl)] ELSE rend
            /\ UNCHANGED <<run, viol, hits, nruns, rs, firstRsPoll, polls, lag>>
       [] r.ev = "poll" ->
            LET ne == NonExempt(r.out)
                early == r.kind = "probe" /\ r.nrx = 0 /\ (r.deadline = -1 \/ r.now < r.deadline)
                q1 == IF early /\ ne # {} THEN << <<l, "Q1", r.now, r.deadline, r.out[CHOOSE i \in ne : TRUE].k>> >> ELSE <<>>
                idle == r.nrx = 0 /\ r.out = <<>>
                q2 == IF idle /\ ((r.pa # -1 /\ r.pa <= r.now) \/ (r.pd = 0)) THEN << <<l, "Q2", r.now, r.pa, r.pd>> >> ELSE <<>>
                q2b == IF (r.pa = -1) # (r.pd = -1) \/ (r.pa > r.now /\ r.pd # r.pa - r.now) THEN << <<l, "Q2", "poll_delay-disagrees", r.now, r.pa, r.pd>> >> ELSE <<>>
                n == NRs(r.out)
                rs1 == IF n > 0 THEN Append(rs, r.now) ELSE rs
                r1 == IF n = 0 THEN <<>>
                      ELSE IF n > 1 \/ Len(rs1) > 3 THEN << <<l, "R1", "more-than-three", r.now, Len(rs1)>> >>
                      ELSE IF Len(rs) > 0 /\ r.now - rs[Len(rs)] < 4000 THEN << <<l, "R1", "too-soon", r.now, r.now - rs[Len(rs)]>> >>
                      ELSE IF stopped.nz THEN << <<l, "R1", "after-advertisement", r.now>> >>
                      ELSE <<>>
                \* the solicitation timer still runs: one to two sent, nothing acceptable heard since the first
                running == Len(rs1) \in {1, 2} /\ ~stopped.any
                r2 == IF running /\ (r.pa = -1 \/ r.pa > rs1[Len(rs1)] + 4000) THEN << <<l, "R2", r.now, r.pa, rs1[Len(rs1)]>> >> ELSE <<>>
                badA == {p \in PFX : Has(r.addrs, p) /\ (pend[p] <= r.now \/ r.pa = -1 \/ r.pa > pend[p])}
                badR == {x \in RTR : Has(r.rts, x) /\ (rend[x] <= r.now \/ r.pa = -1 \/ r.pa > rend[x])}
                r3 == (IF badA = {} THEN <<>> ELSE LET p == CHOOSE p \in badA : TRUE IN << <<l, "R3", "address", p, r.now, pend[p], r.pa>> >>)
                      \o (IF badR = {} THEN <<>> ELSE LET x == CHOOSE x \in badR : TRUE IN << <<l, "R3", "route", x, r.now, rend[x], r.pa>> >>)
                \* installation lag (observation)
                lagA == {p \in PFX : pend[p] > r.now /\ ~Has(r.addrs, p)}
                lagR == {x \in RTR : rend[x] > r.now /\ ~Has(r.rts, x)}
                isLag == (lagA # {} \/ lagR # {}) /\ (r.pa = -1 \/ r.pa > r.now)
            IN /\ viol' = AddAll(viol, q1 \o q2 \o q2b \o r1 \o r2 \o r3)
               /\ rs' = rs1
               /\ polls' = polls + 1
               /\ firstRsPoll' = IF firstRsPoll = -1 /\ n > 0 THEN polls + 1 ELSE firstRsPoll
               /\ lag' = lag + (IF isLag THEN 1 ELSE 0)
               /\ hits' = [hits EXCEPT !["Q1"] = @ + (IF early THEN 1 ELSE 0), !["Q2"] = @ + (IF idle THEN 1 ELSE 0),
                                       !["R1"] = @ + n, !["R2"] = @ + (IF running THEN 1 ELSE 0),
                                       !["R3"] = @ + Cardinality({p \in PFX : Has(r.addrs, p)}) + Cardinality({x \in RTR : Has(r.rts, x)}),
                                       !["LAG"] = @ + (IF isLag THEN 1 ELSE 0)]
               /\ UNCHANGED <<run, nruns, stopped, pend, rend>>
       [] r.ev = "panic" -> /\ viol' = Add(viol, <<l, "PANIC", r.msg>>) /\ hits' = [hits EXCEPT !["PANIC"] = @ + 1]
                            /\ UNCHANGED <<run, nruns, rs, stopped, firstRsPoll, polls, pend, rend, lag>>
       [] OTHER -> UNCHANGED <<run, viol, hits, nruns, rs, stopped, firstRsPoll, polls, pend, rend, lag>>
Spec == Init /\ [][Step]_vars
Final == l = Len(Rec) + 1 => /\ Flush
                             /\ PrintT(<<"FINAL", ToJson([events |-> Len(Rec), runs |-> nruns, hits |-> hits])>>)
=============================================================================
