-------------------------------- MODULE Frag --------------------------------
(* IPv4 egress fragmenter (one shared buffer with progress counters, first fragment sent at dispatch, then one fragment
   per egress pass), a network that permutes and duplicates fragments, and reassembly slots with a bounded tracker.
   DevOverwrite = TRUE is the code before its fix (a second oversized datagram refills the busy buffer): negative control.
   `arr` is a history variable (arrival order) used to export replayable schedules at terminal states. *)
EXTENDS Integers, FiniteSets, Sequences, TLC, Json
CONSTANTS NDgrams, NFrags, AsmN, Slots, DupBudget, DevOverwrite
VARIABLES queued, fr, wire, everSent, slots, delivered, dups, arr, dropped
vars == <<queued, fr, wire, everSent, slots, delivered, dups, arr, dropped>>
Init == /\ queued = [i \in 1..NDgrams |-> i] /\ fr = [id |-> 0, sent |-> 0, buf |-> 0]
        /\ wire = {} /\ everSent = {} /\ slots = [i \in {} |-> {}] /\ delivered = <<>> /\ dups = 0 /\ arr = <<>> /\ dropped = {}
Busy == fr.id # 0 /\ fr.sent < NFrags
SockDispatch ==
  /\ queued # <<>>
  /\ (DevOverwrite \/ ~Busy)
  /\ LET d == Head(queued) IN
     /\ queued' = Tail(queued)
     /\ fr' = [id |-> d, sent |-> 1, buf |-> d]
     /\ wire' = wire \cup {[id |-> d, idx |-> 1, body |-> d]}
     /\ everSent' = everSent \cup {<<d, 1>>}
  /\ UNCHANGED <<slots, delivered, dups, arr, dropped>>
FragEgress ==
  /\ Busy
  /\ LET k == fr.sent + 1 IN
     /\ wire' = wire \cup {[id |-> fr.id, idx |-> k, body |-> fr.buf]}
     /\ everSent' = IF fr.buf = fr.id THEN everSent \cup {<<fr.id, k>>} ELSE everSent
     /\ fr' = [fr EXCEPT !.sent = k]
  /\ UNCHANGED <<queued, slots, delivered, dups, arr, dropped>>
Starts(S) == {x \in S : (x - 1) \notin S}
Arrive(f, keep) ==
  /\ f \in wire
  /\ IF keep THEN dups < DupBudget /\ dups' = dups + 1 ELSE dups' = dups
  /\ wire' = IF keep THEN wire ELSE wire \ {f}
  /\ arr' = Append(arr, <<f.id, f.idx, keep>>)
  /\ LET has == f.id \in DOMAIN slots
         room == Cardinality(DOMAIN slots) < Slots
         cur == IF has THEN slots[f.id] ELSE {}
         new == cur \cup {<<f.idx, f.body>>}
         idxs == {p[1] : p \in new}
         fits == Cardinality(Starts(idxs)) <= AsmN
         complete == idxs = 1..NFrags
     IN IF ~has /\ ~room THEN /\ UNCHANGED <<slots, delivered>> /\ dropped' = dropped \cup {f.id}
        ELSE IF ~fits THEN /\ dropped' = dropped \cup {f.id}
                           /\ (IF has THEN UNCHANGED <<slots, delivered>>
                               ELSE slots' = [i \in DOMAIN slots \cup {f.id} |-> IF i = f.id THEN {} ELSE slots[i]] /\ delivered' = delivered)
        ELSE IF complete THEN /\ delivered' = Append(delivered, [id |-> f.id, parts |-> new])
                              /\ slots' = [i \in DOMAIN slots \ {f.id} |-> slots[i]] /\ dropped' = dropped
        ELSE /\ slots' = [i \in DOMAIN slots \cup {f.id} |-> IF i = f.id THEN new ELSE slots[i]]
             /\ delivered' = delivered /\ dropped' = dropped
  /\ UNCHANGED <<queued, fr, everSent>>
Next == SockDispatch \/ FragEgress \/ \E f \in wire, keep \in BOOLEAN : Arrive(f, keep)
Spec == Init /\ [][Next]_vars
\* F2: every fragment on the wire carries bytes of the datagram it claims to belong to
BodyOK == \A f \in wire : f.body = f.id
\* F3: whatever is delivered is exactly one original datagram
DeliveredOK == \A i \in 1..Len(delivered) : \A p \in delivered[i].parts : p[2] = delivered[i].id
\* F5: when the sender is idle, every dispatched datagram was transmitted completely
SenderIdle == queued = <<>> /\ ~Busy
CompleteTx == SenderIdle => \A d \in 1..NDgrams : \A k \in 1..NFrags : <<d, k>> \in everSent
\* F4: a datagram whose fragments all arrived and that was never refused a slot or a gap is delivered
Terminal == SenderIdle /\ wire = {}
DeliveredIds == {delivered[i].id : i \in 1..Len(delivered)}
Obliged == Terminal => \A d \in 1..NDgrams : (d \notin dropped) => d \in DeliveredIds
\* schedule export: one line per terminal behaviour
Export == Terminal => PrintT(<<"REPLAY", ToJson([arr |-> arr, delivered |-> [i \in 1..Len(delivered) |-> delivered[i].id], dropped |-> dropped])>>)
=============================================================================
