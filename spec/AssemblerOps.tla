--------------------------- MODULE AssemblerOps ---------------------------
(* Contract of smoltcp's storage::Assembler (property C15): the tracker is an exact set of byte offsets.
   All operators are constant-level and take the configured maximum number of ranges as an argument, so the
   same definitions serve the bounded model (MCAssembler), the trace monitor (AssemblerTrace) and the
   receive side of the TCP and fragment models. *)
EXTENDS Integers, FiniteSets, Sequences

ARange(o, s) == o..(o + s - 1)
Starts(S) == {x \in S : (x - 1) \notin S}
NumRanges(S) == Cardinality(Starts(S))
SetMax(S) == CHOOSE m \in S : \A x \in S : x <= m
\* length of the run starting at offset a (a \in S)
RunEnd(S, a) == CHOOSE e \in (a + 1)..(SetMax(S) + 1) : (\A x \in a..(e - 1) : x \in S) /\ e \notin S
FrontLen(S) == IF 0 \in S THEN RunEnd(S, 0) ELSE 0
Shift(S, n) == {x - n : x \in {y \in S : y >= n}}
\* maximal runs as a sorted sequence of <<start, end>> (end exclusive): what iter_data() reports
SetMin(S) == CHOOSE m \in S : \A x \in S : m <= x
RECURSIVE Runs(_)
Runs(S) == IF S = {} THEN <<>>
           ELSE LET a == SetMin(S) e == RunEnd(S, a) IN <<<<a, e>>>> \o Runs({x \in S : x >= e})

\* add(o, s): succeeds iff the union needs at most n ranges; a refusal leaves the tracker unchanged
AddRes(S, o, s, n) ==
  LET new == S \cup ARange(o, s)
  IN IF NumRanges(new) <= n THEN [ok |-> TRUE, S |-> new, n |-> 0] ELSE [ok |-> FALSE, S |-> S, n |-> 0]
\* remove_front(): length of the run at offset 0 (0 if none); everything shifts down by it
RemoveFrontRes(S) == LET k == FrontLen(S) IN [ok |-> TRUE, S |-> Shift(S, k), n |-> k]
\* add_then_remove_front(o, s) = add; remove_front -- and never refused when o = 0
AddThenRemoveFrontRes(S, o, s, n) ==
  LET new == S \cup ARange(o, s)
      k == FrontLen(new)
  IN IF o = 0 \/ NumRanges(new) <= n THEN [ok |-> TRUE, S |-> Shift(new, k), n |-> k]
     ELSE [ok |-> FALSE, S |-> S, n |-> 0]
ClearRes == [ok |-> TRUE, S |-> {}, n |-> 0]

OpRes(S, op, o, s, n) ==
  CASE op = "add" -> AddRes(S, o, s, n)
    [] op = "remove_front" -> RemoveFrontRes(S)
    [] op = "add_then_remove_front" -> AddThenRemoveFrontRes(S, o, s, n)
    [] op = "clear" -> ClearRes
=============================================================================
