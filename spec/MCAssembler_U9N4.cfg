SPECIFICATION Spec
CONSTANTS
 U = 9
 N = 4
INVARIANT TypeOK
INVARIANT Bounded
PROPERTY RefusedUnchanged
PROPERTY ZeroNeverRefused
PROPERTY RefusalJustified
VIEW View
ACTION_CONSTRAINT Edge
CHECK_DEADLOCK FALSE
