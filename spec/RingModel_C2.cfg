SPECIFICATION Spec
CONSTANTS
 C = 2
 T = 3
INVARIANT Refines
INVARIANT NoBad
INVARIANT Bounded
VIEW View
ACTION_CONSTRAINT Edge
CHECK_DEADLOCK FALSE
