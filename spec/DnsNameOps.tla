---------------------------- MODULE DnsNameOps ----------------------------
(* Name decompression as a constant-level operator over a byte sequence (shared by DnsName and DnsTrace). *)
EXTENDS Integers, Sequences
RECURSIVE Walk(_, _, _, _, _, _)
Walk(buf, pos, end, limit, acc, fuel) ==
  IF fuel = 0 THEN [ok |-> FALSE, labels |-> acc, why |-> "no-termination"]
  ELSE IF pos >= end THEN [ok |-> FALSE, labels |-> acc, why |-> "eof"]
  ELSE LET b == buf[pos + 1] IN
       IF b = 0 THEN [ok |-> TRUE, labels |-> acc, why |-> "end"]
       ELSE IF b < 64 THEN
            (IF pos + 1 + b > end THEN [ok |-> FALSE, labels |-> acc, why |-> "short-label"]
             ELSE Walk(buf, pos + 1 + b, end, limit, Append(acc, SubSeq(buf, pos + 2, pos + 1 + b)), fuel - 1))
       ELSE IF b >= 192 THEN
            (IF pos + 2 > end THEN [ok |-> FALSE, labels |-> acc, why |-> "short-pointer"]
             ELSE LET ptr == (b - 192) * 256 + buf[pos + 2] IN
                  IF ptr >= limit THEN [ok |-> FALSE, labels |-> acc, why |-> "bad-pointer"]
                  ELSE Walk(buf, ptr, limit, ptr, acc, fuel - 1))
       ELSE [ok |-> FALSE, labels |-> acc, why |-> "bad-label-type"]
NameResult(buf, off) == Walk(buf, off, Len(buf), Len(buf), <<>>, 2 * Len(buf) + 2)
=============================================================================
