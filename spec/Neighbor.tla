------------------------------ MODULE Neighbor ------------------------------
(* Reference model of the neighbor machinery behind C16: a K-slot cache with 60 s entries (eviction of the entry that
   expires first), one global 1 s discovery rate limiter, per-destination datagram queues, ARP replies that are
   timely, late, unsolicited or carry a non-unicast hardware address, and clock jumps across the 1 s / 60 s boundaries.
   Time is in milliseconds; the clock only moves by the jumps in Jumps, at most MaxJumps times.
   Neighbour advertisements without the override flag do not replace a live entry (NDISC); traffic received from a
   neighbour confirms its entry.
   Deviation switches (negative controls): DevNoExpiry (entries never expire), DevNoRateLimit, DevLearnBroadcast,
   DevRefreshOnSend (our own transmissions extend an entry's life). *)
EXTENDS Integers, FiniteSets, Sequences, TLC
CONSTANTS Hosts, K, Jumps, MaxJumps, MaxSend, DevNoExpiry, DevNoRateLimit, DevLearnBroadcast, DevRefreshOnSend
VARIABLES now, cache, silentUntil, queued, learned, lastReq, jumps, sent, bad
vars == <<now, cache, silentUntil, queued, learned, lastReq, jumps, sent, bad>>
Macs == Hosts \cup {"bcast"}
NoEntry == [mac |-> "none", exp |-> 0]
Init == /\ now = 0 /\ cache = [h \in Hosts |-> NoEntry] /\ silentUntil = 0 /\ queued = [h \in Hosts |-> 0]
        /\ learned = [h \in Hosts |-> [mac |-> "none", t |-> 0]] /\ lastReq = [h \in Hosts |-> -100000] /\ jumps = 0 /\ sent = 0 /\ bad = {}
InCache == {h \in Hosts : cache[h].mac # "none"}
Found(h) == cache[h].mac # "none" /\ (DevNoExpiry \/ now < cache[h].exp)
\* fill with eviction of the entry expiring first when all K slots are taken by other addresses
Fill(c, h, mac) ==
  LET others == {x \in Hosts : x # h /\ c[x].mac # "none"}
      victim == CHOOSE x \in others : \A y \in others : c[x].exp <= c[y].exp
      c1 == IF c[h].mac = "none" /\ Cardinality(others) >= K THEN [c EXCEPT ![victim] = NoEntry] ELSE c
  IN [c1 EXCEPT ![h] = [mac |-> mac, exp |-> now + 60000]]
AppSend(h) == /\ sent < MaxSend /\ queued' = [queued EXCEPT ![h] = @ + 1] /\ sent' = sent + 1
              /\ UNCHANGED <<now, cache, silentUntil, learned, lastReq, jumps, bad>>
\* one egress pass for destination h: data frame if resolved, else a (rate limited) ARP request
Egress(h) ==
  /\ queued[h] > 0
  /\ IF Found(h)
     THEN /\ queued' = [queued EXCEPT ![h] = @ - 1]
          \* N1: the hardware address used was learned from a valid message and confirmed < 60 s ago
          /\ bad' = bad \cup (IF learned[h].mac = cache[h].mac /\ cache[h].mac # "bcast" /\ now - learned[h].t < 60000 THEN {} ELSE {"N1"})
          /\ cache' = IF DevRefreshOnSend THEN [cache EXCEPT ![h].exp = now + 60000] ELSE cache
          /\ UNCHANGED <<silentUntil, lastReq>>
     ELSE /\ (DevNoRateLimit \/ now >= silentUntil)
          /\ silentUntil' = now + 1000 /\ lastReq' = [lastReq EXCEPT ![h] = now]
          \* N3: discovery for one target at most once per second
          /\ bad' = bad \cup (IF now - lastReq[h] >= 1000 THEN {} ELSE {"N3"})
          /\ UNCHANGED <<cache, queued>>
  /\ UNCHANGED <<now, learned, jumps, sent>>
\* an ARP reply (solicited or not) from host h claiming hardware address mac
ArpReply(h, mac) ==
  /\ IF mac = "bcast" /\ ~DevLearnBroadcast THEN UNCHANGED <<cache, learned>>
     ELSE /\ cache' = Fill(cache, h, mac)
          /\ learned' = [learned EXCEPT ![h] = IF mac = "bcast" THEN @ ELSE [mac |-> mac, t |-> now]]
  /\ UNCHANGED <<now, silentUntil, queued, lastReq, jumps, sent, bad>>
\* a neighbour advertisement without the override flag: only fills an absent / expired entry
AdvertNoOverride(h, mac) ==
  /\ IF Found(h) \/ (mac = "bcast" /\ ~DevLearnBroadcast) THEN UNCHANGED <<cache, learned>>
     ELSE /\ cache' = Fill(cache, h, mac)
          /\ learned' = [learned EXCEPT ![h] = IF mac = "bcast" THEN @ ELSE [mac |-> mac, t |-> now]]
  /\ UNCHANGED <<now, silentUntil, queued, lastReq, jumps, sent, bad>>
\* a unicast packet from h (with the hardware address the cache holds) confirms the entry
TrafficFrom(h) ==
  /\ cache[h].mac \notin {"none", "bcast"}
  /\ cache' = [cache EXCEPT ![h].exp = now + 60000]
  /\ learned' = [learned EXCEPT ![h] = IF @.mac = cache[h].mac THEN [@ EXCEPT !.t = now] ELSE @]
  /\ UNCHANGED <<now, silentUntil, queued, lastReq, jumps, sent, bad>>
Jump(d) == /\ jumps < MaxJumps /\ now' = now + d /\ jumps' = jumps + 1
           /\ UNCHANGED <<cache, silentUntil, queued, learned, lastReq, sent, bad>>
Next == \/ \E h \in Hosts : AppSend(h) \/ Egress(h) \/ TrafficFrom(h) \/ \E m \in {h, "bcast"} : ArpReply(h, m) \/ AdvertNoOverride(h, m)
        \/ \E d \in Jumps : Jump(d)
Spec == Init /\ [][Next]_vars
NoBad == bad = {}
CacheBound == Cardinality(InCache) <= K
\* N4: queued data is never dropped while unresolved (the queue only shrinks by a transmission to a resolved neighbor)
NoLoss == [][\A h \in Hosts : queued'[h] < queued[h] => Found(h)]_vars
=============================================================================
