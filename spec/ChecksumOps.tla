---------------------------- MODULE ChecksumOps ----------------------------
(* RFC 1071 one's-complement sum (big-endian 16-bit words, odd tail padded with zero, end-around carry, no final
   complement) and a transcription of smoltcp's unrolled little-endian routine (wire::checksum::data). *)
EXTENDS Integers, Sequences
Fold16(x) == LET a == (x \div 65536) + (x % 65536) IN ((a \div 65536) + (a % 65536)) % 65536
RECURSIVE SumBE(_, _)
SumBE(b, i) == IF i > Len(b) THEN 0
               ELSE (b[i] * 256 + (IF i + 1 <= Len(b) THEN b[i + 1] ELSE 0)) + SumBE(b, i + 2)
Rfc1071(b) == Fold16(SumBE(b, 1))
\* the routine as written: 4-byte chunks (two native-endian words), a 2-byte tail, an odd byte, carry fold, byte swap
RECURSIVE SumLE4(_, _)
SumLE4(b, i) == IF i + 3 > Len(b) THEN 0 ELSE (b[i] + 256 * b[i + 1]) + (b[i + 2] + 256 * b[i + 3]) + SumLE4(b, i + 4)
Unrolled(b) ==
  LET n4 == (Len(b) \div 4) * 4
      tail2 == IF Len(b) - n4 >= 2 THEN b[n4 + 1] + 256 * b[n4 + 2] ELSE 0
      odd == IF Len(b) % 2 = 1 THEN b[Len(b)] ELSE 0
      c == Fold16(SumLE4(b, 1) + tail2 + odd)
  IN (c % 256) * 256 + (c \div 256)
\* sparse description: length and a sequence of <<position (0-based), value>> for the non-zero bytes
RECURSIVE SumSparseRaw(_, _)
SumSparseRaw(nz, k) == IF k > Len(nz) THEN 0 ELSE (IF nz[k][1] % 2 = 0 THEN nz[k][2] * 256 ELSE nz[k][2]) + SumSparseRaw(nz, k + 1)
SumSparse(nz) == Fold16(SumSparseRaw(nz, 1))
=============================================================================
