----------------------------- MODULE IngressOps -----------------------------
(* Row-level judgements of the ingress decision table (C11 / C10 / C08), shared by Ingress (enumeration) and
   IngressTrace (monitor). *)
EXTENDS Integers
\* ---- what the statement says about a row
LinkAddressed(r) == r.m = "ip" \/ r.ld \in {"own", "bcast", "mcast"}
UnicastDst(r) == r.d \in {"own", "own-ll", "own2"}      \* own2: a second address of the interface (sockets bound to the first must not see it)
GroupOrBcastDst(r) == r.d \in {"net-bcast", "lim-bcast", "mc-all", "all-nodes", "sol-node"}
IpAddressed(r) == UnicastDst(r) \/ GroupOrBcastDst(r)
Addressed(r) == LinkAddressed(r) /\ IpAddressed(r)
\* loopback and the interface's own address are unicast addresses (martian sources, but not "non-unicast")
UnicastSrc(r) == r.s \in {"uni-on", "uni-off", "uni", "ll", "loop", "own"}
IsTcp(r) == r.p \in {"syn-open", "syn-bound", "syn-closed", "ack-closed", "rst-closed"}
IsError(r) == r.p \in {"icmp-err", "rst-closed", "hbh-err"}
Broken(r) == r.c \in {"ip-hdr", "ip-opt", "l4"} \/ (r.c = "udp0" /\ r.v = 6)
\* may the stack answer with a TCP reset or an ICMP error?
MayErrorReply(r) == Addressed(r) /\ UnicastDst(r) /\ UnicastSrc(r) /\ ~IsError(r) /\ ~Broken(r) /\ (r.m = "ip" \/ r.ld = "own" \/ TRUE)
\* may any socket be handed the packet / change state?
MayDeliver(r) == Addressed(r) /\ ~Broken(r)
\* "-bound": the port of a socket bound to the interface's first address only
MayChangeTcp(r) == Addressed(r) /\ UnicastDst(r) /\ ~Broken(r) /\ (r.p = "syn-open" \/ (r.p = "syn-bound" /\ r.d # "own2"))
MayDeliverUdp(r) == MayDeliver(r) /\ (r.p = "udp-open" \/ (r.p = "udp-bound" /\ r.d # "own2"))
\* queries and solicitations: a reply is a group report / neighbour advertisement, which a corrupted one must not draw
IsQuery(r) == r.p \in {"ns", "mld-query", "igmp-query"}
\* may anything at all be emitted in response?
MayReplyAtAll(r) == Addressed(r) /\ ~Broken(r)

=============================================================================
