----------------------------- MODULE IngressOps -----------------------------
(* Row-level judgements of the ingress decision table (C11 / C10 / C08), shared by Ingress (enumeration) and
   IngressTrace (monitor). *)
EXTENDS Integers
\* ---- what the statement says about a row
LinkAddressed(r) == r.m = "ip" \/ r.ld \in {"own", "bcast", "mcast"}
UnicastDst(r) == r.d \in {"own", "own-ll"}
GroupOrBcastDst(r) == r.d \in {"net-bcast", "lim-bcast", "mc-all", "all-nodes", "sol-node"}
IpAddressed(r) == UnicastDst(r) \/ GroupOrBcastDst(r)
Addressed(r) == LinkAddressed(r) /\ IpAddressed(r)
\* loopback and the interface's own address are unicast addresses (martian sources, but not "non-unicast")
UnicastSrc(r) == r.s \in {"uni-on", "uni-off", "uni", "ll", "loop", "own"}
IsTcp(r) == r.p \in {"syn-open", "syn-closed", "ack-closed", "rst-closed"}
IsError(r) == r.p \in {"icmp-err", "rst-closed"}
Broken(r) == r.c \in {"ip-hdr", "l4"} \/ (r.c = "udp0" /\ r.v = 6)
\* may the stack answer with a TCP reset or an ICMP error?
MayErrorReply(r) == Addressed(r) /\ UnicastDst(r) /\ UnicastSrc(r) /\ ~IsError(r) /\ ~Broken(r) /\ (r.m = "ip" \/ r.ld = "own" \/ TRUE)
\* may any socket be handed the packet / change state?
MayDeliver(r) == Addressed(r) /\ ~Broken(r)
MayChangeTcp(r) == Addressed(r) /\ UnicastDst(r) /\ r.p = "syn-open" /\ ~Broken(r)
MayDeliverUdp(r) == MayDeliver(r) /\ r.p = "udp-open"
\* may anything at all be emitted in response?
MayReplyAtAll(r) == Addressed(r) /\ ~Broken(r)

=============================================================================
