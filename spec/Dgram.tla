-------------------------------- MODULE Dgram --------------------------------
(* Reference model of a datagram socket's transmit path (C09): a bounded FIFO of accepted datagrams, an egress step
   shaped like Socket::dispatch + PacketBuffer::dequeue_with -- the head is dequeued only if the emit callback
   succeeded -- and the outcomes of one dispatch attempt: emitted, neighbor pending, device exhausted.
   Receive path: a bounded FIFO; a datagram that does not fit is dropped whole; a short user buffer yields an error.
   DevDequeueFirst = TRUE (negative control): the head is dequeued before the emit result is known. *)
EXTENDS Integers, Sequences, FiniteSets, TLC
CONSTANTS Sockets, NDgrams, Cap, RxCap, DevDequeueFirst
VARIABLES txq, nextId, wire, resolved, rxq, delivered, dropped
vars == <<txq, nextId, wire, resolved, rxq, delivered, dropped>>
Init == /\ txq = [s \in Sockets |-> <<>>] /\ nextId = 1 /\ wire = <<>> /\ resolved = FALSE
        /\ rxq = <<>> /\ delivered = <<>> /\ dropped = {}
Send(s) == /\ nextId <= NDgrams /\ Len(txq[s]) < Cap
           /\ txq' = [txq EXCEPT ![s] = Append(@, nextId)] /\ nextId' = nextId + 1
           /\ UNCHANGED <<wire, resolved, rxq, delivered, dropped>>
\* one dispatch attempt of socket s: outcome chosen by the environment (neighbor cache, device)
Egress(s, outcome) ==
  /\ txq[s] # <<>>
  /\ outcome \in (IF resolved THEN {"emit", "exhausted"} ELSE {"pending", "exhausted"})
  /\ IF outcome = "emit" THEN /\ wire' = Append(wire, [s |-> s, id |-> Head(txq[s])]) /\ txq' = [txq EXCEPT ![s] = Tail(@)]
     ELSE /\ wire' = wire /\ txq' = IF DevDequeueFirst THEN [txq EXCEPT ![s] = Tail(@)] ELSE txq
  /\ UNCHANGED <<nextId, resolved, rxq, delivered, dropped>>
Resolve == /\ ~resolved /\ resolved' = TRUE /\ UNCHANGED <<txq, nextId, wire, rxq, delivered, dropped>>
\* inbound datagram d (ids 100+) arrives: queued if there is room, else dropped whole
Arrive(d) == /\ d \notin dropped /\ (\A i \in 1..Len(rxq) : rxq[i] # d) /\ (\A j \in 1..Len(delivered) : delivered[j] # d)
             /\ IF Len(rxq) < RxCap THEN rxq' = Append(rxq, d) /\ dropped' = dropped ELSE rxq' = rxq /\ dropped' = dropped \cup {d}
             /\ UNCHANGED <<txq, nextId, wire, resolved, delivered>>
Recv == /\ rxq # <<>> /\ delivered' = Append(delivered, Head(rxq)) /\ rxq' = Tail(rxq)
        /\ UNCHANGED <<txq, nextId, wire, resolved, dropped>>
Next == \/ \E s \in Sockets : Send(s) \/ \E o \in {"emit", "pending", "exhausted"} : Egress(s, o)
        \/ Resolve \/ \E d \in 101..102 : Arrive(d) \/ Recv
Spec == Init /\ [][Next]_vars
WireOf(s) == LET I == {i \in 1..Len(wire) : wire[i].s = s} IN [k \in 1..Cardinality(I) |-> wire[CHOOSE i \in I : Cardinality({j \in I : j <= i}) = k].id]
\* D1/D2: per socket the wire carries the accepted datagrams in accept order, each at most once
RECURSIVE Increasing(_)
Increasing(q) == Len(q) <= 1 \/ (q[1] < q[2] /\ Increasing(Tail(q)))
WireOrder == \A s \in Sockets : Increasing(WireOf(s))
\* D3: nothing accepted is lost: every accepted datagram is on the wire or still queued
NoLoss == \A d \in 1..(nextId - 1) : (\E i \in 1..Len(wire) : wire[i].id = d) \/ (\E s \in Sockets : \E i \in 1..Len(txq[s]) : txq[s][i] = d)
\* D5: inbound datagrams are delivered once, in arrival order, or dropped whole
RxOnce == \A i, j \in 1..Len(delivered) : i # j => delivered[i] # delivered[j]
=============================================================================
