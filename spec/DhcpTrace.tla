------------------------------ MODULE DhcpTrace ------------------------------
(* Monitor for the `dhcp` world (C18).
   H1 a configuration is reported only after a DHCPACK that arrived after a REQUEST was sent, carries the transaction
      id of the most recent REQUEST, the client's hardware address, a server identifier, a contiguous mask and a
      unicast address;
   H2 the address is not kept past the lease of the most recent such ACK: the first poll at or after expiry produces
      Deconfigured;
   H3 while configured poll_at does not exceed that expiry;
   H4 renewal (unicast REQUEST) precedes rebinding (broadcast REQUEST) and both precede expiry;
   H5 while unconfigured the client keeps soliciting: poll_at is finite and at most `bound` ahead;
   Q2 (C13) a poll that neither received nor transmitted leaves a later-or-absent deadline.
   The monitor extends the lease on every ACK it considers valid (whether or not the client used it), so it can only be
   more permissive than the client about H2/H3. *)
EXTENDS Integers, Sequences, TLC, Json, IOUtils
Rec == ndJsonDeserialize(IOEnv.TRACE)
VARIABLES l, run, cfg, viol, hits, nruns, cfgd, leaseEnd, reqXid, reqSent, goodAck, lastSol, rebound, renewTried, strictLease, lastArp
vars == <<l, run, cfg, viol, hits, nruns, cfgd, leaseEnd, reqXid, reqSent, goodAck, lastSol, rebound, renewTried, strictLease, lastArp>>
Rules == {"H1", "H2", "H3", "H4", "H5", "Q1", "Q2", "PANIC"}
\* the cap is per rule (x[2]): a flood of one rule (say Q2, which another check owns) must not crowd out the others
Add(v, x) == IF Len(SelectSeq(v, LAMBDA e : e[2] = x[2])) >= 6 THEN v ELSE Append(v, x)
RECURSIVE AddAll(_, _)
AddAll(v, xs) == IF xs = <<>> THEN v ELSE AddAll(Add(v, Head(xs)), Tail(xs))
Flush == viol = <<>> \/ PrintT(<<"RUNVIOL", ToJson([run |-> run, viol |-> viol])>>)
Min(a, b) == IF a < b THEN a ELSE b
Init == /\ l = 1 /\ run = -1 /\ cfg = [x |-> 0] /\ viol = <<>> /\ hits = [r \in Rules |-> 0] /\ nruns = 0
        /\ cfgd = FALSE /\ leaseEnd = -1 /\ reqXid = <<-1, -1>> /\ reqSent = FALSE /\ goodAck = FALSE /\ lastSol = 0 /\ rebound = FALSE
        /\ renewTried = FALSE /\ strictLease = FALSE /\ lastArp = -1
IsDhcp(m) == m.k = "dhcp"
ArpOut(out) == \E i \in 1..Len(out) : out[i].k = "arp"
LeaseMs(m) == LET s == IF m.lease = -1 THEN 120 ELSE m.lease
                  c == IF cfg.max_lease = -1 THEN s ELSE Min(s, cfg.max_lease)
              IN Min(c, 1000000) * 1000
ValidAck(m, xid, sent) == IsDhcp(m) /\ m.type = 5 /\ sent /\ <<m.xid, m.xidhi>> = xid /\ m.ch_ok /\ m.sid /\ m.mask_ok /\ m.yi_uni /\ m.cs /\ m.wf
\* the lease parameters of m put T1 strictly before T2: no T1 / T2 options (defaults 1/2 and 7/8 of the lease) or both present
\* and ordered below the lease; anything else is left to the client's own repair rules and not judged
Strict(m) == LET L == LeaseMs(m) \div 1000 IN
             /\ L >= 8 /\ L < 1000000
             /\ \/ m.t1 = -1 /\ m.t2 = -1
                \/ m.t1 >= 0 /\ m.t2 >= 0 /\ m.t1 + 1 < m.t2 /\ m.t2 < L
\* fold over received messages: did a valid ACK arrive, and until when does the newest one grant the address
RECURSIVE RxFold(_, _, _, _)
RxFold(rx, a, xid, sent) ==
  IF rx = <<>> THEN a
  ELSE LET m == Head(rx) IN
       IF IsDhcp(m) /\ ValidAck(m, xid, sent) THEN RxFold(Tail(rx), [good |-> TRUE, until |-> IF LeaseMs(m) >= 1000000000 THEN -1 ELSE a.now + LeaseMs(m), now |-> a.now, strict |-> Strict(m)], xid, sent)
       ELSE RxFold(Tail(rx), a, xid, sent)
\* fold over transmitted messages: newest REQUEST's xid, solicitation seen, renew/rebind order
RECURSIVE TxFold(_, _)
TxFold(out, a) ==
  IF out = <<>> THEN a
  ELSE LET m == Head(out) IN
       IF ~IsDhcp(m) THEN TxFold(Tail(out), a)
       ELSE IF m.type = 3 THEN TxFold(Tail(out), [a EXCEPT !.xid = <<m.xid, m.xidhi>>, !.sent = TRUE, !.sol = TRUE,
                                                              !.renew = @ \/ (m.ci /\ ~m.bcast), !.rebind = @ \/ (m.ci /\ m.bcast),
                                                              !.badorder = @ \/ (m.ci /\ ~m.bcast /\ a.rebind)])
       ELSE IF m.type = 1 THEN TxFold(Tail(out), [a EXCEPT !.sol = TRUE, !.sent = FALSE])
       ELSE TxFold(Tail(out), a)
Step ==
  /\ l <= Len(Rec) /\ l' = l + 1
  /\ LET r == Rec[l] IN
     CASE r.ev = "reset" ->
            /\ Flush
            /\ run' = r.run /\ cfg' = r.cfg /\ viol' = <<>> /\ nruns' = nruns + 1 /\ hits' = hits
            /\ cfgd' = FALSE /\ leaseEnd' = -1 /\ reqXid' = <<-1, -1>> /\ reqSent' = FALSE /\ goodAck' = FALSE /\ lastSol' = 0 /\ rebound' = FALSE
            /\ renewTried' = FALSE /\ strictLease' = FALSE /\ lastArp' = -1
       [] r.ev = "poll" ->
            LET rxa == RxFold(r.rx, [good |-> FALSE, until |-> leaseEnd, now |-> r.now, strict |-> strictLease], reqXid, reqSent)
                txa == TxFold(r.out, [xid |-> reqXid, sent |-> reqSent, sol |-> FALSE, renew |-> FALSE, rebind |-> IF rxa.good THEN FALSE ELSE rebound, badorder |-> FALSE])
                ga == goodAck \/ rxa.good
                cfgd2 == IF r.event = "configured" THEN TRUE ELSE IF r.event = "deconfigured" THEN FALSE ELSE cfgd
                \* "discovery silence" is a reading of a late poll only while the client is really waiting for the discovery of its
                \* server: an ARP request of its own within the last two seconds (one second of silence after a request that may
                \* itself have been held back for one second)
                la2 == IF ArpOut(r.out) THEN r.now ELSE lastArp
                ds == la2 # -1 /\ r.now - la2 <= 2000
                h1 == IF r.event = "configured" /\ ~ga THEN << <<l, "H1", r.now, r.addr>> >> ELSE <<>>
                \* (a poll up to 1 s after expiry that does not act is the discovery-silence finding of H3: while the renewing client
                \* waits for the discovery of its server its dispatch is not run at all)
                h2 == IF cfgd2 /\ rxa.until # -1 /\ r.now >= rxa.until THEN << <<l, "H2", r.now, rxa.until, IF r.now - rxa.until <= 1000 /\ ds THEN "discovery-silence" ELSE "other">> >> ELSE <<>>
                h3 == IF cfgd2 /\ rxa.until # -1 /\ (r.pa = -1 \/ r.pa > rxa.until) THEN << <<l, "H3", r.pa, rxa.until, IF r.pa # -1 /\ r.pa - rxa.until <= 1000 /\ ds THEN "discovery-silence" ELSE "other">> >> ELSE <<>>
                h4 == IF txa.badorder THEN << <<l, "H4", "renew-after-rebind", r.now>> >>
                      \* (frames are emitted after the poll's ingress: an ACK that arrives in this very poll has already extended the lease)
                      ELSE IF cfgd /\ rxa.until # -1 /\ (txa.renew \/ (txa.rebind /\ ~rebound)) /\ r.now >= rxa.until THEN << <<l, "H4", "after-expiry", r.now>> >> ELSE <<>>
                \* H4 (order): within one lease, rebinding is preceded by a renewal attempt (a unicast REQUEST, or the
                \* neighbour discovery for the server that has to come first)
                rebindNow == txa.rebind /\ ~(IF rxa.good THEN FALSE ELSE rebound)
                tried == txa.renew \/ ArpOut(r.out) \/ (IF rxa.good THEN FALSE ELSE renewTried)
                h4b == IF cfgd /\ rebindNow /\ ~tried /\ rxa.strict /\ ~rxa.good THEN << <<l, "H4", "rebind-without-renewal", r.now>> >> ELSE <<>>
                h5 == IF ~cfgd2 /\ (r.pa = -1 \/ r.pa - r.now > cfg.bound) THEN << <<l, "H5", r.now, r.pa>> >> ELSE <<>>
                \* Q1 (C13): a poll strictly before the announced deadline at which nothing arrived does nothing.  (While a renewing
                \* client waits for the discovery of its server the announced deadline is the discovery silence, up to 1 s past the
                \* lease end: the known finding of H3, named here so that it is told apart.)
                early == "probe" \in DOMAIN r /\ r.probe /\ r.rx = <<>> /\ (r.deadline = -1 \/ r.now < r.deadline)
                q1 == IF early /\ (r.out # <<>> \/ r.event # "none")
                      THEN << <<l, "Q1", r.now, r.deadline, r.event,
                                IF cfgd /\ leaseEnd # -1 /\ r.now >= leaseEnd /\ r.deadline # -1 /\ r.deadline - leaseEnd <= 1000 /\ ds THEN "discovery-silence" ELSE "other">> >> ELSE <<>>
                q2 == IF r.rx = <<>> /\ r.out = <<>> /\ r.pa # -1 /\ r.pa <= r.now THEN << <<l, "Q2", r.now, r.pa, IF r.pa = 0 THEN "reset-pass" ELSE "other">> >> ELSE <<>>
            IN /\ viol' = AddAll(viol, h1 \o h2 \o h3 \o h4 \o h4b \o h5 \o q1 \o q2)
               /\ cfgd' = cfgd2
               /\ leaseEnd' = rxa.until
               /\ reqXid' = txa.xid /\ reqSent' = txa.sent
               \* a new configuration needs a new good ACK; a renewal ACK keeps the flag
               /\ goodAck' = IF r.event = "deconfigured" THEN FALSE ELSE ga
               /\ rebound' = IF rxa.good \/ r.event # "none" THEN FALSE ELSE txa.rebind
               /\ lastSol' = IF txa.sol THEN r.now ELSE lastSol
               /\ renewTried' = IF r.event # "none" THEN FALSE ELSE tried
               /\ strictLease' = rxa.strict
               /\ lastArp' = la2
               /\ hits' = [hits EXCEPT !["H1"] = @ + (IF r.event = "configured" THEN 1 ELSE 0), !["H2"] = @ + (IF cfgd2 THEN 1 ELSE 0),
                                       !["H3"] = @ + (IF cfgd2 THEN 1 ELSE 0), !["H4"] = @ + (IF txa.renew \/ txa.rebind THEN 1 ELSE 0),
                                       !["H5"] = @ + (IF cfgd2 THEN 0 ELSE 1), !["Q2"] = @ + (IF r.rx = <<>> /\ r.out = <<>> THEN 1 ELSE 0), !["Q1"] = @ + (IF early THEN 1 ELSE 0)]
               /\ UNCHANGED <<run, cfg, nruns>>
       [] r.ev = "panic" ->
            /\ viol' = Add(viol, <<l, "PANIC", r.msg>>) /\ hits' = [hits EXCEPT !["PANIC"] = @ + 1]
            /\ UNCHANGED <<run, cfg, nruns, cfgd, leaseEnd, reqXid, reqSent, goodAck, lastSol, rebound, renewTried, strictLease, lastArp>>
       [] OTHER -> UNCHANGED <<run, cfg, viol, hits, nruns, cfgd, leaseEnd, reqXid, reqSent, goodAck, lastSol, rebound, renewTried, strictLease, lastArp>>
Spec == Init /\ [][Step]_vars
Final == l = Len(Rec) + 1 => /\ Flush
                             /\ PrintT(<<"FINAL", ToJson([events |-> Len(Rec), runs |-> nruns, hits |-> hits])>>)
=============================================================================
