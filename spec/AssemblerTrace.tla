--------------------------- MODULE AssemblerTrace ---------------------------
(* Monitor for traces recorded from the real storage::Assembler (property C15).  One event per public call,
   with the call's result and all observers afterwards.  The contract operators of AssemblerOps are the oracle:
   the model is deterministic, so every logged result and observation must equal the model's.  After a
   mismatch the monitor records the rule and resynchronises to the observed state so the rest is still judged. *)
EXTENDS AssemblerOps, TLC, Json, IOUtils
Rec == ndJsonDeserialize(IOEnv.TRACE)
VARIABLES l, run, nmax, present, viol, hits, nruns
vars == <<l, run, nmax, present, viol, hits, nruns>>
Rules == {"A1", "A2", "A3", "A4", "PANIC"}
Init == l = 1 /\ run = -1 /\ nmax = 4 /\ present = {} /\ viol = <<>> /\ hits = [r \in Rules |-> 0] /\ nruns = 0

Add(v, x) == IF Len(v) >= 30 THEN v ELSE Append(v, x)
RECURSIVE AddAll(_, _)
AddAll(v, xs) == IF xs = <<>> THEN v ELSE AddAll(Add(v, Head(xs)), Tail(xs))
Flush == viol = <<>> \/ PrintT(<<"RUNVIOL", ToJson([run |-> run, viol |-> viol])>>)
ObsSet(rs) == UNION {rs[i][1]..(rs[i][2] - 1) : i \in 1..Len(rs)}

Step ==
  /\ l <= Len(Rec) /\ l' = l + 1
  /\ LET r == Rec[l] IN
     CASE r.ev = "reset" ->
            /\ Flush
            /\ run' = r.run /\ nmax' = r.N /\ present' = {} /\ viol' = <<>> /\ nruns' = nruns + 1 /\ hits' = hits
       [] r.ev = "op" ->
            LET m == OpRes(present, r.op, r.o, r.s, nmax)
                obsS == ObsSet(r.runs)
                a1 == IF r.ok = m.ok THEN <<>> ELSE <<<<l, "A1", r.op, r.o, r.s, IF r.ok THEN "accepted" ELSE "refused">>>>
                a2 == IF r.ok # m.ok \/ r.n = m.n THEN <<>> ELSE <<<<l, "A2", r.op, r.o, r.s, r.n, m.n>>>>
                \* A4: a refusal (by the code) must leave every observer as before
                a4 == IF r.ok \/ obsS = present THEN <<>> ELSE <<<<l, "A4", r.op, r.o, r.s>>>>
                \* A3: observers equal the model's post-state (only judged when result agreed)
                a3 == IF r.ok # m.ok \/ ~r.ok THEN <<>>
                      ELSE IF r.runs = Runs(m.S) /\ r.peek = FrontLen(m.S) /\ r.empty = (m.S = {}) THEN <<>>
                      ELSE <<<<l, "A3", r.op, r.o, r.s>>>>
            IN /\ viol' = AddAll(viol, a1 \o a2 \o a3 \o a4)
               /\ present' = obsS
               /\ hits' = [hits EXCEPT !["A1"] = @ + 1, !["A2"] = @ + (IF r.ok /\ m.ok THEN 1 ELSE 0),
                                       !["A3"] = @ + (IF r.ok /\ m.ok THEN 1 ELSE 0), !["A4"] = @ + (IF r.ok THEN 0 ELSE 1)]
               /\ UNCHANGED <<run, nmax, nruns>>
       [] r.ev = "panic" ->
            /\ viol' = Add(viol, <<l, "PANIC", r.op, r.msg>>)
            /\ hits' = [hits EXCEPT !["PANIC"] = @ + 1]
            /\ UNCHANGED <<run, nmax, present, nruns>>
       [] OTHER -> UNCHANGED <<run, nmax, present, viol, hits, nruns>>
Spec == Init /\ [][Step]_vars
Final == l = Len(Rec) + 1 => /\ Flush
                             /\ PrintT(<<"FINAL", ToJson([events |-> Len(Rec), runs |-> nruns, hits |-> hits])>>)
=============================================================================
