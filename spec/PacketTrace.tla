---------------------------- MODULE PacketTrace ----------------------------
(* Monitor for traces recorded from the real storage::PacketBuffer (property C14, packet part);
   oracle = PacketContract!PktStep and PktObsBad. *)
EXTENDS PacketContract, TLC, Json, IOUtils
Rec == ndJsonDeserialize(IOEnv.TRACE)
VARIABLES l, run, mcap, pcap, pq, viol, hits, nruns
vars == <<l, run, mcap, pcap, pq, viol, hits, nruns>>
Rules == {"B1", "B2", "B3", "B4", "B6", "B7", "PANIC"}
Init == l = 1 /\ run = -1 /\ mcap = 0 /\ pcap = 0 /\ pq = <<>> /\ viol = <<>> /\ hits = [r \in Rules |-> 0] /\ nruns = 0
Add(v, x) == IF Len(v) >= 30 THEN v ELSE Append(v, x)
Flush == viol = <<>> \/ PrintT(<<"RUNVIOL", ToJson([run |-> run, viol |-> viol])>>)
RECURSIVE AddRules(_, _, _)
AddRules(v, S, r) == IF S = {} THEN v
                     ELSE LET x == CHOOSE y \in S : TRUE
                          IN AddRules(Add(v, <<l, x, r.op, r.size, r.err, IF pq = <<>> THEN "empty" ELSE "nonempty">>), S \ {x}, r)
Step ==
  /\ l <= Len(Rec) /\ l' = l + 1
  /\ LET r == Rec[l] IN
     CASE r.ev = "reset" ->
            /\ Flush
            /\ run' = r.run /\ mcap' = r.M /\ pcap' = r.P /\ pq' = <<>> /\ viol' = <<>> /\ nruns' = nruns + 1 /\ hits' = hits
       [] r.ev = "op" ->
            LET c == PktStep(pq, mcap, pcap, r)
                b == c.bad \cup PktObsBad(c.pq, mcap, pcap, r)
                enq == r.op \in {"enqueue", "enqueue_inf"}
            IN /\ viol' = AddRules(viol, b, r)
               /\ pq' = c.pq
               /\ hits' = [hits EXCEPT !["B1"] = @ + (IF enq THEN 0 ELSE 1), !["B2"] = @ + 1, !["B3"] = @ + 1,
                                       !["B4"] = @ + (IF r.err # "none" \/ r.decline THEN 1 ELSE 0),
                                       !["B6"] = @ + (IF enq /\ pq = <<>> /\ r.size <= pcap /\ mcap >= 1 THEN 1 ELSE 0),
                                       !["B7"] = @ + (IF r.err = "none" THEN 1 ELSE 0)]
               /\ UNCHANGED <<run, mcap, pcap, nruns>>
       [] r.ev = "panic" ->
            /\ viol' = Add(viol, <<l, "PANIC", r.op, r.size, r.msg, IF pq = <<>> THEN "empty" ELSE "nonempty">>)
            /\ hits' = [hits EXCEPT !["PANIC"] = @ + 1]
            /\ UNCHANGED <<run, mcap, pcap, pq, nruns>>
       [] OTHER -> UNCHANGED <<run, mcap, pcap, pq, viol, hits, nruns>>
Spec == Init /\ [][Step]_vars
Final == l = Len(Rec) + 1 => /\ Flush
                             /\ PrintT(<<"FINAL", ToJson([events |-> Len(Rec), runs |-> nruns, hits |-> hits])>>)
=============================================================================
