---------------------------- MODULE PacketModel ----------------------------
(* Reference model of storage::PacketBuffer: metadata ring (packet and padding records) + payload byte ring
   with the implementation's read_at/length arithmetic, padding insertion and dequeue_padding.
   Deviation switches (both FALSE = the code after the two "fix:" commits of known_findings.json; TRUE = the code as
   it was, kept as a negative control: with either switch on TLC must report NoBad violated):
   DevInfNoClear   -- enqueue_with_infallible does not reset the read position of an empty payload ring;
   DevStalePadding -- a padding record is enqueued although the packet's own metadata slot is not available.
   TLC checks refinement of PacketContract (NoBad), contiguity of every stored payload, absence of the
   "header of a padding record unwrapped" panic, and exports every transition as a schedule step. *)
EXTENDS PacketContract, TLC, Json
CONSTANTS M, P, T, DevInfNoClear, DevStalePadding
VARIABLES mq, ra, len, store, tok, hid, pq, bad, panic, last
vars == <<mq, ra, len, store, tok, hid, pq, bad, panic, last>>
Min(a, b) == IF a < b THEN a ELSE b
Toks(t, n) == [i \in 1..n |-> t + i]
WriteAt(st, start, vals) == [i \in 0..(P - 1) |-> IF i >= start /\ i < start + Len(vals) THEN vals[i - start + 1] ELSE st[i]]
Slice(st, start, n) == [i \in 1..n |-> st[start + i - 1]]
Wat(r, l) == IF P > 0 THEN (r + l) % P ELSE 0
Contig(r, l) == Min(P - l, P - Wat(r, l))

Ev(op, size, hdr, err, k, data, h, decline, w, m2) ==
  [op |-> op, size |-> size, hdr |-> hdr, err |-> err, k |-> k, data |-> data, h |-> h, decline |-> decline, w |-> w,
   empty |-> (m2 = <<>>), full |-> (Len(m2) = M)]
Commit(m2, r2, l2, st2, t2, h2, pn, e) ==
  LET c == PktStep(pq, M, P, e)
  IN /\ mq' = m2 /\ ra' = r2 /\ len' = l2 /\ store' = st2 /\ tok' = t2 /\ hid' = h2 /\ last' = e /\ panic' = (panic \/ pn)
     /\ pq' = c.pq /\ bad' = (c.bad \cup PktObsBad(c.pq, M, P, e))

\* common front part of enqueue / enqueue_with_infallible: returns [ok, mq, ra, len] after optional padding
Admit(size, clear) ==
  IF P < size \/ Len(mq) = M THEN [ok |-> FALSE, mq |-> mq, ra |-> ra, len |-> len]
  ELSE LET r1 == IF clear /\ len = 0 THEN 0 ELSE ra
           window == P - len
           cw == Contig(r1, len)
       IN IF window < size THEN [ok |-> FALSE, mq |-> mq, ra |-> r1, len |-> len]
          ELSE IF cw < size THEN
             (IF window - cw < size THEN [ok |-> FALSE, mq |-> mq, ra |-> r1, len |-> len]
              ELSE IF ~DevStalePadding /\ M - Len(mq) < 2 THEN [ok |-> FALSE, mq |-> mq, ra |-> r1, len |-> len]
              ELSE LET m1 == Append(mq, [pad |-> TRUE, size |-> cw, h |-> 0])
                       l1 == len + cw        \* enqueue_many(contig_window) on a non-empty ring
                   IN IF Len(m1) = M THEN [ok |-> FALSE, mq |-> m1, ra |-> r1, len |-> l1]   \* enqueue_one()? fails, padding stays
                      ELSE [ok |-> TRUE, mq |-> m1, ra |-> r1, len |-> l1])
          ELSE [ok |-> TRUE, mq |-> mq, ra |-> r1, len |-> len]

Enqueue(size) ==
  /\ tok + size <= T /\ hid < T
  /\ LET a == Admit(size, TRUE) IN
     IF ~a.ok THEN Commit(a.mq, a.ra, a.len, store, tok, hid, FALSE, Ev("enqueue", size, hid + 1, "full", 0, <<>>, 0, FALSE, 0, a.mq))
     ELSE LET r1 == IF a.len = 0 THEN 0 ELSE a.ra                 \* enqueue_many_with resets read_at on an empty ring
              k == Min(size, Contig(r1, a.len))                  \* slice actually handed out
              v == Toks(tok, size)
              m2 == Append(a.mq, [pad |-> FALSE, size |-> size, h |-> hid + 1])
          IN Commit(m2, r1, a.len + k, WriteAt(store, Wat(r1, a.len), Take(v, k)), tok + size, hid + 1, k # size,
                    Ev("enqueue", size, hid + 1, "none", k, v, 0, FALSE, size, m2))
EnqueueInf(size, w) ==
  /\ w <= size /\ tok + w <= T /\ hid < T
  /\ LET a == Admit(size, ~DevInfNoClear) IN
     IF ~a.ok THEN Commit(a.mq, a.ra, a.len, store, tok, hid, FALSE, Ev("enqueue_inf", size, hid + 1, "full", 0, <<>>, 0, FALSE, w, a.mq))
     ELSE LET r1 == IF a.len = 0 THEN 0 ELSE a.ra
              offered == Contig(r1, a.len)                       \* data[..max_size] panics if offered < max_size
              v == Toks(tok, w)
              m2 == Append(a.mq, [pad |-> FALSE, size |-> w, h |-> hid + 1])
          IN Commit(m2, r1, a.len + w, WriteAt(store, Wat(r1, a.len), v), tok + w, hid + 1, offered < size,
                    Ev("enqueue_inf", size, hid + 1, "none", size, v, 0, FALSE, w, m2))

\* dequeue_padding: drop one leading padding record together with its payload bytes
DP == IF mq # <<>> /\ Head(mq).pad
      THEN LET sz == Min(Head(mq).size, Min(len, P - ra))
           IN [mq |-> Tail(mq), ra |-> IF P > 0 THEN (ra + sz) % P ELSE 0, len |-> len - sz]
      ELSE [mq |-> mq, ra |-> ra, len |-> len]
Dequeue(op, decline) ==
  LET d == DP IN
  IF d.mq = <<>> THEN Commit(d.mq, d.ra, d.len, store, tok, hid, FALSE, Ev(op, 0, 0, "empty", 0, <<>>, 0, decline, 0, d.mq))
  ELSE LET meta == Head(d.mq)
           k == Min(meta.size, Min(d.len, P - d.ra))
           data == Slice(store, d.ra, k)
           keep == op = "peek" \/ decline
           m2 == IF keep THEN d.mq ELSE Tail(d.mq)
       IN Commit(m2, IF keep THEN d.ra ELSE (IF P > 0 THEN (d.ra + k) % P ELSE 0), IF keep THEN d.len ELSE d.len - k,
                 store, tok, hid, meta.pad \/ k # meta.size,
                 Ev(op, 0, 0, "none", k, data, meta.h, decline, 0, m2))

Init == /\ mq = <<>> /\ ra = 0 /\ len = 0 /\ store = [i \in 0..(P - 1) |-> 0] /\ tok = 0 /\ hid = 0
        /\ pq = <<>> /\ bad = {} /\ panic = FALSE /\ last = [op |-> "init"]
Next == \/ \E s \in 0..(P + 1) : Enqueue(s) \/ \E w \in 0..s : EnqueueInf(s, w)
        \/ Dequeue("dequeue", FALSE) \/ Dequeue("peek", FALSE) \/ \E d \in BOOLEAN : Dequeue("dequeue_with", d)
Spec == Init /\ [][Next]_vars
NoBad == bad = {}
NoPanic == ~panic
Bounded == Len(mq) <= M /\ len <= P
\* the non-padding records are exactly the abstract queue
Refines == LET RECURSIVE NP(_)
               NP(s) == IF s = <<>> THEN <<>> ELSE IF Head(s).pad THEN NP(Tail(s)) ELSE <<Head(s).h>> \o NP(Tail(s))
               RECURSIVE HS(_)
               HS(s) == IF s = <<>> THEN <<>> ELSE <<Head(s).h>> \o HS(Tail(s))
           IN NP(mq) = HS(pq)
View == <<mq, ra, len, store, tok, hid, pq, bad, panic>>
Edge == PrintT(<<"EDGE", ToJson([from |-> <<mq, ra, len, store, tok, hid>>, ev |-> last', to |-> <<mq', ra', len', store', tok', hid'>>])>>)
=============================================================================
