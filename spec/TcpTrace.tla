------------------------------ MODULE TcpTrace ------------------------------
(* Contract monitor for TCP traces recorded from real smoltcp sockets (worlds tcp_pair and tcp_peer).
   One event per public call / per processed frame / per timer poll; sequence and ACK numbers are relative to the
   ISNs seen in the SYNs (SYN = 0, first data byte = 1), application bytes are position-coded.
   Each rule is a direct transcription of a sentence of a listed property:
     P1 P2 P3      (C01)  delivered bytes are a prefix of what the peer wrote; Finished only after everything
     R2 R3 R6      (C04)  delivered/acknowledged only what was acceptable on arrival inside the advertised window
                   (R6, window field x negotiated shift within the buffer, is also judged for C05)
     S1..S6        (C05)  sender inside learned window / MSS+MTU / content / contiguity / FIN placement / SYN window
     T1 T2 T3      (C17)  state-diagram edges with their prescribed causes; TIME-WAIT 10 s; only in-window RST
     L1 L2 L3      (C02)  unacknowledged data/SYN/FIN => finite deadline; quiescence only when done; no livelock
     Q1 Q2         (C13)  early poll transmits nothing; idle poll => later-or-absent deadline
     K2 K3         (C08)  emitted checksums valid; corrupted segment has no effect
   Where the property leaves the socket freedom (it may ignore acceptable bytes, it may have taken its window
   from any delivered segment) the monitor keeps the most permissive knowledge, so it cannot raise an alarm on a
   conforming socket; a rule hit is recorded in `viol` with its discriminating parameters. *)
EXTENDS Integers, Sequences, FiniteSets, TLC, Json, IOUtils
Rec == ndJsonDeserialize(IOEnv.TRACE)

VARIABLES l, run, cfg, viol, hits, nruns, lastFresh, curEdge, maxRxEnd,
          wrT, dl, closedAt, accPre, accInt, finAcc, advEdge, lastEdge, lastAckEm, synWs, maxEdge, zeroRecent, maxSent,
          peerMss, maxAckRcvd, twEntry, twLastRx, rstSeen, scripted, viaListen
conn == <<lastFresh, curEdge, maxRxEnd, wrT, dl, closedAt, accPre, accInt, finAcc, advEdge, lastEdge, lastAckEm, synWs, maxEdge, zeroRecent, maxSent,
          peerMss, maxAckRcvd, twEntry, twLastRx, rstSeen, scripted, viaListen>>
vars == <<l, run, cfg, viol, hits, nruns, conn>>

EPS == {0, 1}
Rules == {"P1", "P2", "P3", "R2", "R3", "R6", "S1", "S2", "S3", "S4", "S5", "S6", "T1", "T2", "T3", "L1", "L2", "L3",
          "Q1", "Q2", "K2", "K3", "PANIC"}
Max(a, b) == IF a > b THEN a ELSE b
Min(a, b) == IF a < b THEN a ELSE b
RECURSIVE Pow2(_)
Pow2(n) == IF n <= 0 THEN 1 ELSE 2 * Pow2(n - 1)
\* the cap is per rule (x[2]): a flood of one rule (say Q2, which another check owns) must not crowd out the others
Add(v, x) == IF Len(SelectSeq(v, LAMBDA e : e[2] = x[2])) >= 6 THEN v ELSE Append(v, x)
RECURSIVE AddAll(_, _)
AddAll(v, xs) == IF xs = <<>> THEN v ELSE AddAll(Add(v, Head(xs)), Tail(xs))
Flush == viol = <<>> \/ PrintT(<<"RUNVIOL", ToJson([run |-> run, viol |-> viol])>>)
Fn(x) == [e \in EPS |-> x]

\* ---- interval sets: sorted sequences of <<lo, hi>> (hi exclusive), disjoint and non-touching
RECURSIVE IntAdd(_, _, _)
IntAdd(s, lo, hi) ==
  IF lo >= hi THEN s
  ELSE IF s = <<>> THEN << <<lo, hi>> >>
  ELSE LET h == Head(s) IN
       IF hi < h[1] THEN << <<lo, hi>> >> \o s
       ELSE IF lo > h[2] THEN <<h>> \o IntAdd(Tail(s), lo, hi)
       ELSE IntAdd(Tail(s), Min(lo, h[1]), Max(hi, h[2]))
\* advance the contiguous prefix `pre` (highest contiguous sequence number) through the interval set
RECURSIVE Adv(_, _)
Adv(pre, s) == IF s # <<>> /\ Head(s)[1] <= pre + 1 THEN Adv(Max(pre, Head(s)[2] - 1), Tail(s)) ELSE [pre |-> pre, s |-> s]

InitConn ==
  /\ lastFresh = Fn(0) /\ curEdge = Fn(0) /\ maxRxEnd = Fn(0)
  /\ wrT = Fn(0) /\ dl = Fn(0) /\ closedAt = Fn(-1) /\ accPre = Fn(0) /\ accInt = Fn(<<>>) /\ finAcc = Fn(-1)
  /\ advEdge = Fn(0) /\ lastEdge = Fn(0) /\ lastAckEm = Fn(0) /\ synWs = Fn(-1) /\ maxEdge = Fn(0) /\ zeroRecent = Fn(0) /\ maxSent = Fn(0)
  /\ peerMss = Fn(-1) /\ maxAckRcvd = Fn(0) /\ twEntry = Fn(-1) /\ twLastRx = Fn(-1) /\ rstSeen = FALSE /\ scripted = Fn(FALSE) /\ viaListen = Fn(FALSE)
Init == l = 1 /\ run = -1 /\ cfg = <<>> /\ viol = <<>> /\ hits = [r \in Rules |-> 0] /\ nruns = 0 /\ InitConn

Shift(e) == IF synWs[0] >= 0 /\ synWs[1] >= 0 THEN Min(synWs[e], 14) ELSE 0
IsTcp(g) == "nontcp" \notin DOMAIN g
SegLen(g) == g.len + (IF g.syn THEN 1 ELSE 0) + (IF g.fin THEN 1 ELSE 0)
DataStates == {"ESTABLISHED", "CLOSE-WAIT", "FIN-WAIT-1", "CLOSING", "LAST-ACK"}
NeedTimer == {"SYN-SENT", "SYN-RECEIVED", "FIN-WAIT-1", "CLOSING", "LAST-ACK"}
RxCap(e) == cfg[e + 1].rx
Mtu(e) == cfg[e + 1].mtu

\* ------------------------------------------------------------------------------------------
\* one emitted segment o of endpoint e, judged against receive-side knowledge (pre, fin) and the sender state
\* carried along the fold (ms = highest sequence sent so far, fs = closedAt of e)
OutViol(e, o, pre, fin, ms, rq, synws, k) ==
  LET isData == o.len > 0
      right == o.seq + o.len
      sh == IF o.syn THEN 0 ELSE (IF synws[0] >= 0 /\ synws[1] >= 0 THEN Min(synws[e], 14) ELSE 0)
      r3 == ~o.ha \/ o.rst \/ o.ack - 1 <= pre \/ (fin # -1 /\ pre >= fin - 1 /\ o.ack - 1 = fin)
      r6 == o.rst \/ o.win * Pow2(sh) <= RxCap(e) - rq
      s1 == ~isData \/ right <= k.me \/ (o.len = 1 /\ k.zr > 0)
      effMss == IF k.mss <= 0 THEN 536 ELSE Max(k.mss, 48)
      s2 == ~isData \/ (o.len <= effMss /\ o.iplen <= Mtu(e))
      s3 == ~isData \/ o.pd = -1 \/ right <= k.mar
      s4 == ~isData \/ o.seq <= Max(Max(ms, k.mar), 1)
      s5 == /\ (o.fin => (closedAt[e] # -1 /\ right = closedAt[e] + 1))
            /\ ((isData /\ closedAt[e] # -1) => (right <= closedAt[e] + 1 \/ (o.len = 1 /\ right <= k.mar)))
      \* (a device with a burst limit has the interface clamp the window field to burst * (MTU - IP and TCP headers))
      s6 == ~o.syn \/ o.rst \/ o.win = Min(Min(RxCap(e) - rq, 65535), IF "burst" \in DOMAIN cfg[e + 1] /\ cfg[e + 1].burst >= 0
                                                                        THEN cfg[e + 1].burst * (Mtu(e) - (o.iplen - o.len)) ELSE 65535)
      k2 == o.cs /\ o.wf
      P(r, ok, x) == IF ok THEN <<>> ELSE << <<l, r, e>> \o x >>
  IN IF o.norel THEN P("K2", k2, <<o.seq>>)      \* stateless reply (RST from a closed port): only well-formedness
     ELSE P("R3", r3, <<o.ack, pre, fin>>) \o P("R6", r6, <<o.win, sh, rq>>) \o P("S1", s1, <<o.seq, o.len, k.me>>)
          \o P("S2", s2, <<o.len, effMss, o.iplen>>) \o P("S3", s3, <<o.seq, o.pd>>) \o P("S4", s4, <<o.seq, ms>>)
          \o P("S5", s5, <<right, closedAt[e]>>) \o P("S6", s6, <<o.win, rq>>) \o P("K2", k2, <<o.seq>>)
RECURSIVE OutsViol(_, _, _, _, _, _, _, _)
OutsViol(e, outs, pre, fin, ms, rq, synws, k) ==
  IF outs = <<>> THEN <<>>
  ELSE LET o == Head(outs) IN
       IF ~IsTcp(o) THEN
            \* a TCP segment that leaves the interface as IP fragments carries more than the local MTU allows (S2)
            (IF "proto" \in DOMAIN o /\ o.proto = 6 /\ "mf" \in DOMAIN o /\ (o.mf \/ o.foff > 0)
             THEN << <<l, "S2", e, "ip-fragment", o.iplen, o.foff>> >> ELSE <<>>)
            \o OutsViol(e, Tail(outs), pre, fin, ms, rq, synws, k)
       ELSE LET sw == IF o.syn /\ ~o.rst THEN [synws EXCEPT ![e] = o.ws] ELSE synws
            IN OutViol(e, o, pre, fin, ms, rq, sw, k) \o OutsViol(e, Tail(outs), pre, fin, IF o.norel \/ o.rst THEN ms ELSE Max(ms, o.seq + SegLen(o)), rq, sw, k)
\* folds over the emitted frames: new advertised edge, highest ack emitted, highest sequence sent, own window-scale option
RECURSIVE OutsFold(_, _, _, _)
OutsFold(e, outs, a, sw) ==
  IF outs = <<>> THEN a
  ELSE LET o == Head(outs) IN
       IF ~IsTcp(o) \/ o.norel THEN OutsFold(e, Tail(outs), a, sw)
       ELSE LET ws2 == IF o.syn /\ ~o.rst THEN o.ws ELSE a.ws
                bothWs == ws2 >= 0 /\ sw[1 - e] >= 0
                sh == IF o.syn \/ ~bothWs THEN 0 ELSE Min(ws2, 14)
                edge == IF o.ha /\ ~o.rst THEN Max(a.edge, o.ack + o.win * Pow2(sh)) ELSE a.edge
                \* the edge of the latest window advertisement (the one the socket tests arriving segments against; scaling
                \* can round it below an earlier one)
                le == IF o.ha /\ ~o.rst THEN o.ack + o.win * Pow2(sh) ELSE a.le
                la == IF o.ha /\ ~o.rst THEN Max(a.la, o.ack) ELSE a.la
            \* (a reset takes its sequence number from the segment it answers: it says nothing about what has been sent)
            IN OutsFold(e, Tail(outs), [edge |-> edge, le |-> le, la |-> la, ms |-> IF o.rst THEN a.ms ELSE Max(a.ms, o.seq + SegLen(o)), ws |-> ws2, rst |-> a.rst \/ o.rst], sw)

PostViol(e, p, now) ==
  (IF (p.st \in NeedTimer \/ (p.sq > 0 /\ p.st \in DataStates)) /\ p.pa = -1 THEN << <<l, "L1", e, p.st, IF p.sq > 0 THEN "data" ELSE "ctl">> >> ELSE <<>>)
  \* T2: TIME-WAIT ends by itself -- a socket in TIME-WAIT that asks for no further poll never will
  \o (IF p.st = "TIME-WAIT" /\ p.pa = -1 THEN << <<l, "T2", e, "no-timer", now>> >> ELSE <<>>)

\* ---- state diagram (C17): is the edge b -> a of endpoint e allowed for this cause?
\* ev: "rx" with segment g, "egress", "api" with call c.  finInOrder / ackOfFin computed by the caller.
EdgeOK(e, b, a, kind, g, call, finInOrder, ackOfFin, rstOK, now) ==
  \/ b = a
  \/ kind = "api" /\ \/ call = "listen" /\ b = "CLOSED" /\ a = "LISTEN"
                     \/ call = "connect" /\ b = "CLOSED" /\ a = "SYN-SENT"
                     \/ call = "abort" /\ a = "CLOSED"
                     \/ call = "close" /\ <<b, a>> \in {<<"LISTEN", "CLOSED">>, <<"SYN-SENT", "CLOSED">>, <<"SYN-RECEIVED", "FIN-WAIT-1">>,
                                                        <<"ESTABLISHED", "FIN-WAIT-1">>, <<"CLOSE-WAIT", "LAST-ACK">>}
  \/ kind = "egress" /\ b = "TIME-WAIT" /\ a = "CLOSED"
  \* user timeout: only when configured, and not before the configured silence since the peer last made the
  \* connection advance (the code counts from the last accepted segment, or from the first transmission after idling)
  \/ kind = "egress" /\ a = "CLOSED" /\ b \notin {"CLOSED", "LISTEN"} /\ "tmo" \in DOMAIN cfg[e + 1] /\ cfg[e + 1].tmo >= 0
       /\ now - lastFresh[e] >= cfg[e + 1].tmo
  \/ kind = "rx" /\
     \/ b = "LISTEN" /\ a = "SYN-RECEIVED" /\ g.syn /\ ~g.ha /\ ~g.rst
     \/ b = "SYN-SENT" /\ a = "ESTABLISHED" /\ g.syn /\ g.ha /\ g.ack = 1 /\ ~g.rst
     \/ b = "SYN-SENT" /\ a = "SYN-RECEIVED" /\ g.syn /\ ~g.ha /\ ~g.rst
     \/ b = "SYN-SENT" /\ a = "CLOSED" /\ g.rst /\ g.ha /\ g.ack = 1
     \/ b = "SYN-RECEIVED" /\ a = "ESTABLISHED" /\ g.ha /\ g.ack = 1 /\ ~g.syn /\ ~g.rst
     \/ b = "SYN-RECEIVED" /\ a = "CLOSE-WAIT" /\ g.ha /\ g.ack = 1 /\ finInOrder /\ ~g.rst
     \/ b = "SYN-RECEIVED" /\ a = "CLOSED" /\ g.rst /\ rstOK
     \/ b = "SYN-RECEIVED" /\ a = "LISTEN" /\ g.rst /\ rstOK /\ viaListen[e]
     \/ b = "ESTABLISHED" /\ a = "CLOSE-WAIT" /\ finInOrder
     \/ b = "FIN-WAIT-1" /\ a = "FIN-WAIT-2" /\ ackOfFin
     \/ b = "FIN-WAIT-1" /\ a = "CLOSING" /\ finInOrder
     \/ b = "FIN-WAIT-1" /\ a = "TIME-WAIT" /\ finInOrder /\ ackOfFin
     \/ b = "FIN-WAIT-2" /\ a = "TIME-WAIT" /\ finInOrder
     \/ b = "CLOSING" /\ a = "TIME-WAIT" /\ ackOfFin
     \/ b = "LAST-ACK" /\ a = "CLOSED" /\ ackOfFin
     \/ b \notin {"LISTEN", "SYN-SENT", "SYN-RECEIVED", "CLOSED"} /\ a = "CLOSED" /\ g.rst /\ rstOK

Step ==
  /\ l <= Len(Rec) /\ l' = l + 1
  /\ LET r == Rec[l] IN
     CASE r.ev = "reset" ->
            /\ Flush
            /\ run' = r.run /\ cfg' = r.cfg /\ viol' = <<>> /\ nruns' = nruns + 1 /\ hits' = hits
            /\ lastFresh' = Fn(0) /\ curEdge' = Fn(0) /\ maxRxEnd' = Fn(0)
            /\ wrT' = Fn(0) /\ dl' = Fn(0) /\ closedAt' = Fn(-1) /\ accPre' = Fn(0) /\ accInt' = Fn(<<>>) /\ finAcc' = Fn(-1)
            /\ advEdge' = Fn(0) /\ lastEdge' = Fn(0) /\ lastAckEm' = Fn(0) /\ synWs' = Fn(-1) /\ maxEdge' = Fn(0) /\ zeroRecent' = Fn(0) /\ maxSent' = Fn(0)
            /\ peerMss' = Fn(-1) /\ maxAckRcvd' = Fn(0) /\ twEntry' = Fn(-1) /\ twLastRx' = Fn(-1) /\ rstSeen' = FALSE
            /\ scripted' = [e \in EPS |-> "scripted" \in DOMAIN r.cfg[e + 1]] /\ viaListen' = Fn(FALSE)
       [] r.ev = "api" ->
            LET e == r.ep
                hasPost == "post" \in DOMAIN r
                tv == IF hasPost /\ ~EdgeOK(e, r.before, r.post.st, "api", [x |-> 0], r.call, FALSE, FALSE, FALSE, r.now)
                      THEN << <<l, "T1", e, r.before, r.post.st, r.call>> >> ELSE <<>>
                pv == IF hasPost THEN PostViol(e, r.post, r.now) ELSE <<>>
            IN
            CASE r.call = "send" ->
                   /\ wrT' = [wrT EXCEPT ![e] = @ + (IF r.ret > 0 THEN r.ret ELSE 0)]
                   /\ viol' = AddAll(viol, tv \o pv)
                   /\ hits' = [hits EXCEPT !["L1"] = @ + 1]
                   /\ UNCHANGED <<dl, closedAt, accPre, accInt, finAcc, advEdge, lastEdge, lastAckEm, synWs, maxEdge, zeroRecent, maxSent, peerMss, maxAckRcvd, twEntry, twLastRx, rstSeen, scripted, viaListen, lastFresh, curEdge, maxRxEnd>>
              [] r.call = "close" ->
                   /\ closedAt' = [closedAt EXCEPT ![e] = IF @ = -1 THEN r.at ELSE @]
                   /\ viol' = AddAll(viol, tv \o pv)
                   /\ hits' = [hits EXCEPT !["T1"] = @ + 1]
                   /\ UNCHANGED <<wrT, dl, accPre, accInt, finAcc, advEdge, lastEdge, lastAckEm, synWs, maxEdge, zeroRecent, maxSent, peerMss, maxAckRcvd, twEntry, twLastRx, rstSeen, scripted, viaListen, lastFresh, curEdge, maxRxEnd>>
              [] r.call = "recv" ->
                   LET p == 1 - e
                       n == IF r.ret > 0 THEN r.ret ELSE 0
                       p1 == IF r.diff = -1 THEN <<>> ELSE << <<l, "P1", e, dl[e] + r.diff>> >>
                       p3 == IF scripted[p] \/ dl[e] + n <= wrT[p] THEN <<>> ELSE << <<l, "P3", e, dl[e] + n, wrT[p]>> >>
                       r2 == IF dl[e] + n <= accPre[e] THEN <<>> ELSE << <<l, "R2", e, dl[e] + n, accPre[e]>> >>
                       p2 == IF r.err # "finished" \/ (closedAt[p] # -1 /\ dl[e] = closedAt[p]) THEN <<>>
                             ELSE << <<l, "P2", e, dl[e], closedAt[p]>> >>
                   IN /\ dl' = [dl EXCEPT ![e] = @ + n]
                      /\ viol' = AddAll(viol, p1 \o p3 \o r2 \o p2 \o tv \o pv)
                      /\ hits' = [hits EXCEPT !["P1"] = @ + (IF n > 0 THEN 1 ELSE 0), !["R2"] = @ + (IF n > 0 THEN 1 ELSE 0),
                                              !["P3"] = @ + (IF n > 0 THEN 1 ELSE 0), !["P2"] = @ + (IF r.err = "finished" THEN 1 ELSE 0)]
                      /\ UNCHANGED <<wrT, closedAt, accPre, accInt, finAcc, advEdge, lastEdge, lastAckEm, synWs, maxEdge, zeroRecent, maxSent, peerMss, maxAckRcvd, twEntry, twLastRx, rstSeen, scripted, viaListen, lastFresh, curEdge, maxRxEnd>>
              [] OTHER ->    \* listen, connect, abort
                   /\ viol' = AddAll(viol, tv \o pv)
                   /\ hits' = [hits EXCEPT !["T1"] = @ + 1]
                   /\ rstSeen' = (rstSeen \/ r.call = "abort")
                   /\ UNCHANGED <<wrT, dl, closedAt, accPre, accInt, finAcc, advEdge, lastEdge, lastAckEm, synWs, maxEdge, zeroRecent, maxSent, peerMss, maxAckRcvd, twEntry, twLastRx, scripted, viaListen, lastFresh, curEdge, maxRxEnd>>
       [] r.ev = "rx" ->
            LET e == r.ep
                p == 1 - e
                g == r.seg
                good == IsTcp(g) /\ g.cs /\ ~g.norel
                newConn == good /\ r.before = "LISTEN" /\ r.post.st = "SYN-RECEIVED"
                \* the peer's SYN that the handshake actually used (options are only taken from that one)
                hsSyn == good /\ g.syn /\ ~g.rst /\ r.before \in {"LISTEN", "SYN-SENT"} /\ r.post.st \in {"SYN-RECEIVED", "ESTABLISHED"}
                pre0 == IF newConn THEN 0 ELSE accPre[e]
                int0 == IF newConn THEN <<>> ELSE accInt[e]
                fin0 == IF newConn THEN -1 ELSE finAcc[e]
                \* bytes of g acceptable on arrival: inside what e had advertised, above the contiguous prefix
                lo == Max(Max(g.seq, pre0 + 1), 1)
                hi == Min(g.seq + g.len, advEdge[e])
                takes == good /\ ~g.rst /\ ~g.syn /\ r.before \notin {"LISTEN", "SYN-SENT", "CLOSED"}
                av == IF takes THEN Adv(pre0, IntAdd(int0, lo, hi)) ELSE [pre |-> pre0, s |-> int0]
                pre2 == av.pre
                finPos == g.seq + g.len
                fin2 == IF takes /\ g.fin /\ finPos <= advEdge[e] THEN finPos ELSE fin0
                finInOrder == good /\ g.fin /\ ~g.rst /\ fin2 = finPos /\ pre2 >= finPos - 1 /\ finPos <= advEdge[e]
                \* (the socket's own FIN can only be acknowledged once it has been emitted: highest sequence sent beyond it)
                ackOfFin == good /\ g.ha /\ closedAt[e] # -1 /\ g.ack = closedAt[e] + 2 /\ maxSent[e] >= closedAt[e] + 2
                \* in window: RCV.NXT <= SEG.SEQ < RCV.NXT + RCV.WND, or SEG.SEQ = RCV.NXT when the window is closed (the monitor
                \* knows RCV.NXT only as the acknowledged / accepted frontier, either of which is allowed)
                \* (a reset is judged by its sequence number alone: payload that reaches into the window does not help one
                \*  that starts below every RCV.NXT the socket can have)
                \* (RCV.NXT lies one beyond the peer's FIN once that has been taken in order, also before any ACK says so)
                nxt2 == IF fin2 # -1 /\ pre2 >= fin2 - 1 THEN fin2 + 1 ELSE pre2 + 1
                rstOK == good /\ g.rst /\ g.seq >= lastAckEm[e]
                         /\ (g.seq < Max(advEdge[e], nxt2) \/ g.seq = nxt2 \/ g.seq = pre2 + 1 \/ g.seq = lastAckEm[e])
                \* what e learns as a sender from g
                shp == IF g.syn THEN 0 ELSE Shift(p)
                learn == good /\ g.ha /\ ~g.rst
                sw2 == [synWs EXCEPT ![p] = IF hsSyn THEN g.ws ELSE @]
                f == OutsFold(e, r.out, [edge |-> advEdge[e], le |-> lastEdge[e], la |-> lastAckEm[e], ms |-> IF newConn THEN 0 ELSE maxSent[e], ws |-> synWs[e], rst |-> FALSE], sw2)
                me2 == IF learn THEN Max(maxEdge[e], g.ack + g.win * Pow2(shp)) ELSE maxEdge[e]
                zr2 == IF learn /\ g.win = 0 THEN 8 ELSE IF learn THEN Max(zeroRecent[e] - 1, 0) ELSE zeroRecent[e]
                mss2 == IF hsSyn THEN g.mss ELSE peerMss[e]
                mar2 == IF learn THEN Max(maxAckRcvd[e], g.ack) ELSE maxAckRcvd[e]
                \* The window "learned from the peer" when the peer shrinks it: a segment the socket has certainly accepted
                \* (plain, valid, at or beyond everything delivered so far yet inside the advertised window, acknowledging
                \* something between the highest ACK seen and the highest sequence sent) resets the bound to its own edge;
                \* any other window-bearing segment delivered later may or may not have been taken and can only raise it.
                newE == g.ack + g.win * Pow2(shp)
                \* (in LAST-ACK the code answers an ACK that acknowledges nothing new with a challenge ACK and takes nothing from it)
                certain == learn /\ ~g.syn /\ ~g.fin /\ r.before \in DataStates \cup {"FIN-WAIT-2"} /\ r.before = r.post.st
                           /\ (r.before # "LAST-ACK" \/ g.ack > maxAckRcvd[e])
                           /\ g.seq >= Max(maxRxEnd[e], 1) /\ g.seq < Min(advEdge[e], lastEdge[e]) /\ g.ack >= maxAckRcvd[e] /\ g.ack <= maxSent[e]
                ce2 == IF newConn THEN 0 ELSE IF certain THEN newE ELSE IF learn /\ curEdge[e] > 0 THEN Max(curEdge[e], newE) ELSE curEdge[e]
                meJ == IF ce2 > 0 THEN ce2 ELSE me2
                ov == OutsViol(e, r.out, pre2, fin2, IF newConn THEN 0 ELSE maxSent[e], r.post.rq, sw2, [me |-> meJ, zr |-> zr2, mss |-> mss2, mar |-> mar2])
                \* (the poll that delivers g runs the egress pass too: a timer that was due at that instant may end TIME-WAIT --
                \*  not before its 10 s -- or time the connection out, exactly as in a poll without a frame)
                timerDue == "dl" \in DOMAIN r /\ r.dl # -1 /\ r.dl <= r.now
                byTimer == timerDue /\ EdgeOK(e, r.before, r.post.st, "egress", g, "", FALSE, FALSE, FALSE, r.now)
                           /\ (r.before # "TIME-WAIT" \/ twEntry[e] < 0 \/ r.now >= twEntry[e] + 10000)
                tv == IF ~IsTcp(g) THEN <<>>
                      ELSE IF EdgeOK(e, r.before, r.post.st, "rx", g, "", finInOrder, ackOfFin, rstOK, r.now) THEN <<>>
                      ELSE IF byTimer THEN <<>>
                      ELSE IF g.rst THEN << <<l, "T3", e, r.before, r.post.st, g.seq, lastAckEm[e], advEdge[e]>> >>
                      ELSE << <<l, "T1", e, r.before, r.post.st, IF g.syn THEN "syn" ELSE IF g.fin THEN "fin" ELSE "seg", g.seq, IF g.ha THEN g.ack ELSE -1>> >>
                \* a segment whose checksum does not verify has no effect (frames are only judged when no timer was due)
                k3 == IF IsTcp(g) /\ ~g.cs /\ (r.before # r.post.st \/ (r.out # <<>> /\ (r.dl = -1 \/ r.dl > r.now)))
                      THEN << <<l, "K3", e, r.before, r.post.st>> >> ELSE <<>>
                twIn == r.post.st = "TIME-WAIT" /\ r.before # "TIME-WAIT"
            IN /\ accPre' = [accPre EXCEPT ![e] = pre2]
               /\ accInt' = [accInt EXCEPT ![e] = av.s]
               /\ finAcc' = [finAcc EXCEPT ![e] = fin2]
               /\ advEdge' = [advEdge EXCEPT ![e] = f.edge] /\ lastEdge' = [lastEdge EXCEPT ![e] = f.le]
               /\ lastAckEm' = [lastAckEm EXCEPT ![e] = f.la]
               /\ maxSent' = [maxSent EXCEPT ![e] = f.ms]
               /\ synWs' = [synWs EXCEPT ![e] = f.ws, ![p] = IF hsSyn THEN g.ws ELSE @]
               /\ maxEdge' = [maxEdge EXCEPT ![e] = me2]
               /\ zeroRecent' = [zeroRecent EXCEPT ![e] = zr2]
               /\ peerMss' = [peerMss EXCEPT ![e] = mss2]
               /\ maxAckRcvd' = [maxAckRcvd EXCEPT ![e] = mar2]
               /\ twEntry' = [twEntry EXCEPT ![e] = IF twIn THEN r.now ELSE @]
               /\ twLastRx' = [twLastRx EXCEPT ![e] = IF r.post.st = "TIME-WAIT" THEN r.now ELSE @]
               /\ rstSeen' = (rstSeen \/ f.rst \/ (IsTcp(g) /\ g.rst))
               /\ viol' = AddAll(viol, ov \o tv \o k3 \o PostViol(e, r.post, r.now))
               /\ hits' = [hits EXCEPT !["R3"] = @ + Len(r.out), !["S1"] = @ + Len(r.out), !["T1"] = @ + (IF r.before # r.post.st THEN 1 ELSE 0),
                                       !["L1"] = @ + 1, !["K3"] = @ + (IF IsTcp(g) /\ ~g.cs THEN 1 ELSE 0),
                                       !["T3"] = @ + (IF IsTcp(g) /\ g.rst THEN 1 ELSE 0)]
               \* certain evidence that the socket accepted g: it changed state, or g is a plain valid segment at or beyond everything
               \* delivered so far and inside the advertised window (an ACK number that advances in the same poll is no evidence: it
               \* may belong to data that arrived earlier and whose acknowledgment was delayed)
               /\ lastFresh' = [lastFresh EXCEPT ![e] = IF good /\ (r.before # r.post.st \/ certain) THEN r.now ELSE @]
               /\ curEdge' = [curEdge EXCEPT ![e] = ce2]
               /\ maxRxEnd' = [maxRxEnd EXCEPT ![e] = IF good THEN Max(@, g.seq + SegLen(g)) ELSE @]
               \* (SYN-RECEIVED entered from LISTEN: a listener, which a reset returns to LISTEN; entered from SYN-SENT: not one)
               /\ viaListen' = [viaListen EXCEPT ![e] = IF r.post.st = "SYN-RECEIVED" /\ r.before # "SYN-RECEIVED" THEN r.before = "LISTEN" ELSE @]
               /\ UNCHANGED <<wrT, dl, closedAt, scripted>>
       [] r.ev \in {"egress", "probe"} ->
            LET e == r.ep
                before == IF "before" \in DOMAIN r THEN r.before ELSE r.post.st
                f == OutsFold(e, r.out, [edge |-> advEdge[e], le |-> lastEdge[e], la |-> lastAckEm[e], ms |-> maxSent[e], ws |-> synWs[e], rst |-> FALSE], synWs)
                ov == OutsViol(e, r.out, accPre[e], finAcc[e], maxSent[e], r.post.rq, synWs, [me |-> IF curEdge[e] > 0 THEN curEdge[e] ELSE maxEdge[e], zr |-> zeroRecent[e], mss |-> peerMss[e], mar |-> maxAckRcvd[e]])
                tv == IF EdgeOK(e, before, r.post.st, "egress", [x |-> 0], "", FALSE, FALSE, FALSE, r.now) THEN <<>>
                      ELSE << <<l, "T1", e, before, r.post.st, "egress">> >>
                \* T2: TIME-WAIT ends by itself 10 s after entry (re-armed at most by segments received meanwhile)
                tmoOK == "tmo" \in DOMAIN cfg[e + 1] /\ cfg[e + 1].tmo >= 0 /\ r.now - lastFresh[e] >= cfg[e + 1].tmo
                t2 == IF before = "TIME-WAIT" /\ r.post.st = "CLOSED" /\ twEntry[e] >= 0 /\ r.now < twEntry[e] + 10000 /\ ~tmoOK
                      THEN << <<l, "T2", e, "early", r.now - twEntry[e]>> >>
                      ELSE IF before = "TIME-WAIT" /\ r.post.st = "TIME-WAIT" /\ twLastRx[e] >= 0 /\ r.now >= twLastRx[e] + 10000
                      THEN << <<l, "T2", e, "late", r.now - twLastRx[e]>> >> ELSE <<>>
                q1 == IF r.ev = "probe" /\ r.out # <<>> THEN << <<l, "Q1", e, r.now, r.deadline>> >> ELSE <<>>
                q2 == IF r.out = <<>> /\ before = r.post.st /\ r.post.pa # -1 /\ r.post.pa <= r.now THEN << <<l, "Q2", e, r.now, r.post.pa, r.post.st>> >> ELSE <<>>
            IN /\ advEdge' = [advEdge EXCEPT ![e] = f.edge] /\ lastEdge' = [lastEdge EXCEPT ![e] = f.le]
               /\ lastAckEm' = [lastAckEm EXCEPT ![e] = f.la]
               /\ maxSent' = [maxSent EXCEPT ![e] = f.ms]
               /\ synWs' = [synWs EXCEPT ![e] = f.ws]
               /\ rstSeen' = (rstSeen \/ f.rst)
               /\ viol' = AddAll(viol, ov \o tv \o t2 \o q1 \o q2 \o PostViol(e, r.post, r.now))
               /\ hits' = [hits EXCEPT !["S1"] = @ + Len(r.out), !["L1"] = @ + 1, !["Q1"] = @ + (IF r.ev = "probe" THEN 1 ELSE 0),
                                       !["Q2"] = @ + (IF r.out = <<>> THEN 1 ELSE 0), !["T2"] = @ + (IF before = "TIME-WAIT" THEN 1 ELSE 0)]
               /\ UNCHANGED <<wrT, dl, closedAt, accPre, accInt, finAcc, maxEdge, zeroRecent, peerMss, maxAckRcvd, twEntry, twLastRx, scripted, viaListen, lastFresh, curEdge, maxRxEnd>>
       [] r.ev = "end" ->
            LET done == \A e \in EPS : r.post[e + 1].st = "CLOSED" /\ r.read[e + 1] = r.written[2 - e] /\ r.finished[e + 1]
                l2 == IF r.how = "quiescent" /\ ~rstSeen /\ ~done
                      THEN << <<l, "L2", r.post[1].st, r.post[2].st, r.post[1].sq, r.post[2].sq>> >> ELSE <<>>
                l3 == IF r.how \in {"horizon", "steplimit"} THEN << <<l, "L3", r.how, r.post[1].st, r.post[2].st>> >> ELSE <<>>
            IN /\ viol' = AddAll(viol, l2 \o l3)
               /\ hits' = [hits EXCEPT !["L2"] = @ + 1, !["L3"] = @ + 1]
               /\ UNCHANGED conn
       [] r.ev = "panic" ->
            /\ viol' = Add(viol, <<l, "PANIC", r.ep, r.msg>>)
            /\ hits' = [hits EXCEPT !["PANIC"] = @ + 1]
            /\ UNCHANGED conn
       [] OTHER -> UNCHANGED <<viol, hits, conn, lastFresh, curEdge, maxRxEnd>>
  /\ (Rec[l].ev = "reset" \/ UNCHANGED <<run, cfg, nruns>>)
Spec == Init /\ [][Step]_vars
Final == l = Len(Rec) + 1 => /\ Flush
                             /\ PrintT(<<"FINAL", ToJson([events |-> Len(Rec), runs |-> nruns, hits |-> hits])>>)
=============================================================================
