---------------------------- MODULE MCAssembler ----------------------------
(* Bounded model of the assembler contract over the universe 0..U-1 with at most N ranges.
   TLC explores every reachable tracker state and every operation with every argument; the cfg exports each
   labelled transition (ACTION_CONSTRAINT Edge, history variable hidden by VIEW) as a replayable schedule step. *)
EXTENDS AssemblerOps, TLC, Json
CONSTANTS U, N
VARIABLES present, last
vars == <<present, last>>

Init == present = {} /\ last = [op |-> "init"]

Do(op, o, s) ==
  LET r == OpRes(present, op, o, s, N)
  IN /\ present' = r.S
     /\ last' = [op |-> op, o |-> o, s |-> s, ok |-> r.ok, n |-> r.n]

Next == \/ \E o \in 0..U, s \in 0..U : o + s <= U /\ (Do("add", o, s) \/ Do("add_then_remove_front", o, s))
        \/ Do("remove_front", 0, 0)
        \/ Do("clear", 0, 0)
Spec == Init /\ [][Next]_vars

TypeOK == present \subseteq 0..(U - 1)
Bounded == NumRanges(present) <= N
\* refused => unchanged; offset 0 never refused (action-level, checked on every transition)
RefusedUnchanged == [][(~last'.ok) => present' = present]_vars
ZeroNeverRefused == [][(last'.op = "add_then_remove_front" /\ last'.o = 0) => last'.ok]_vars
\* the only reason for a refusal is the range bound
RefusalJustified == [][(~last'.ok) => NumRanges(present \cup ARange(last'.o, last'.s)) > N]_vars

View == present
Edge == PrintT(<<"EDGE", ToJson([from |-> present, ev |-> last', to |-> present'])>>)
=============================================================================
