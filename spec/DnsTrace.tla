------------------------------ MODULE DnsTrace ------------------------------
(* Monitor for the `dns` world and the name-walk replay (C19).
   Z1 a query completes with addresses only after a response was delivered that came from port 53 of a configured
      server (or from the mDNS port) to the query's own source port, carries its transaction id, is a response to a
      standard query with exactly one question repeating the query's name and type
   Z2 every returned address stems from an A record of that response whose owner is the queried name or lies on a
      CNAME chain starting there
   Z3 every started query has ended by the end of the run and within cfg.bound of its start
   Z4 retransmissions to one server are at least 1 s apart and their spacing does not shrink
   Z5 a query that no matching response was delivered for does not fail before every server has had its 10 s
   ZN parse_name equals the name-walk model (labels or error) and terminates
   Z5 no panic *)
EXTENDS DnsNameOps, FiniteSets, TLC, Json, IOUtils
Rec == ndJsonDeserialize(IOEnv.TRACE)
VARIABLES l, run, cfg, viol, hits, nruns, qs
vars == <<l, run, cfg, viol, hits, nruns, qs>>
Rules == {"Z1", "Z2", "Z3", "Z4", "Z5", "ZN", "Q1", "Q2", "PANIC"}
\* a name resolved by multicast DNS: its last label is "local"
IsLocal(n) == Len(n) >= 6 /\ SubSeq(n, Len(n) - 5, Len(n)) = ".local"
\* the cap is per rule (x[2]): a flood of one rule (say Q2, which another check owns) must not crowd out the others
Add(v, x) == IF Len(SelectSeq(v, LAMBDA e : e[2] = x[2])) >= 6 THEN v ELSE Append(v, x)
RECURSIVE AddAll(_, _)
AddAll(v, xs) == IF xs = <<>> THEN v ELSE AddAll(Add(v, Head(xs)), Tail(xs))
Flush == viol = <<>> \/ PrintT(<<"RUNVIOL", ToJson([run |-> run, viol |-> viol])>>)
Init == l = 1 /\ run = -1 /\ cfg = [servers |-> 1, bound |-> 0] /\ viol = <<>> /\ hits = [r \in Rules |-> 0] /\ nruns = 0 /\ qs = <<>>
ServerIps == {"10.0.0.53", "10.0.0.54", "10.0.0.55", "10.0.0.56"}
IsServer(ip) == (ip = "10.0.0.53" /\ cfg.servers >= 1) \/ (ip = "10.0.0.54" /\ cfg.servers >= 2) \/ (ip = "10.0.0.55" /\ cfg.servers >= 3) \/ (ip = "10.0.0.56" /\ cfg.servers >= 4)
Matches(m, q) == /\ m.k = "resp" /\ m.cs /\ "qname" \in DOMAIN m /\ q.sport # -1
                 /\ ((m.sport = 53 /\ IsServer(m.src)) \/ m.sport = 5353)
                 /\ m.dport = q.sport /\ m.id = q.id /\ m.qr /\ m.opcode = 0 /\ m.qd = 1
                 /\ m.qname = q.name /\ m.qtype = q.qtype
\* names on the CNAME chain from `name` within the records of m (closure), then the addresses owned by them
RECURSIVE Chain(_, _, _)
Chain(names, recs, k) ==
  IF k = 0 THEN names
  ELSE LET more == {recs[i].cname : i \in {j \in 1..Len(recs) : recs[j].ty = 5 /\ recs[j].owner \in names}} IN
       IF more \subseteq names THEN names ELSE Chain(names \cup more, recs, k - 1)
Allowed(m, q) == IF "recs" \notin DOMAIN m THEN {} ELSE
                 LET ch == Chain({q.name}, m.recs, Len(m.recs) + 1) IN {m.recs[i].addr : i \in {j \in 1..Len(m.recs) : m.recs[j].ty = 1 /\ m.recs[j].owner \in ch}}
\* bind outgoing query frames to queries (by name, first unbound); record transmissions
RECURSIVE TxFold(_, _, _)
TxFold(q, outs, now) ==
  IF outs = <<>> THEN q
  ELSE LET o == Head(outs) IN
       IF o.k # "query" THEN TxFold(q, Tail(outs), now)
       ELSE LET known == {i \in 1..Len(q.s) : q.s[i].sport = o.sport}
                cand == {i \in 1..Len(q.s) : q.s[i].sport = -1 /\ q.s[i].name = o.name}
                i == IF known # {} THEN CHOOSE x \in known : TRUE ELSE IF cand # {} THEN CHOOSE x \in cand : \A y \in cand : x <= y ELSE 0
            IN IF i = 0 THEN TxFold(q, Tail(outs), now)
               ELSE LET e == q.s[i]
                        same == e.dst = o.dst
                        gap == now - e.lastTx
                        z4 == IF e.lastTx # -1 /\ same /\ (gap < 1000 \/ gap < e.lastGap) THEN << <<l, "Z4", e.q, gap, e.lastGap>> >> ELSE <<>>
                        e2 == [e EXCEPT !.sport = o.sport, !.id = o.id, !.dst = o.dst, !.lastTx = now, !.lastGap = IF e.lastTx # -1 /\ same THEN gap ELSE 0, !.ntx = @ + 1]
                    IN TxFold([s |-> [q.s EXCEPT ![i] = e2], v |-> q.v \o z4], Tail(outs), now)
\* responses delivered: extend each query's set of addresses it may legitimately report
RECURSIVE RxFold(_, _)
RxFold(s, rx) ==
  IF rx = <<>> THEN s
  ELSE LET m == Head(rx) IN
       RxFold([i \in 1..Len(s) |-> IF m.k = "resp" /\ Matches(m, s[i]) THEN [s[i] EXCEPT !.matched = TRUE, !.allowed = @ \cup Allowed(m, s[i])] ELSE s[i]], Tail(rx))
RECURSIVE ResFold(_, _, _)
ResFold(q, res, now) ==
  IF res = <<>> THEN q
  ELSE LET r == Head(res)
           I == {i \in 1..Len(q.s) : q.s[i].q = r.q}
       IN IF I = {} THEN ResFold(q, Tail(res), now)
          ELSE LET i == CHOOSE x \in I : TRUE
                   e == q.s[i]
                   z1 == IF r.res = "ok" /\ ~e.matched THEN << <<l, "Z1", r.q, e.name>> >> ELSE <<>>
                   z2 == IF r.res = "ok" /\ e.matched /\ \E k \in 1..Len(r.addrs) : r.addrs[k] \notin e.allowed THEN << <<l, "Z2", r.q, r.addrs[1]>> >> ELSE <<>>
                   z3 == IF now - e.start > cfg.bound THEN << <<l, "Z3", r.q, now - e.start>> >> ELSE <<>>
                   \* Z5: a query no matching response was delivered for fails by time-outs only, and every server (for a
                   \* multicast name: the IPv6 and the IPv4 group) gets its 10 s first
                   nsrv == IF IsLocal(e.name) THEN 2 ELSE cfg.servers
                   z5 == IF r.res = "failed" /\ ~e.matched /\ now - e.start < 10000 * nsrv - 5 THEN << <<l, "Z5", r.q, now - e.start, nsrv>> >> ELSE <<>>
               IN ResFold([s |-> [q.s EXCEPT ![i].open = FALSE], v |-> q.v \o z1 \o z2 \o z3 \o z5], Tail(res), now)
Step ==
  /\ l <= Len(Rec) /\ l' = l + 1
  /\ LET r == Rec[l] IN
     CASE r.ev = "reset" -> /\ Flush /\ run' = r.run /\ cfg' = (IF "cfg" \in DOMAIN r THEN r.cfg ELSE cfg) /\ viol' = <<>> /\ nruns' = nruns + 1 /\ hits' = hits /\ qs' = <<>>
       [] r.ev = "api" /\ r.call = "start" ->
            /\ qs' = IF r.ok THEN Append(qs, [q |-> r.q, name |-> r.name, qtype |-> 1, start |-> r.now, open |-> TRUE, sport |-> -1, id |-> -1, dst |-> "", lastTx |-> -1, lastGap |-> 0, ntx |-> 0, matched |-> FALSE, allowed |-> {}]) ELSE qs
            /\ UNCHANGED <<run, cfg, viol, hits, nruns>>
       [] r.ev = "poll" ->
            LET a == RxFold(qs, r.rx)
                b == TxFold([s |-> a, v |-> <<>>], r.out, r.now)
                c == ResFold([s |-> b.s, v |-> b.v], r.results, r.now)
                \* C13: a poll strictly before the announced deadline (or without one) at which nothing arrived transmits
                \* nothing and completes nothing (Q1); an idle poll leaves a later-or-absent deadline (Q2)
                early == "probe" \in DOMAIN r /\ r.rx = <<>> /\ (r.deadline = -1 \/ r.now < r.deadline)
                q1 == IF early /\ (r.out # <<>> \/ r.results # <<>>) THEN << <<l, "Q1", r.now, r.deadline, Len(r.out)>> >> ELSE <<>>
                q2 == IF "probe" \in DOMAIN r /\ r.rx = <<>> /\ r.out = <<>> /\ r.results = <<>> /\ r.pa # -1 /\ r.pa <= r.now THEN << <<l, "Q2", r.now, r.pa>> >> ELSE <<>>
            IN /\ qs' = c.s /\ viol' = AddAll(viol, c.v \o q1 \o q2)
               /\ hits' = [hits EXCEPT !["Z1"] = @ + Len(r.results), !["Z4"] = @ + Len(r.out), !["Q1"] = @ + (IF early THEN 1 ELSE 0),
                                       !["Q2"] = @ + (IF r.rx = <<>> /\ r.out = <<>> THEN 1 ELSE 0)]
               /\ UNCHANGED <<run, cfg, nruns>>
       [] r.ev = "end" ->
            /\ viol' = IF r.open = <<>> THEN viol ELSE Add(viol, <<l, "Z3", "still-pending", Len(r.open)>>)
            /\ hits' = [hits EXCEPT !["Z3"] = @ + 1] /\ UNCHANGED <<run, cfg, nruns, qs>>
       [] r.ev = "name" ->
            LET m == NameResult(r.buf, r.off) IN
            /\ viol' = IF m.ok = r.ok /\ m.labels = r.labels /\ r.steps <= Len(r.buf) + 2 THEN viol ELSE Add(viol, <<l, "ZN", r.buf, r.off, r.ok>>)
            /\ hits' = [hits EXCEPT !["ZN"] = @ + 1] /\ UNCHANGED <<run, cfg, nruns, qs>>
       [] r.ev = "panic" -> /\ viol' = Add(viol, <<l, "PANIC", r.msg>>) /\ hits' = [hits EXCEPT !["PANIC"] = @ + 1] /\ UNCHANGED <<run, cfg, nruns, qs>>
       [] OTHER -> UNCHANGED <<run, cfg, viol, hits, nruns, qs>>
Spec == Init /\ [][Step]_vars
Final == l = Len(Rec) + 1 => /\ Flush
                             /\ PrintT(<<"FINAL", ToJson([events |-> Len(Rec), runs |-> nruns, hits |-> hits])>>)
=============================================================================
