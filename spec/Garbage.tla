-------------------------------- MODULE Garbage --------------------------------
(* Scenario table of C03 (no received frame sequence can panic, hang or wedge the interface).  The obligation is a
   one-state machine: whatever arrives, Interface::poll returns, and the interface stays `alive` (answers a
   well-formed request).  What TLC contributes is the complete table of histories to try: medium x IP version x
   checksum verification x phase of the interface (fresh, or with neighbours learnt, connections open in both
   directions, a DNS query and DHCP running) x stage of a real exchange whose frames are the raw material x mutation.
   The harness expands a row to one injection per offset (per length for truncation) of every frame of the stage,
   on one interface with time advancing, and ends the row with a ping from a host the interface has never seen. *)
EXTENDS Integers, FiniteSets, TLC, Json
Media == {"eth", "ip", "lowpan"}
Vers(m) == IF m = "lowpan" THEN {6} ELSE {4, 6}
Phases == {"fresh", "warm"}
Cks == {"verify", "ignore"}
Stages(m, v) == {"echo-small", "echo-large", "udp-small", "udp-large", "udp-closed", "tcp-passive", "tcp-active", "dns",
                 "tcp-close", "tcp-abort", "reflect"}
                \cup (IF m = "eth" /\ v = 4 THEN {"dhcp"} ELSE {})
                \cup (IF m # "lowpan" THEN {"crafted"} ELSE {})
ByteMuts == {"set00", "setff", "set80", "set7f", "inc", "dec", "flip01", "flip80", "swap", "rand2"}
ShapeMuts == {"trunc", "extend", "zerotail", "fftail", "cut"}
OrderMuts == {"same", "reverse"}
Muts == ByteMuts \cup ShapeMuts \cup OrderMuts
AllRows == UNION { UNION { { [m |-> m, ipv |-> v, ph |-> ph, ck |-> ck, st |-> st, mu |-> mu] :
                             ph \in Phases, ck \in Cks, st \in Stages(m, v), mu \in Muts } : v \in Vers(m) } : m \in Media }
\* rows built from the grammar of a header instead of a recorded frame: every IPHC base encoding (8 192 of them) with a
\* tail of the given kind; FRAG1 / FRAGN pairs over sizes, tags, offsets and lengths; IPv4 fragment pairs
GrammarRows == { [m |-> "lowpan", ipv |-> 6, ph |-> ph, ck |-> ck, st |-> "iphc-grammar", mu |-> t] :
                   ph \in Phases, ck \in Cks, t \in {"rand", "short", "exthdr", "udp-nhc"} }
          \cup { [m |-> "lowpan", ipv |-> 6, ph |-> ph, ck |-> ck, st |-> "frag-grammar", mu |-> t] :
                   ph \in Phases, ck \in Cks, t \in {"pairs", "fragn-first", "junk-head"} }
          \cup { [m |-> m, ipv |-> 4, ph |-> ph, ck |-> ck, st |-> "frag4-grammar", mu |-> t] :
                   m \in {"eth", "ip"}, ph \in Phases, ck \in Cks, t \in {"udp", "icmp"} }
\* option areas: option kind x announced length x room actually there, for every option-carrying header
OptionRows == { [m |-> m, ipv |-> v, ph |-> ph, ck |-> ck, st |-> "opt-grammar", mu |-> t] :
                  m \in {"eth", "ip"}, v \in {4, 6}, ph \in Phases, ck \in Cks, t \in {"tcp"} }
         \cup { [m |-> m, ipv |-> 4, ph |-> ph, ck |-> ck, st |-> "opt-grammar", mu |-> "ipv4"] :
                  m \in {"eth", "ip"}, ph \in Phases, ck \in Cks }
         \cup { [m |-> "eth", ipv |-> 4, ph |-> ph, ck |-> ck, st |-> "opt-grammar", mu |-> "dhcp"] :
                  ph \in Phases, ck \in Cks }
         \cup { [m |-> m, ipv |-> 6, ph |-> ph, ck |-> ck, st |-> "opt-grammar", mu |-> t] :
                  m \in {"eth", "ip"}, ph \in Phases, ck \in Cks, t \in {"ndisc", "hbh"} }
\* DNS responses to a query that is pending: hostile names (pointer loops, pointers out of range, cut messages) in the
\* question, in an answer's owner name, in CNAME data
\* (on Ethernet only the warm phase: a fresh interface would first have to resolve its server's link address)
DnsRows == { r \in [m : {"eth", "ip"}, ipv : {4, 6}, ph : Phases, ck : Cks, st : {"dns-grammar"}, mu : {"question", "owner", "cname"}] :
               r.m = "eth" => r.ph = "warm" }
\* the obligation as a machine: `alive` is never lost, whatever the row
VARIABLES row, done, alive
Init == row = [m |-> "none"] /\ done = FALSE /\ alive = TRUE
Pick == ~done /\ done' = TRUE /\ alive' = alive /\ \E r \in AllRows \cup GrammarRows \cup OptionRows \cup DnsRows : row' = r
Spec == Init /\ [][Pick]_<<row, done, alive>>
Alive == alive
Export == done => PrintT(<<"REPLAY", ToJson(row)>>)
=============================================================================
