------------------------------ MODULE DnsName ------------------------------
(* DNS name decompression (wire::dns::Packet::parse_name) over small byte arrays: labels, terminator, compression
   pointers (two bytes, 0xC0|hi lo), invalid label types.  After a pointer jump to p only the bytes before p may be
   the target of a further pointer, so the readable prefix strictly shrinks and the walk terminates (C19, also the
   algorithmic slice of C07).  TLC enumerates every array of length <= MaxLen over Alphabet and every start offset;
   each case is exported with the model's result and replayed on the real parser. *)
EXTENDS DnsNameOps, TLC, Json
CONSTANTS MaxLen, Alphabet
VARIABLES buf, done
vars == <<buf, done>>
Result(off) == NameResult(buf, off)
Bufs(n) == [1..n -> Alphabet]
Init == buf = <<>> /\ done = FALSE
Pick == /\ ~done /\ \E n \in 0..MaxLen : \E b \in Bufs(n) : buf' = b
        /\ done' = TRUE
Next == Pick
Spec == Init /\ [][Next]_vars
\* termination: the fuel bound is never the reason a walk stops
Terminates == \A off \in 0..Len(buf) : Result(off).why # "no-termination"
Export == done => PrintT(<<"REPLAY", ToJson([buf |-> buf, res |-> [off \in 0..Len(buf) |-> Result(off)]])>>)
=============================================================================
