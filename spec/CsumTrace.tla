------------------------------ MODULE CsumTrace ------------------------------
(* K1: every result of the real checksum routine equals the RFC 1071 sum of its input (dense inputs are logged with
   their bytes, long ones as length + non-zero bytes); combine() of partial sums equals the sum of the concatenation. *)
EXTENDS ChecksumOps, TLC, Json, IOUtils
Rec == ndJsonDeserialize(IOEnv.TRACE)
VARIABLES l, viol, hits
Init == l = 1 /\ viol = <<>> /\ hits = [r \in {"K1"} |-> 0]
Step == /\ l <= Len(Rec) /\ l' = l + 1
        /\ LET r == Rec[l] IN
           IF r.ev = "csum" THEN
              LET exp == IF r.kind = "dense" THEN Rfc1071(r.bytes) ELSE SumSparse(r.nz) IN
              /\ viol' = IF exp = r.res \/ Len(viol) >= 20 THEN viol ELSE Append(viol, <<l, "K1", r.kind, r.len, r.align, r.res, exp>>)
              /\ hits' = [hits EXCEPT !["K1"] = @ + 1]
           ELSE UNCHANGED <<viol, hits>>
Spec == Init /\ [][Step]_<<l, viol, hits>>
Final == l = Len(Rec) + 1 => /\ (viol = <<>> \/ PrintT(<<"RUNVIOL", ToJson([run |-> 0, viol |-> viol])>>))
                             /\ PrintT(<<"FINAL", ToJson([events |-> Len(Rec), runs |-> 1, hits |-> hits])>>)
=============================================================================
