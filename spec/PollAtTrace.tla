----------------------------- MODULE PollAtTrace -----------------------------
(* Monitor for the `pollat` world (C13).  Q1: a poll strictly before the instant poll_at returned (or at any instant
   when it returned none), with no frame queued and no API call in between, transmits nothing -- IGMP/MLD reports are
   exempt, the interface does not schedule them through poll_at.  Q2: after a poll that neither received nor
   transmitted a frame, poll_at is absent or strictly later than that poll's timestamp, and poll_delay agrees. *)
EXTENDS Integers, Sequences, TLC, Json, IOUtils
Rec == ndJsonDeserialize(IOEnv.TRACE)
VARIABLES l, run, viol, hits, nruns
vars == <<l, run, viol, hits, nruns>>
Rules == {"Q1", "Q2", "PANIC"}
\* the cap is per rule (x[2]): a flood of one rule (say Q2, which another check owns) must not crowd out the others
Add(v, x) == IF Len(SelectSeq(v, LAMBDA e : e[2] = x[2])) >= 6 THEN v ELSE Append(v, x)
Flush == viol = <<>> \/ PrintT(<<"RUNVIOL", ToJson([run |-> run, viol |-> viol])>>)
Init == l = 1 /\ run = -1 /\ viol = <<>> /\ hits = [r \in Rules |-> 0] /\ nruns = 0
Pr(o) == IF "proto" \in DOMAIN o THEN o.proto ELSE -1
Exempt(o) == (o.et = "ip6" /\ Pr(o) = 58 /\ o.ty \in {130, 131, 132, 143}) \/ (o.et = "ip4" /\ Pr(o) = 2)
NonExempt(outs) == {i \in 1..Len(outs) : ~Exempt(outs[i])}
Step ==
  /\ l <= Len(Rec) /\ l' = l + 1
  /\ LET r == Rec[l] IN
     CASE r.ev = "reset" -> /\ Flush /\ run' = r.run /\ viol' = <<>> /\ nruns' = nruns + 1 /\ hits' = hits
       [] r.ev = "poll" ->
            LET ne == NonExempt(r.out)
                early == r.kind = "probe" /\ r.nrx = 0 /\ (r.deadline = -1 \/ r.now < r.deadline)
                q1 == IF early /\ ne # {} THEN << <<l, "Q1", r.now, r.deadline, r.out[CHOOSE i \in ne : TRUE].et, Pr(r.out[CHOOSE i \in ne : TRUE])>> >> ELSE <<>>
                idle == r.nrx = 0 /\ r.out = <<>>
                q2 == IF idle /\ ((r.pa # -1 /\ r.pa <= r.now) \/ (r.pd = 0)) THEN << <<l, "Q2", r.now, r.pa, r.pd>> >> ELSE <<>>
                q2b == IF (r.pa = -1) # (r.pd = -1) \/ (r.pa > r.now /\ r.pd # r.pa - r.now) THEN << <<l, "Q2", "poll_delay-disagrees", r.now, r.pa, r.pd>> >> ELSE <<>>
            IN /\ viol' = IF Len(viol) >= 24 THEN viol ELSE viol \o q1 \o q2 \o q2b
               /\ hits' = [hits EXCEPT !["Q1"] = @ + (IF early THEN 1 ELSE 0), !["Q2"] = @ + (IF idle THEN 1 ELSE 0)]
               /\ UNCHANGED <<run, nruns>>
       [] r.ev = "panic" -> /\ viol' = Add(viol, <<l, "PANIC", r.msg>>) /\ hits' = [hits EXCEPT !["PANIC"] = @ + 1] /\ UNCHANGED <<run, nruns>>
       [] OTHER -> UNCHANGED <<run, viol, hits, nruns>>
Spec == Init /\ [][Step]_vars
Final == l = Len(Rec) + 1 => /\ Flush
                             /\ PrintT(<<"FINAL", ToJson([events |-> Len(Rec), runs |-> nruns, hits |-> hits])>>)
=============================================================================
