SPECIFICATION Spec
INVARIANT Final
CHECK_DEADLOCK FALSE
