------------------------------ MODULE GarbageTrace ------------------------------
(* Monitor for the `garbage` world (C03).  G1 no injection made Interface::poll panic; G2 every poll returned (the
   harness watchdog records a poll that did not); G3 after the row's history the interface answered the ping of a
   host it had never seen; G0 (vacuity guard, a tool error not a violation) the row had frames to mutate. *)
EXTENDS Integers, Sequences, FiniteSets, TLC, Json, IOUtils
Rec == ndJsonDeserialize(IOEnv.TRACE)
VARIABLES l, run, viol, hits, nruns
vars == <<l, run, viol, hits, nruns>>
Rules == {"G1", "G2", "G3", "G0", "PANIC"}
Flush == viol = <<>> \/ PrintT(<<"RUNVIOL", ToJson([run |-> run, viol |-> viol])>>)
Init == l = 1 /\ run = -1 /\ viol = <<>> /\ hits = [r \in Rules |-> 0] /\ nruns = 0
Step ==
  /\ l <= Len(Rec) /\ l' = l + 1
  /\ LET r == Rec[l] IN
     CASE r.ev = "reset" -> /\ Flush /\ run' = r.run /\ viol' = <<>> /\ nruns' = nruns + 1 /\ hits' = hits
       [] r.ev = "row" ->
            LET s == r.s
                P(rule, ok, x) == IF ok THEN <<>> ELSE << <<l, rule, s.m, s.ipv, s.ph, s.ck, s.st, s.mu>> \o x >>
                g1 == P("G1", r.npanic = 0, <<r.locs>>)
                g3 == P("G3", r.probe # "silent", <<r.probe>>)
                g0 == P("G0", r.n > 0, <<"vacuous">>)
            IN /\ viol' = IF Len(viol) >= 60 THEN viol ELSE viol \o g1 \o g3 \o g0
               /\ hits' = [hits EXCEPT !["G1"] = @ + r.n, !["G3"] = @ + 1, !["G2"] = @ + r.n, !["G0"] = @ + 1]
               /\ UNCHANGED <<run, nruns>>
       [] r.ev = "hang" ->
            /\ viol' = Append(viol, <<l, "G2", r.s.m, r.s.ipv, r.s.ph, r.s.ck, r.s.st, r.s.mu, r.frame, r.off>>)
            /\ hits' = hits /\ UNCHANGED <<run, nruns>>
       [] r.ev = "panic" -> /\ viol' = Append(viol, <<l, "PANIC", r.msg>>) /\ hits' = [hits EXCEPT !["PANIC"] = @ + 1] /\ UNCHANGED <<run, nruns>>
       [] OTHER -> UNCHANGED <<run, viol, hits, nruns>>
Spec == Init /\ [][Step]_vars
Final == l = Len(Rec) + 1 => /\ Flush
                             /\ PrintT(<<"FINAL", ToJson([events |-> Len(Rec), runs |-> nruns, hits |-> hits])>>)
=============================================================================
