--------------------------- MODULE PacketContract ---------------------------
(* Contract of storage::PacketBuffer (property C14, packet part): a bounded FIFO of (header, payload) pairs.
   pq : sequence of [h |-> header, p |-> payload bytes].  M = metadata capacity, P = payload capacity.
   Rules: B1 FIFO content/order/once (header and payload come back exactly), B2 observers, B3 capacity,
   B4 refused or declined => queue unchanged, B6 an EMPTY buffer accepts, through either enqueue interface,
   any packet up to its payload capacity, B7 payload slice contiguous with its exact size.
   A non-empty buffer may refuse (the statement demands nothing there); such refusals are never judged. *)
EXTENDS Integers, Sequences, FiniteSets

If(c, r) == IF c THEN {} ELSE {r}
Take(s, k) == SubSeq(s, 1, k)
RECURSIVE Total(_)
Total(pq) == IF pq = <<>> THEN 0 ELSE Len(Head(pq).p) + Total(Tail(pq))
Res(pq, bad) == [pq |-> pq, bad |-> bad]

PktStep(pq, M, P, e) ==
  CASE e.op \in {"enqueue", "enqueue_inf"} ->
         IF e.err = "none"
         THEN LET w == IF e.op = "enqueue" THEN e.size ELSE e.w
              IN Res(Append(pq, [h |-> e.hdr, p |-> Take(e.data, w)]),
                     If(e.k = e.size /\ Len(e.data) >= w /\ w <= e.size, "B7")
                     \cup If(Len(pq) + 1 <= M /\ Total(pq) + w <= P, "B3"))
         ELSE Res(pq, If(~(pq = <<>> /\ e.size <= P /\ M >= 1), "B6"))
    [] e.op \in {"dequeue", "dequeue_with", "peek"} ->
         IF pq = <<>> THEN Res(pq, If(e.err = "empty", "B1"))
         ELSE IF e.err # "none" THEN Res(pq, {"B1"})
         ELSE LET hd == Head(pq)
                  keep == e.op = "peek" \/ (e.op = "dequeue_with" /\ e.decline)
              IN Res(IF keep THEN pq ELSE Tail(pq),
                     If(e.h = hd.h /\ e.data = hd.p, "B1") \cup If(e.k = Len(hd.p), "B7"))

PktObsBad(pq, M, P, e) ==
  If(e.empty = (pq = <<>>) /\ (Len(pq) >= M => e.full), "B2") \cup If(Len(pq) <= M /\ Total(pq) <= P, "B3")
=============================================================================
