-------------------------------- MODULE PollAt --------------------------------
(* The wake-up contract of C13 and the composite deadline of Interface::poll_at.
   Timer sources (sockets filtered by their neighbor state, pending fragments, SLAAC) each report "no deadline" (None)
   or an instant; the interface reports their minimum, where None is the top element: it never hides a deadline.
   An event loop sleeps until that instant.  TLC checks, over all assignments of source deadlines and all firings,
   that no source's timer is overslept (Sufficient) and that after an idle poll the reported deadline lies in the
   future or is absent (NonSpinning).  DevOptionMin = TRUE combines the SLAAC source with Option::min (None wins) --
   the code before its fix; DevStaleDeadline = TRUE keeps reporting an exhausted source's last instant: negative controls. *)
EXTENDS Integers, FiniteSets, TLC
CONSTANTS Sources, MaxT, DevOptionMin, DevStaleDeadline
None == -1
VARIABLES now, dl, left, overslept, spun
vars == <<now, dl, left, overslept, spun>>
\* dl[s]: next instant at which source s wants to transmit (None: nothing scheduled); left[s]: how many more firings it has
Min2(a, b) == IF a = None THEN b ELSE IF b = None THEN a ELSE IF a < b THEN a ELSE b
OptMin(a, b) == IF a = None \/ b = None THEN None ELSE IF a < b THEN a ELSE b      \* Rust's Option::min
Reported(s) == IF left[s] = 0 /\ ~DevStaleDeadline THEN None ELSE dl[s]
SockMin == LET S == {Reported(s) : s \in Sources \ {"slaac"}} \ {None} IN IF S = {} THEN None ELSE CHOOSE m \in S : \A x \in S : m <= x
PollAtV == IF DevOptionMin THEN OptMin(SockMin, Reported("slaac")) ELSE Min2(SockMin, Reported("slaac"))
Init == /\ now = 0 /\ dl \in [Sources -> {None} \cup 0..MaxT] /\ left \in [Sources -> 0..2]
        /\ (\A s \in Sources : (dl[s] = None) <=> (left[s] = 0)) /\ overslept = FALSE /\ spun = FALSE
\* the event loop: sleep until the reported deadline (or for ever), then poll; due sources fire and re-arm or run out
Due(s) == left[s] > 0 /\ dl[s] # None /\ dl[s] <= now
Poll(t) ==
  /\ t >= now /\ t <= MaxT
  /\ (PollAtV = None \/ t >= PollAtV)                         \* the loop never wakes before the deadline it was given ...
  /\ (PollAtV # None => t = IF PollAtV > now THEN PollAtV ELSE now)    \* ... and not later either
  /\ now' = t
  /\ LET fired == {s \in Sources : left[s] > 0 /\ dl[s] # None /\ dl[s] <= t} IN
     /\ overslept' = (overslept \/ \E s \in fired : dl[s] < t /\ dl[s] >= now)      \* a timer that should have fired earlier
     /\ left' = [s \in Sources |-> IF s \in fired THEN left[s] - 1 ELSE left[s]]
     /\ dl' = [s \in Sources |-> IF s \in fired THEN (IF left[s] - 1 = 0 /\ ~DevStaleDeadline THEN None ELSE IF left[s] - 1 = 0 THEN dl[s] ELSE t + 2) ELSE dl[s]]
     /\ spun' = (spun \/ (fired = {} /\ PollAtV # None /\ PollAtV <= t /\ t = now))     \* idle poll, yet a deadline in the past
Idle == PollAtV = None /\ UNCHANGED vars
Next == (\E t \in 0..MaxT : Poll(t)) \/ Idle
Spec == Init /\ [][Next]_vars
\* with no deadline reported, no source has anything scheduled (sleeping for ever delays nothing)
Sufficient == ~overslept /\ (PollAtV = None => \A s \in Sources : left[s] = 0 \/ dl[s] = None)
NonSpinning == ~spun
=============================================================================
