------------------------------- MODULE Slaac -------------------------------
(* Stateless address autoconfiguration as smoltcp does it (iface/slaac.rs and its use by Interface::poll / poll_at),
   driven by an event loop that sleeps until poll_at and is woken earlier only by an arriving router advertisement.
   Time is in seconds.  One poll = maintenance (apply what the stored prefixes and routes say to the interface),
   ingress (process one advertisement, if one arrived), egress (send a router solicitation if one is due) -- the
   order of Interface::poll.

   Checked (every state is a state right after a poll):
     RsSchedule   at most three solicitations, at least 4 s apart
     Sufficient   an address / default route the interface holds is backed by an accepted advertisement whose
                  lifetime ends later than now, and poll_at is present and not later than that end (the latest end
                  any accepted advertisement gave: the reading SlaacTrace uses on the implementation)
     NonSpinning  after a poll that neither received nor sent anything poll_at is absent or later than now
     Signalled    work that the next poll's maintenance would do is announced by poll_at <= now
   Dev* switches reproduce the implementation before its two repairs (negative controls):
     DevMaintainOnly    lifetimes are reported in the Maintaining phase only           (before fc71b28)
     DevNoSyncDeadline  a pending synchronisation is not reported                      (before 00576ae)
   Export prints one line per explored final state with the events that led there; the harness replays them on the
   real interface and the check compares what the model predicted (drift; the contract is judged by SlaacTrace). *)
EXTENDS Integers, Sequences, FiniteSets, TLC, Json
CONSTANTS MaxT, Lifetimes, Routers, Prefixes, MaxEvents, DevMaintainOnly, DevNoSyncDeadline
VARIABLES now, phase, nsol, retryAt, pfx, rte, syncReq, addrs, rts, rsTimes, entA, entR, idle, hist, done
vars == <<now, phase, nsol, retryAt, pfx, rte, syncReq, addrs, rts, rsTimes, entA, entR, idle, hist, done>>
None == -1
Interval == 4
Max(a, b) == IF a > b THEN a ELSE b
MinSet(S) == CHOOSE x \in S : \A y \in S : x <= y
MinOpt(a, b) == IF a = None THEN b ELSE IF b = None THEN a ELSE IF a < b THEN a ELSE b

Init == /\ now = 0 /\ phase = "Start" /\ nsol = 3 /\ retryAt = 0
        /\ pfx = [p \in Prefixes |-> None] /\ rte = [r \in Routers |-> None] /\ syncReq = FALSE
        /\ addrs = {} /\ rts = {} /\ rsTimes = <<>> /\ entA = [p \in Prefixes |-> None] /\ entR = [r \in Routers |-> None]
        /\ idle = FALSE /\ hist = <<>> /\ done = FALSE

\* ---- Slaac::sync_required, Slaac::poll_at, Interface::poll_at (no sockets)
SyncRequired(px, rt, sr, t) == sr \/ (\E p \in Prefixes : px[p] # None /\ px[p] <= t) \/ (\E r \in Routers : rt[r] # None /\ rt[r] <= t)
LifeAt(px, rt, t) == LET S == {px[p] : p \in {q \in Prefixes : px[q] # None /\ px[q] > t}} \cup {rt[r] : r \in {q \in Routers : rt[q] # None /\ rt[q] > t}}
                     IN IF S = {} THEN None ELSE MinSet(S)
SolAt(ph, ns, ra) == IF ph \in {"Start", "Discovering"} /\ ns > 0 THEN ra ELSE None
SlaacAt(ph, ns, ra, px, rt, t) == IF DevMaintainOnly THEN (IF ph = "Maintaining" THEN LifeAt(px, rt, t) ELSE SolAt(ph, ns, ra))
                                  ELSE MinOpt(SolAt(ph, ns, ra), LifeAt(px, rt, t))
PollAtOf(ph, ns, ra, px, rt, sr, t) == IF ~DevNoSyncDeadline /\ SyncRequired(px, rt, sr, t) THEN t ELSE SlaacAt(ph, ns, ra, px, rt, t)
PollAt == PollAtOf(phase, nsol, retryAt, pfx, rte, syncReq, now)

\* ---- one poll at time t; adv is a record [r, rl, p, valid] (p = "none": no prefix option; r = "none": nothing arrived)
NoAdv == [r |-> "none", rl |-> 0, p |-> "none", valid |-> 0]
Poll(t, adv) ==
  LET \* maintenance
      sync == SyncRequired(pfx, rte, syncReq, t)
      a1 == IF sync THEN {p \in Prefixes : pfx[p] # None /\ pfx[p] > t} ELSE addrs
      r1 == IF sync THEN {r \in Routers : rte[r] # None /\ rte[r] > t} ELSE rts
      px1 == IF sync THEN [p \in Prefixes |-> IF pfx[p] # None /\ pfx[p] > t THEN pfx[p] ELSE None] ELSE pfx
      rt1 == IF sync THEN [r \in Routers |-> IF rte[r] # None /\ rte[r] > t THEN rte[r] ELSE None] ELSE rte
      sr1 == IF sync THEN FALSE ELSE syncReq
      \* ingress
      has == adv.r # "none"
      hp == has /\ adv.p # "none"
      px2 == IF ~hp THEN px1
             ELSE IF adv.valid > 0 THEN [px1 EXCEPT ![adv.p] = t + adv.valid]
             ELSE IF px1[adv.p] # None THEN [px1 EXCEPT ![adv.p] = 0] ELSE px1
      srp == hp /\ ((adv.valid > 0 /\ px1[adv.p] = None) \/ (adv.valid = 0 /\ px1[adv.p] # None))
      rt2 == IF ~has THEN rt1
             ELSE IF adv.rl > 0 THEN [rt1 EXCEPT ![adv.r] = t + adv.rl]
             ELSE IF rt1[adv.r] # None THEN [rt1 EXCEPT ![adv.r] = 0] ELSE rt1
      srr == has /\ ((adv.rl > 0 /\ rt1[adv.r] = None) \/ (adv.rl = 0 /\ rt1[adv.r] # None))
      ph2 == IF has /\ phase = "Discovering" THEN "Maintaining" ELSE phase
      \* egress
      send == ph2 \in {"Start", "Discovering"} /\ retryAt <= t /\ nsol > 0
  IN /\ now' = t
     /\ addrs' = a1 /\ rts' = r1 /\ pfx' = px2 /\ rte' = rt2 /\ syncReq' = (sr1 \/ srp \/ srr)
     /\ phase' = IF send THEN "Discovering" ELSE ph2
     /\ nsol' = IF send THEN nsol - 1 ELSE nsol
     /\ retryAt' = IF send THEN t + Interval ELSE retryAt
     /\ rsTimes' = IF send THEN Append(rsTimes, t) ELSE rsTimes
     /\ entA' = IF hp /\ adv.valid > 0 THEN [entA EXCEPT ![adv.p] = Max(@, t + adv.valid)] ELSE entA
     /\ entR' = IF has /\ adv.rl > 0 THEN [entR EXCEPT ![adv.r] = Max(@, t + adv.rl)] ELSE entR
     /\ idle' = (~has /\ ~send)
     /\ hist' = Append(hist, [t |-> t, adv |-> adv, rs |-> send, addrs |-> a1, rts |-> r1])

Advs == [r : Routers, rl : Lifetimes, p : Prefixes \cup {"none"}, valid : Lifetimes]
\* the loop sleeps until poll_at
Sleep == /\ ~done /\ PollAt # None /\ PollAt <= MaxT /\ Len(hist) < MaxEvents
         /\ Poll(Max(PollAt, now), NoAdv) /\ UNCHANGED done
\* an advertisement arrives first
Arrive == /\ ~done /\ Len(hist) < MaxEvents
          /\ \E t \in now..MaxT : /\ (PollAt = None \/ t <= Max(PollAt, now))
                                  /\ \E adv \in Advs : (adv.p = "none" => adv.valid = 0) /\ Poll(t, adv)
          /\ UNCHANGED done
Finish == /\ ~done /\ (Len(hist) = MaxEvents \/ PollAt = None \/ PollAt > MaxT) /\ done' = TRUE
          /\ UNCHANGED <<now, phase, nsol, retryAt, pfx, rte, syncReq, addrs, rts, rsTimes, entA, entR, idle, hist>>
Next == Sleep \/ Arrive \/ Finish
Spec == Init /\ [][Next]_vars

RsSchedule == Len(rsTimes) <= 3 /\ \A i \in 1..(Len(rsTimes) - 1) : rsTimes[i + 1] - rsTimes[i] >= Interval
Sufficient == /\ \A p \in addrs : entA[p] > now /\ PollAt # None /\ PollAt <= entA[p]
              /\ \A r \in rts : entR[r] > now /\ PollAt # None /\ PollAt <= entR[r]
NonSpinning == idle => (PollAt = None \/ PollAt > now)
Signalled == SyncRequired(pfx, rte, syncReq, now) => (PollAt # None /\ PollAt <= now)
\* the solicitation timer is announced while it runs
SolSufficient == (phase \in {"Start", "Discovering"} /\ nsol > 0) => (PollAt # None /\ PollAt <= retryAt)

View == <<now, phase, nsol, retryAt, pfx, rte, syncReq, addrs, rts, entA, entR, idle, done, Len(hist)>>
Export == done => PrintT(<<"REPLAY", ToJson([ev |-> hist])>>)
=============================================================================
