------------------------------ MODULE TcpModel ------------------------------
(* Reference model of smoltcp's tcp::Socket, shaped like the implementation: process() (ACK acceptability, window
   test and trimming, state table, timer hand-over, assembler / ring buffer), dispatch() (timer expiry, retransmit and
   fast retransmit, seq_to_transmit, segment sizing, zero-window probe, timer re-arm) and poll_at() mirroring
   dispatch().  One model step of an endpoint is one Interface::poll: an optional ingress segment followed by the
   egress loop until the socket emits nothing (bounded; exceeding the bound = poll does not return = `hang`).
   Sequence space is unbounded integers (the specification of what the 32-bit modular arithmetic implements).

   Simplifications (listed in DESIGN.md): no delayed ACK, no challenge-ACK rate limit, no keep-alive / user timeout,
   window scale 0, no SACK/timestamps, congestion window not limiting (controller None), only endpoint A writes.

   Deviation switches, all FALSE = the code after the "fix:" commits; TRUE = the code as it was (negative controls:
   TLC must find the corresponding violation):
     DevFinTrim        FIN honoured although the segment was trimmed at the right window edge        (FinSafe)
     DevFastRetx       fast retransmit sized without regard to the peer window                        (WindowSafe)
     DevRtoZeroWin     RTO fires with a closed window: timer idle, nothing armed                      (DeadlineInv)
     DevFastIdle       fast retransmit sets the timer idle even when nothing is resent (FIN only)     (DeadlineInv)
     DevZwpStopInflight  leaving zero-window probing goes idle with data in flight                    (DeadlineInv)
     DevZwpKeepEmpty   probe timer survives the transmit buffer becoming empty                        (NoHang) *)
EXTENDS Integers, FiniteSets, Sequences, TLC

CONSTANTS CapA, CapB,      \* rx buffer capacities
          TxCap,           \* tx buffer capacity
          MSS,             \* effective mss
          DataA,           \* bytes A's application will write in total
          AsmN,            \* assembler max ranges
          DropBudget, DupBudget, RtoBudget,
          Nagle,
          DevFinTrim, DevFastRetx, DevRtoZeroWin, DevFastIdle, DevZwpStopInflight, DevZwpKeepEmpty

EP == {"A", "B"}
Peer(e) == IF e = "A" THEN "B" ELSE "A"
Cap(e) == IF e = "A" THEN CapA ELSE CapB
ISS(e) == IF e = "A" THEN 100 ELSE 300
None == -1

VARIABLES ep, net, drops, dups, wr, rd, got, closedAt, rtos, hang, sentBad
vars == <<ep, net, drops, dups, wr, rd, got, closedAt, rtos, hang, sentBad>>

Max(a, b) == IF a > b THEN a ELSE b
Min(a, b) == IF a < b THEN a ELSE b

NoSeg == [src |-> "none"]
Seg(src, seq, ack, ctl, win, len) == [src |-> src, seq |-> seq, ack |-> ack, ctl |-> ctl, win |-> win, len |-> len]
SegLen(g) == g.len + (IF g.ctl \in {"syn", "fin"} THEN 1 ELSE 0)

InitEp(e) ==
  [ st |-> "Closed", tuple |-> FALSE, listen |-> FALSE,
    una |-> 0, nxt |-> 0, txLen |-> 0, wnd |-> 0,
    rseq |-> 0, rxLen |-> 0, asm |-> {}, rxFin |-> FALSE,
    lastAck |-> None, lastWin |-> 0,
    timer |-> "idle", due |-> FALSE,
    lastRxAck |-> None, dupacks |-> 0, pendingFast |-> FALSE ]
SetT(s, k) == [s EXCEPT !.timer = k, !.due = FALSE]

---------------------------------------------------------------------------
(* Assembler over relative offsets 0..Cap-1 (AssemblerOps contract, inlined for speed) *)
Starts(S) == {x \in S : x = 0 \/ (x - 1) \notin S}
NumRanges(S) == Cardinality(Starts(S))
FrontLen(S, c) == IF 0 \in S THEN (CHOOSE n \in 1..c : (\A x \in 0..(n-1) : x \in S) /\ (n \notin S)) ELSE 0
Shift(S, n) == {x - n : x \in {y \in S : y >= n}}

---------------------------------------------------------------------------
(* process(): returns [s, reply, gotNew] *)
Res(s, r, g) == [s |-> s, reply |-> r, gotNew |-> g]
RstReply(e, g) == Seg(e, IF g.ack = None THEN 0 ELSE g.ack,
                      IF g.ctl = "syn" /\ g.ack = None THEN g.seq + SegLen(g) ELSE None, "rst", 0, 0)
AckReply(e, s) == Seg(e, s.nxt, s.rseq + s.rxLen, "none", Cap(e) - s.rxLen, 0)
AckReplyState(e, s) == [s EXCEPT !.lastAck = s.rseq + s.rxLen, !.lastWin = Cap(e) - s.rxLen]

ProcessOn(e, s, g) ==
  LET
      sentSyn == s.st \in {"SynSent", "SynReceived"}
      sentFin == s.st \in {"FinWait1", "LastAck", "Closing"}
      ctlLen == (IF sentSyn THEN 1 ELSE 0) + (IF sentFin THEN 1 ELSE 0)
      ackVerdict ==
        IF s.st = "SynSent" /\ g.ctl = "rst" THEN (IF g.ack = s.una + 1 THEN "ok" ELSE "drop")
        ELSE IF g.ctl = "rst" THEN "ok"
        ELSE IF s.st = "Listen" THEN "ok"
        ELSE IF s.st = "SynSent" /\ g.ctl = "syn" THEN (IF g.ack = None \/ g.ack = s.una + 1 THEN "ok" ELSE "rst")
        ELSE IF s.st = "SynSent" /\ g.ctl = "none" /\ g.ack # None THEN (IF g.ack = s.una + 1 THEN "drop" ELSE "rst")
        ELSE IF s.st = "SynSent" THEN "drop"
        ELSE IF g.ack = None THEN "drop"
        ELSE IF s.st = "SynReceived" THEN (IF g.ack = s.una + 1 THEN "ok" ELSE "rst")
        ELSE LET ackMin == s.una + (IF sentSyn THEN 1 ELSE 0)
                 ackMax == s.una + s.txLen + ctlLen
             IN IF g.ack < ackMin THEN "drop" ELSE IF g.ack > ackMax THEN "challenge" ELSE "ok"
      winStart == s.rseq + s.rxLen
      winEnd == IF s.lastAck = None THEN winStart ELSE s.lastAck + s.lastWin
      segStart == g.seq
      segEnd == g.seq + g.len
      unsync == s.st \in {"Listen", "SynSent"}
      inWin ==
        IF segStart = segEnd /\ segEnd = winStart - 1 THEN FALSE
        ELSE IF segStart = segEnd /\ winStart = winEnd THEN winStart = segStart
        ELSE IF segStart = segEnd THEN (winStart <= segStart /\ segStart < winEnd)
        ELSE IF winStart = winEnd THEN FALSE
        ELSE (winStart <= segStart /\ segStart < winEnd) \/ (winStart < segEnd /\ segEnd <= winEnd)
      ovStart == Max(winStart, segStart)
      ovEnd == Min(winEnd, segEnd)
      payLen == IF unsync THEN 0 ELSE ovEnd - ovStart
      payOff == IF unsync THEN 0 ELSE ovStart - winStart
      txStart == s.una + (IF sentSyn THEN 1 ELSE 0)
      hasAck == g.ctl # "rst" /\ g.ack # None /\ g.ack >= txStart
      ackLen0 == IF hasAck THEN g.ack - txStart ELSE 0
      ackOfFin == hasAck /\ sentFin /\ s.txLen + 1 = ackLen0
      ackLen == IF ackOfFin THEN ackLen0 - 1 ELSE ackLen0
      ackAll == hasAck /\ s.nxt <= g.ack
      ctl == IF g.ctl = "fin" /\ (winStart < segStart \/ (~DevFinTrim /\ ~unsync /\ segEnd > winEnd)) THEN "none" ELSE g.ctl
      sm ==
        IF s.st = "Listen" /\ ctl = "rst" THEN [k |-> "ret", s |-> s]
        ELSE IF s.st = "SynReceived" /\ ctl = "rst" /\ s.listen THEN [k |-> "ret", s |-> [s EXCEPT !.st = "Listen", !.tuple = FALSE]]
        ELSE IF ctl = "rst" THEN [k |-> "ret", s |-> [s EXCEPT !.st = "Closed", !.tuple = FALSE]]
        ELSE IF s.st = "Listen" /\ ctl = "syn" THEN
             [k |-> "go", s |-> SetT([s EXCEPT !.st = "SynReceived", !.tuple = TRUE, !.una = ISS(e), !.nxt = ISS(e), !.rseq = g.seq + 1], "idle")]
        ELSE IF s.st = "SynReceived" /\ ctl = "none" THEN [k |-> "go", s |-> [s EXCEPT !.st = "Established"]]
        ELSE IF s.st = "SynReceived" /\ ctl = "fin" THEN [k |-> "go", s |-> [s EXCEPT !.st = "CloseWait", !.rseq = @ + 1, !.rxFin = TRUE]]
        ELSE IF s.st = "SynSent" /\ ctl = "syn" THEN
             [k |-> "go", s |-> [s EXCEPT !.st = IF g.ack # None THEN "Established" ELSE "SynReceived",
                                        !.rseq = g.seq + 1, !.nxt = s.una + 1, !.lastAck = g.seq]]
        ELSE IF s.st = "Established" /\ ctl = "none" THEN [k |-> "go", s |-> s]
        ELSE IF s.st = "Established" /\ ctl = "fin" THEN [k |-> "go", s |-> [s EXCEPT !.st = "CloseWait", !.rseq = @ + 1, !.rxFin = TRUE]]
        ELSE IF s.st = "FinWait1" /\ ctl = "none" THEN [k |-> "go", s |-> IF ackOfFin THEN [s EXCEPT !.st = "FinWait2"] ELSE s]
        ELSE IF s.st = "FinWait1" /\ ctl = "fin" THEN
             [k |-> "go", s |-> IF ackOfFin THEN SetT([s EXCEPT !.st = "TimeWait", !.rseq = @ + 1, !.rxFin = TRUE], "close")
                                          ELSE [s EXCEPT !.st = "Closing", !.rseq = @ + 1, !.rxFin = TRUE]]
        ELSE IF s.st = "FinWait2" /\ ctl = "none" THEN [k |-> "go", s |-> s]
        ELSE IF s.st = "FinWait2" /\ ctl = "fin" THEN [k |-> "go", s |-> SetT([s EXCEPT !.st = "TimeWait", !.rseq = @ + 1, !.rxFin = TRUE], "close")]
        ELSE IF s.st = "Closing" /\ ctl = "none" THEN [k |-> "go", s |-> IF ackOfFin THEN SetT([s EXCEPT !.st = "TimeWait"], "close") ELSE s]
        ELSE IF s.st = "CloseWait" /\ ctl = "none" THEN [k |-> "go", s |-> s]
        ELSE IF s.st = "LastAck" /\ ctl = "none" THEN
             (IF ackOfFin THEN [k |-> "go", s |-> [s EXCEPT !.st = "Closed", !.tuple = FALSE]]
              ELSE IF ackLen = 0 THEN [k |-> "challenge", s |-> s] ELSE [k |-> "go", s |-> s])
        ELSE [k |-> "ret", s |-> s]
      Cont(s1) ==
        LET isWinUpd == g.win # s1.wnd
            s2 == [s1 EXCEPT !.wnd = g.win, !.txLen = @ - ackLen]
            isDup == g.ack # None /\ s2.lastRxAck = g.ack /\ g.len = 0 /\ g.ack < s2.nxt /\ ~isWinUpd
            s3 == IF g.ack = None THEN s2
                  ELSE LET d == IF isDup THEN Min(s2.dupacks + 1, 4) ELSE 0
                           s3a == IF isDup THEN (IF d = 3 THEN SetT([s2 EXCEPT !.dupacks = d], "fast") ELSE [s2 EXCEPT !.dupacks = d])
                                  ELSE [s2 EXCEPT !.dupacks = 0, !.lastRxAck = g.ack]
                       IN [s3a EXCEPT !.una = g.ack, !.nxt = Max(@, g.ack)]
            s4 == IF s3.timer \in {"rto", "fast"} THEN
                     (IF ackAll THEN SetT(s3, "idle") ELSE IF ackLen > 0 THEN SetT(s3, "rto") ELSE s3)
                  ELSE s3
            s5 == IF s4.wnd = 0 /\ s4.txLen > 0 /\ (s4.timer = "idle" \/ ackLen > 0) THEN SetT(s4, "zwp") ELSE s4
            s6 == IF (s5.wnd # 0 \/ (~DevZwpKeepEmpty /\ s5.txLen = 0)) /\ s5.timer = "zwp"
                  THEN SetT(s5, IF ~DevZwpStopInflight /\ s5.nxt # s5.una THEN "rto" ELSE "idle") ELSE s5
        IN IF payLen = 0 THEN Res(s6, NoSeg, {})
           ELSE
             LET wasEmpty == s6.asm = {}
                 newAsm0 == s6.asm \cup {x \in 0..(Cap(e) - 1) : x >= payOff /\ x < payOff + payLen}
                 fits == NumRanges(newAsm0) <= AsmN \/ payOff = 0
             IN IF ~fits THEN Res(s6, NoSeg, {})
                ELSE LET contig == FrontLen(newAsm0, Cap(e) + 1)
                         s7 == [s6 EXCEPT !.asm = Shift(newAsm0, contig), !.rxLen = @ + contig]
                         written == {winStart + payOff + i : i \in 0..(payLen - 1)}
                         nowEmpty == s7.asm = {}
                     IN IF ~nowEmpty \/ ~wasEmpty
                        THEN Res(AckReplyState(e, s7), AckReply(e, s7), written)
                        ELSE Res(s7, NoSeg, written)
  IN
  IF ackVerdict = "drop" THEN Res(s, NoSeg, {})
  ELSE IF ackVerdict = "rst" THEN Res(s, RstReply(e, g), {})
  ELSE IF ackVerdict = "challenge" THEN Res(AckReplyState(e, s), AckReply(e, s), {})
  ELSE IF ~unsync /\ ~inWin THEN
       (IF g.ctl = "rst" THEN Res(s, NoSeg, {})
        ELSE LET sT == IF s.st = "TimeWait" THEN SetT(s, "close") ELSE s
             IN Res(AckReplyState(e, sT), AckReply(e, sT), {}))
  ELSE IF sm.k = "ret" THEN Res(sm.s, NoSeg, {})
  ELSE IF sm.k = "challenge" THEN Res(AckReplyState(e, sm.s), AckReply(e, sm.s), {})
  ELSE Cont(sm.s)

---------------------------------------------------------------------------
SeqToTransmit(s) ==
  IF s.pendingFast /\ s.txLen > 0 THEN TRUE
  ELSE LET inFlight == s.nxt # s.una IN
    IF s.st \in {"SynSent", "SynReceived"} /\ ~inFlight THEN TRUE
    ELSE LET maxSendSeq == s.una + Min(s.wnd, s.txLen)
             capped == IF maxSendSeq >= s.nxt THEN maxSendSeq - s.nxt ELSE 0
             canFull == capped >= MSS
             wantFin == s.st \in {"FinWait1", "Closing", "LastAck"}
             canSend == IF Nagle /\ inFlight /\ ~canFull /\ ~wantFin THEN FALSE ELSE capped # 0
             canFin == wantFin /\ s.nxt = s.una + s.txLen
         IN canSend \/ canFin
AckToTransmit(s) == s.lastAck # None /\ s.lastAck < s.rseq + s.rxLen
WindowToUpdate(e, s) ==
  /\ s.st \in {"Established", "FinWait1", "FinWait2"}
  /\ s.lastAck # None
  /\ LET newWin == Cap(e) - s.rxLen
         lastAdj == s.lastAck + s.lastWin - (s.rseq + s.rxLen)
     IN newWin > 0 /\ (newWin \div 2) >= lastAdj

(* dispatch() *)
DispatchResOn(e, s0) ==
  LET
      AfterRetx(s, fast) == IF ~DevRtoZeroWin /\ s.wnd = 0 /\ s.txLen > 0 THEN SetT(s, "zwp")
                            ELSE IF fast /\ ~DevFastIdle THEN SetT(s, "rto") ELSE SetT(s, "idle")
      s1 == IF s0.timer = "rto" /\ s0.due THEN AfterRetx([s0 EXCEPT !.nxt = s0.una], FALSE)
            ELSE IF s0.timer = "fast" THEN AfterRetx([s0 EXCEPT !.pendingFast = TRUE], TRUE)
            ELSE s0
      sendSeq == SeqToTransmit(s1)
      sendAck == AckToTransmit(s1)
      sendWin == WindowToUpdate(e, s1)
      sendRst == s1.st = "Closed"
      zwp == s1.timer = "zwp" /\ s1.due
      close == s1.timer = "close" /\ s1.due
      ackNo == s1.rseq + s1.rxLen
      win == Cap(e) - s1.rxLen
  IN
  IF ~s0.tuple THEN [s |-> s0, out |-> NoSeg]
  ELSE IF ~(sendSeq \/ sendAck \/ sendWin \/ sendRst \/ zwp) THEN
       (IF close THEN [s |-> [InitEp(e) EXCEPT !.st = "Closed"], out |-> NoSeg] ELSE [s |-> s1, out |-> NoSeg])
  ELSE IF s1.st = "Listen" THEN [s |-> s1, out |-> NoSeg]
  ELSE IF s1.st = "Closed" THEN
       [s |-> [s1 EXCEPT !.tuple = FALSE], out |-> Seg(e, s1.nxt, ackNo, "rst", win, 0)]
  ELSE IF s1.st \in {"SynSent", "SynReceived"} THEN
       LET g == Seg(e, s1.una, IF s1.st = "SynSent" THEN None ELSE ackNo, "syn", win, 0)
           s2 == [s1 EXCEPT !.nxt = Max(@, s1.una + 1), !.lastAck = g.ack, !.lastWin = win]
           s3 == IF s2.timer \in {"rto", "fast", "close"} THEN s2 ELSE SetT(s2, "rto")
       IN [s |-> s3, out |-> g]
  ELSE IF s1.st \in {"FinWait2", "TimeWait"} THEN
       LET g == Seg(e, s1.nxt, ackNo, "none", win, 0)
       IN [s |-> [s1 EXCEPT !.lastAck = ackNo, !.lastWin = win], out |-> g]      \* an expired probe timer is NOT re-armed here
  ELSE \* Established, FinWait1, Closing, CloseWait, LastAck
       LET fast == s1.pendingFast
           winRight == s1.una + s1.wnd
           winLimit0 == IF winRight >= s1.nxt THEN winRight - s1.nxt ELSE 0
           isZwp == ~fast /\ winLimit0 = 0 /\ zwp
           winLimit == IF isZwp THEN 1 ELSE winLimit0
           offset == IF fast THEN 0 ELSE s1.nxt - s1.una
           size == IF fast THEN (IF DevFastRetx THEN Min(MSS, s1.txLen) ELSE Min(Min(MSS, s1.txLen), s1.wnd)) ELSE Min(winLimit, MSS)
           len == IF offset > s1.txLen THEN 0 ELSE Min(size, s1.txLen - offset)
           seq == IF fast THEN s1.una ELSE s1.nxt
           fin == (offset + len = s1.txLen) /\ s1.st \in {"FinWait1", "LastAck", "Closing"}
           g == Seg(e, seq, ackNo, IF fin THEN "fin" ELSE "none", win, len)
           sA == [s1 EXCEPT !.pendingFast = FALSE]
       IN IF isZwp THEN [s |-> SetT(sA, "zwp"), out |-> g]     \* probe: timer rewound, rest intact
          ELSE LET sB == [sA EXCEPT !.nxt = Max(@, seq + SegLen(g)), !.lastAck = ackNo, !.lastWin = win]
                   sC == IF SegLen(g) > 0 /\ sB.timer \notin {"rto", "fast", "close"} THEN SetT(sB, "rto") ELSE sB
               IN [s |-> sC, out |-> g]

RECURSIVE DispLoop(_, _, _)
DispLoop(e, s, k) ==
  LET r == DispatchResOn(e, s) IN
  IF r.out = NoSeg THEN [s |-> r.s, outs |-> <<>>, hang |-> FALSE]
  ELSE IF k = 0 THEN [s |-> r.s, outs |-> <<r.out>>, hang |-> TRUE]
  ELSE LET rest == DispLoop(e, r.s, k - 1) IN [s |-> rest.s, outs |-> <<r.out>> \o rest.outs, hang |-> rest.hang]

PollAtOn(e, s) ==
  IF ~s.tuple THEN "none"
  ELSE IF s.st = "Closed" THEN "now"
  ELSE IF SeqToTransmit(s) THEN "now"
  ELSE IF WindowToUpdate(e, s) THEN "now"
  ELSE IF AckToTransmit(s) THEN "now"
  ELSE IF s.timer = "fast" THEN "now"
  ELSE IF s.timer \in {"rto", "zwp", "close"} THEN (IF s.due THEN "now" ELSE "time")
  ELSE "none"

SeqOf(s) == {s[i] : i \in 1..Len(s)}
\* C05 on the model: every data segment the endpoint emits stays inside the window it has learned (probe excepted)
BadSeg(s, g) == g.len > 0 /\ g.ctl # "syn" /\ g.seq + g.len > s.una + s.wnd /\ ~(g.len = 1 /\ s.wnd = 0)

\* one Interface::poll of endpoint e: optional ingress frame g (keep = the network duplicates it), then the egress loop
Poll(e, g, keep) ==
  LET s0 == ep[e]
      hasIn == g # NoSeg
      acc == hasIn /\ s0.st # "Closed" /\ ~(s0.st = "Listen" /\ (g.ack # None \/ g.ctl = "rst"))
      pr == IF acc THEN ProcessOn(e, s0, g) ELSE Res(s0, IF hasIn /\ g.ctl # "rst" THEN RstReply(e, g) ELSE NoSeg, {})
      dl == DispLoop(e, pr.s, 6)
      outs == SeqOf(dl.outs) \cup (IF pr.reply = NoSeg THEN {} ELSE {pr.reply})
  IN
  /\ hasIn => (g \in net /\ g.src = Peer(e))
  /\ ~hasIn => PollAtOn(e, s0) = "now"
  /\ IF keep THEN hasIn /\ dups < DupBudget /\ dups' = dups + 1 ELSE dups' = dups
  /\ ep' = [ep EXCEPT ![e] = dl.s]
  /\ net' = ((IF hasIn /\ ~keep THEN net \ {g} ELSE net) \cup outs)
  /\ got' = [got EXCEPT ![e] = @ \cup pr.gotNew]
  /\ hang' = (hang \/ dl.hang)
  /\ sentBad' = (sentBad \/ \E o \in SeqOf(dl.outs) : BadSeg(pr.s, o))
  /\ UNCHANGED <<drops, wr, rd, closedAt, rtos>>

\* the armed timer of e reaches its deadline (spurious expiries, with frames still in flight, are budgeted)
TimerDue(e) ==
  LET s == ep[e] IN
  /\ s.tuple /\ s.timer \in {"rto", "zwp", "close"} /\ ~s.due
  /\ (net = {} \/ rtos < RtoBudget)
  /\ rtos' = IF net = {} THEN rtos ELSE rtos + 1
  /\ ep' = [ep EXCEPT ![e] = [s EXCEPT !.due = TRUE]]
  /\ UNCHANGED <<net, drops, dups, wr, rd, got, closedAt, hang, sentBad>>

Drop(g) ==
  /\ g \in net /\ drops < DropBudget
  /\ net' = net \ {g} /\ drops' = drops + 1
  /\ UNCHANGED <<ep, dups, wr, rd, got, closedAt, rtos, hang, sentBad>>

ApiSend(e, n) ==
  LET s == ep[e] IN
  /\ e = "A" /\ s.st \in {"Established", "CloseWait"}
  /\ wr[e] + n <= DataA /\ s.txLen + n <= TxCap
  /\ ep' = [ep EXCEPT ![e] = IF s.wnd = 0 /\ s.timer = "idle" THEN [SetT(s, "zwp") EXCEPT !.txLen = @ + n, !.due = TRUE]
                                  ELSE [s EXCEPT !.txLen = @ + n]]
  /\ wr' = [wr EXCEPT ![e] = @ + n]
  /\ UNCHANGED <<net, drops, dups, rd, got, closedAt, rtos, hang, sentBad>>

ApiRecv(e, n) ==
  LET s == ep[e] IN
  /\ n <= s.rxLen /\ s.st \notin {"Listen", "SynSent", "SynReceived"}
  /\ ep' = [ep EXCEPT ![e] = [s EXCEPT !.rseq = @ + n, !.rxLen = @ - n]]
  /\ rd' = [rd EXCEPT ![e] = @ + n]
  /\ UNCHANGED <<net, drops, dups, wr, got, closedAt, rtos, hang, sentBad>>

Finished(e) == ep[e].rxFin /\ ep[e].rxLen = 0 /\ ep[e].st \notin {"Established", "FinWait1", "FinWait2"}

ApiClose(e) ==
  LET s == ep[e] IN
  /\ closedAt[e] = None
  /\ IF e = "A" THEN wr[e] = DataA /\ s.st \in {"Established", "CloseWait"} ELSE Finished(e) /\ s.st = "CloseWait"
  /\ ep' = [ep EXCEPT ![e] = [s EXCEPT !.st = IF s.st = "CloseWait" THEN "LastAck" ELSE "FinWait1"]]
  /\ closedAt' = [closedAt EXCEPT ![e] = wr[e]]
  /\ UNCHANGED <<net, drops, dups, wr, rd, got, rtos, hang, sentBad>>

Init ==
  /\ ep = [e \in EP |-> IF e = "A"
              THEN [InitEp(e) EXCEPT !.st = "SynSent", !.tuple = TRUE, !.una = ISS(e), !.nxt = ISS(e)]
              ELSE [InitEp(e) EXCEPT !.st = "Listen", !.listen = TRUE]]
  /\ net = {} /\ drops = 0 /\ dups = 0
  /\ wr = [e \in EP |-> 0] /\ rd = [e \in EP |-> 0]
  /\ got = [e \in EP |-> {}]
  /\ closedAt = [e \in EP |-> None]
  /\ rtos = 0 /\ hang = FALSE /\ sentBad = FALSE

Next ==
  \/ \E e \in EP : Poll(e, NoSeg, FALSE)
  \/ \E g \in net, keep \in BOOLEAN : Poll(Peer(g.src), g, keep)
  \/ \E e \in EP : TimerDue(e)
  \/ \E g \in net : Drop(g)
  \/ \E e \in EP, n \in 1..TxCap : ApiSend(e, n)
  \/ \E e \in EP, n \in 1..Max(CapA, CapB) : ApiRecv(e, n)
  \/ \E e \in EP : ApiClose(e)
Spec == Init /\ [][Next]_vars

---------------------------------------------------------------------------
(* Properties *)
RcvNxt(e) == ep[e].rseq + ep[e].rxLen
\* C04/C01: every data sequence number below RCV.NXT was actually written into the buffer (FIN excluded)
RecvSafe == \A e \in EP : ep[e].st \notin {"Closed", "Listen", "SynSent"} =>
   \A q \in (ISS(Peer(e)) + 1)..(RcvNxt(e) - 1 - (IF ep[e].rxFin THEN 1 ELSE 0)) : q \in got[e]
\* C01/C04: graceful end only after every byte the peer wrote
FinSafe == \A e \in EP : (ep[e].rxFin /\ ep[e].tuple) =>
   /\ closedAt[Peer(e)] # None
   /\ RcvNxt(e) - 1 - (ISS(Peer(e)) + 1) = closedAt[Peer(e)]
StreamSafe == \A e \in EP : rd[e] <= wr[Peer(e)]
\* C05: no emitted data segment beyond the learned window
WindowSafe == ~sentBad
Done == /\ \A e \in EP : ep[e].st \in {"Closed", "TimeWait"} \/ ~ep[e].tuple
        /\ rd["B"] = DataA
Unacked(e) == ep[e].txLen > 0 \/ ep[e].st \in {"SynSent", "SynReceived", "FinWait1", "Closing", "LastAck"}
\* C02: unacknowledged data, SYN or FIN => a finite deadline
DeadlineInv == \A e \in EP : (ep[e].tuple /\ Unacked(e)) => PollAtOn(e, ep[e]) # "none"
\* C02: nothing in flight and no deadline anywhere => the transfer and the shutdown are complete (or the application still has a move)
NoStall == (net = {} /\ \A e \in EP : PollAtOn(e, ep[e]) = "none")
             => (Done \/ \E e \in EP : ENABLED ApiClose(e) \/ ENABLED ApiRecv(e, 1) \/ ENABLED ApiSend(e, 1))
\* C03/C13: one poll always returns
NoHang == ~hang
=============================================================================
