----------------------------- MODULE RingModel -----------------------------
(* Reference model of storage::RingBuffer: the implementation's (read_at, length, storage) algorithm, one action
   per public method, writing fresh tokens so that "each element once" is checkable.  Each action produces the
   same event record the harness logs; the ghost queue (q, un) is advanced by RingContract!RingStep.
   TLC checks that the algorithm refines the contract (Refines, NoBad) and exports every transition. *)
EXTENDS RingContract, TLC, Json
CONSTANTS C, T        \* capacity; number of tokens that may ever be written
VARIABLES ra, len, store, tok, q, un, bad, last
vars == <<ra, len, store, tok, q, un, bad, last>>

Idx(r, i) == IF C > 0 THEN (r.ra + i) % C ELSE 0
Toks(t, n) == [i \in 1..n |-> t + i]
WriteAt(st, start, vals) == [i \in 0..(C - 1) |-> IF i >= start /\ i < start + Len(vals) THEN vals[i - start + 1] ELSE st[i]]
Slice(st, start, n) == [i \in 1..n |-> st[start + i - 1]]
R0 == [ra |-> ra, len |-> len, store |-> store]

\* enqueue_many_with: closure takes min(Len(vals), offered)
EM(r, vals) ==
  LET ra1 == IF r.len = 0 THEN 0 ELSE r.ra
      r1 == [r EXCEPT !.ra = ra1]
      wat == Idx(r1, r1.len)
      mx == Min(C - r1.len, C - wat)
      sz == Min(Len(vals), mx)
  IN [r |-> [r1 EXCEPT !.len = @ + sz, !.store = WriteAt(@, wat, Take(vals, sz))], sz |-> sz]
DM(r, n) ==
  LET mx == Min(r.len, C - r.ra)
      sz == Min(n, mx)
  IN [r |-> [r EXCEPT !.ra = IF C > 0 THEN (r.ra + sz) % C ELSE 0, !.len = @ - sz], sz |-> sz, data |-> Slice(r.store, r.ra, sz)]
GU(r, off, n) ==
  LET start == Idx(r, r.len + off) win == C - r.len
  IN IF off > win THEN [start |-> start, sz |-> 0] ELSE [start |-> start, sz |-> Min(Min(n, win - off), C - start)]
GA(r, off, n) ==
  LET start == Idx(r, off)
  IN IF off > r.len THEN [start |-> start, sz |-> 0] ELSE [start |-> start, sz |-> Min(Min(n, r.len - off), C - start)]

Obs(r) == [len |-> r.len, win |-> C - r.len, empty |-> (r.len = 0), full |-> (C - r.len = 0), cap |-> C]
Ev(op, n, off, k, data, decline, err, r) ==
  [op |-> op, n |-> n, off |-> off, k |-> k, data |-> data, decline |-> decline, err |-> err] @@ Obs(r)

\* commit: new ring record r, token counter t, event e; ghost advanced by the contract
Commit(r, t, e) ==
  LET c == RingStep(q, un, C, e)
  IN /\ ra' = r.ra /\ len' = r.len /\ store' = r.store /\ tok' = t /\ last' = e
     /\ q' = c.q /\ un' = c.un /\ bad' = (c.bad \cup ObsBad(c.q, C, e))

EnqOne(name, decline) ==
  IF len = C THEN Commit(R0, tok, Ev(name, 0, 0, 0, <<>>, decline, "full", R0))
  ELSE IF decline THEN Commit(R0, tok, Ev(name, 0, 0, 0, <<>>, TRUE, "none", R0))
  ELSE /\ tok + 1 <= T
       /\ LET r == [R0 EXCEPT !.len = @ + 1, !.store = WriteAt(@, Idx(R0, len), <<tok + 1>>)]
          IN Commit(r, tok + 1, Ev(name, 0, 0, 1, <<tok + 1>>, FALSE, "none", r))
DeqOne(name, decline) ==
  IF len = 0 THEN Commit(R0, tok, Ev(name, 0, 0, 0, <<>>, decline, "empty", R0))
  ELSE LET r == IF decline THEN R0 ELSE [R0 EXCEPT !.ra = Idx(R0, 1), !.len = @ - 1]
       IN Commit(r, tok, Ev(name, 0, 0, 1, <<store[ra]>>, decline, "none", r))
EnqMany(name, n) ==
  /\ tok + n <= T
  /\ LET x == EM(R0, Toks(tok, n)) IN Commit(x.r, tok + n, Ev(name, n, 0, x.sz, Toks(tok, n), FALSE, "none", x.r))
EnqSlice(n) ==
  /\ tok + n <= T
  /\ LET v == Toks(tok, n)
         x == EM(R0, v)
         y == EM(x.r, Drop(v, x.sz))
     IN Commit(y.r, tok + n, Ev("enqueue_slice", n, 0, x.sz + y.sz, v, FALSE, "none", y.r))
DeqMany(name, n) ==
  LET x == DM(R0, n) IN Commit(x.r, tok, Ev(name, n, 0, x.sz, x.data, FALSE, "none", x.r))
DeqSlice(n) ==
  LET x == DM(R0, n)
      y == DM(x.r, n - x.sz)
  IN Commit(y.r, tok, Ev("dequeue_slice", n, 0, x.sz + y.sz, x.data \o y.data, FALSE, "none", y.r))
GetUnalloc(off, n) ==
  LET g == GU(R0, off, n) IN Commit(R0, tok, Ev("get_unallocated", n, off, g.sz, Slice(store, g.start, g.sz), FALSE, "none", R0))
WriteUnalloc(off, n) ==
  /\ tok + n <= T
  /\ LET v == Toks(tok, n)
         a == GU(R0, off, n)
         st1 == WriteAt(store, a.start, Take(v, a.sz))
         b == GU(R0, off + a.sz, n - a.sz)
         st2 == WriteAt(st1, b.start, SubSeq(v, a.sz + 1, a.sz + b.sz))
         r == [R0 EXCEPT !.store = st2]
     IN Commit(r, tok + n, Ev("write_unallocated", n, off, a.sz + b.sz, v, FALSE, "none", r))
EnqUnalloc(n) ==
  /\ n <= C - len
  /\ LET r == [R0 EXCEPT !.len = @ + n] IN Commit(r, tok, Ev("enqueue_unallocated", n, 0, 0, <<>>, FALSE, "none", r))
GetAlloc(off, n) ==
  LET g == GA(R0, off, n) IN Commit(R0, tok, Ev("get_allocated", n, off, g.sz, Slice(store, g.start, g.sz), FALSE, "none", R0))
ReadAlloc(off, n) ==
  LET a == GA(R0, off, n)
      b == GA(R0, off + a.sz, n - a.sz)
  IN Commit(R0, tok, Ev("read_allocated", n, off, a.sz + b.sz, Slice(store, a.start, a.sz) \o Slice(store, b.start, b.sz), FALSE, "none", R0))
DeqAlloc(n) ==
  /\ n <= len
  /\ LET r == [R0 EXCEPT !.len = @ - n, !.ra = Idx(R0, n)] IN Commit(r, tok, Ev("dequeue_allocated", n, 0, 0, <<>>, FALSE, "none", r))
Clear == LET r == [R0 EXCEPT !.ra = 0, !.len = 0] IN Commit(r, tok, Ev("clear", 0, 0, 0, <<>>, FALSE, "none", r))

Init == /\ ra = 0 /\ len = 0 /\ store = [i \in 0..(C - 1) |-> 0] /\ tok = 0
        /\ q = <<>> /\ un = Unk(C) /\ bad = {} /\ last = [op |-> "init"]
Next ==
  \/ \E d \in BOOLEAN : EnqOne("enqueue_one_with", d) \/ DeqOne("dequeue_one_with", d)
  \/ EnqOne("enqueue_one", FALSE) \/ DeqOne("dequeue_one", FALSE)
  \/ \E n \in 0..(C + 1) : \/ EnqMany("enqueue_many", n) \/ EnqMany("enqueue_many_with", n) \/ EnqSlice(n)
                          \/ DeqMany("dequeue_many", n) \/ DeqMany("dequeue_many_with", n) \/ DeqSlice(n)
                          \/ EnqUnalloc(n) \/ DeqAlloc(n)
  \/ \E off \in 0..(C + 1), n \in 0..(C + 1) : GetUnalloc(off, n) \/ WriteUnalloc(off, n) \/ GetAlloc(off, n) \/ ReadAlloc(off, n)
  \/ Clear
Spec == Init /\ [][Next]_vars

Abs == [i \in 1..len |-> store[Idx(R0, i - 1)]]
Refines == Match(q, Abs) /\ Len(un) = C - len
NoBad == bad = {}
Bounded == len <= C /\ Len(q) = len
View == <<ra, len, store, tok, q, un, bad>>
StateId == <<ra, len, store, tok>>
Edge == PrintT(<<"EDGE", ToJson([from |-> <<ra, len, store, tok>>, ev |-> last', to |-> <<ra', len', store', tok'>>])>>)
=============================================================================
