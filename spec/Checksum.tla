------------------------------ MODULE Checksum ------------------------------
(* TLC proves, for every byte sequence up to MaxLen over Alphabet, that the unrolled routine equals the RFC 1071 sum,
   and exports each vector for replay on the real wire::checksum::data at several buffer alignments (C08 K1). *)
EXTENDS ChecksumOps, TLC, Json
CONSTANTS MaxLen, Alphabet
VARIABLES buf, done
Init == buf = <<>> /\ done = FALSE
Pick == ~done /\ done' = TRUE /\ \E n \in 0..MaxLen : \E b \in [1..n -> Alphabet] : buf' = b
Spec == Init /\ [][Pick]_<<buf, done>>
Agree == done => Rfc1071(buf) = Unrolled(buf)
Export == done => PrintT(<<"REPLAY", ToJson([buf |-> buf, sum |-> Rfc1071(buf)])>>)
=============================================================================
