----------------------------- MODULE RingTrace -----------------------------
(* Monitor for traces recorded from the real storage::RingBuffer (property C14, ring part).  The oracle is
   RingContract!RingStep: FIFO content/order/once (B1), observers (B2), capacity (B3), declined/refused =>
   unchanged (B4), slice calls transfer min(n, available) and contiguous calls make progress (B5), an
   accepting buffer accepts (B6).  `xk` (slice length predicted by the read_at-precise reference model) is
   only counted as model drift. *)
EXTENDS RingContract, TLC, Json, IOUtils
Rec == ndJsonDeserialize(IOEnv.TRACE)
VARIABLES l, run, cap, q, un, viol, hits, nruns, drift
vars == <<l, run, cap, q, un, viol, hits, nruns, drift>>
Rules == {"B1", "B2", "B3", "B4", "B5", "B6", "PANIC"}
Init == l = 1 /\ run = -1 /\ cap = 0 /\ q = <<>> /\ un = <<>> /\ viol = <<>> /\ hits = [r \in Rules |-> 0] /\ nruns = 0 /\ drift = 0

Add(v, x) == IF Len(v) >= 30 THEN v ELSE Append(v, x)
Flush == viol = <<>> \/ PrintT(<<"RUNVIOL", ToJson([run |-> run, viol |-> viol])>>)
RECURSIVE AddRules(_, _, _)
AddRules(v, S, r) == IF S = {} THEN v
                     ELSE LET x == CHOOSE y \in S : TRUE IN AddRules(Add(v, <<l, x, r.op, r.n, r.off, r.k>>), S \ {x}, r)
\* how often each rule's antecedent held for this kind of call
HitsOf(r) ==
  [x \in Rules |->
     IF x = "B2" \/ x = "B3" THEN 1
     ELSE IF x = "B1" THEN (IF r.op \in {"dequeue_one", "dequeue_one_with", "dequeue_many", "dequeue_many_with", "dequeue_slice",
                                         "get_allocated", "read_allocated", "get_unallocated"} THEN 1 ELSE 0)
     ELSE IF x = "B4" THEN (IF r.decline \/ r.err # "none" THEN 1 ELSE 0)
     ELSE IF x = "B5" THEN (IF r.op \in {"enqueue_slice", "dequeue_slice", "write_unallocated", "read_allocated", "enqueue_many",
                                         "enqueue_many_with", "dequeue_many", "dequeue_many_with", "get_allocated", "get_unallocated"} THEN 1 ELSE 0)
     ELSE IF x = "B6" THEN (IF r.op \in {"enqueue_one", "enqueue_one_with"} THEN 1 ELSE 0)
     ELSE 0]

Step ==
  /\ l <= Len(Rec) /\ l' = l + 1
  /\ LET r == Rec[l] IN
     CASE r.ev = "reset" ->
            /\ Flush
            /\ run' = r.run /\ cap' = r.C /\ q' = <<>> /\ un' = Unk(r.C) /\ viol' = <<>> /\ nruns' = nruns + 1
            /\ UNCHANGED <<hits, drift>>
       [] r.ev = "op" ->
            LET c == RingStep(q, un, cap, r)
                b == c.bad \cup ObsBad(c.q, cap, r)
                resync == r.len # Len(c.q)
            IN /\ viol' = AddRules(viol, b, r)
               /\ q' = IF resync THEN Unk(r.len) ELSE c.q
               /\ un' = IF resync THEN Unk(cap - r.len) ELSE c.un
               /\ hits' = LET h == HitsOf(r) IN [x \in Rules |-> hits[x] + h[x]]
               /\ drift' = drift + (IF "xk" \in DOMAIN r /\ r.xk # r.k THEN 1 ELSE 0)
               /\ UNCHANGED <<run, cap, nruns>>
       [] r.ev = "panic" ->
            /\ viol' = Add(viol, <<l, "PANIC", r.op, r.n, r.off, r.msg>>)
            /\ hits' = [hits EXCEPT !["PANIC"] = @ + 1]
            /\ UNCHANGED <<run, cap, q, un, nruns, drift>>
       [] OTHER -> UNCHANGED <<run, cap, q, un, viol, hits, nruns, drift>>
Spec == Init /\ [][Step]_vars
Final == l = Len(Rec) + 1 => /\ Flush
                             /\ PrintT(<<"FINAL", ToJson([events |-> Len(Rec), runs |-> nruns, hits |-> hits, stats |-> [drift |-> drift]])>>)
=============================================================================
