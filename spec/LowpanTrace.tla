------------------------------ MODULE LowpanTrace ------------------------------
(* Monitor for the `lowpan` world (C20).  W1 what the receiving socket hands out is exactly what was sent: payload,
   size, ports and source address; W2 every frame fits an IEEE 802.15.4 frame (<= 125 octets before the FCS);
   W3 when fragments are missing nothing is delivered; W4 every datagram of a scenario whose arrival order the
   reassembler can track is delivered (also several datagrams back to back); W5 an IPHC header emitted into a dirty
   buffer parses back (same link-layer context) to the same addresses, hop limit and next header, and occupies
   exactly buffer_len octets, at most 2 + 1 + 1 + 16 + 16. *)
EXTENDS Integers, Sequences, FiniteSets, TLC, Json, IOUtils
Rec == ndJsonDeserialize(IOEnv.TRACE)
VARIABLES l, run, viol, hits, nruns
vars == <<l, run, viol, hits, nruns>>
Rules == {"W1", "W2", "W3", "W4", "W5", "W6", "W7", "PANIC"}
Flush == viol = <<>> \/ PrintT(<<"RUNVIOL", ToJson([run |-> run, viol |-> viol])>>)
Init == l = 1 /\ run = -1 /\ viol = <<>> /\ hits = [r \in Rules |-> 0] /\ nruns = 0
MustDeliver(s) == s.o \in {"inorder", "reverse", "dup-first", "swap-tail"}
Step ==
  /\ l <= Len(Rec) /\ l' = l + 1
  /\ LET r == Rec[l] IN
     CASE r.ev = "reset" -> /\ Flush /\ run' = r.run /\ viol' = <<>> /\ nruns' = nruns + 1 /\ hits' = hits
       [] r.ev = "scn" ->
            LET s == r.s
                P(rule, ok, x) == IF ok THEN <<>> ELSE << <<l, rule, s.u, s.a, s.p, s.z, s.h, s.o>> \o x >>
                good(d) == d.diff = -1 /\ d.size = s.z /\ d.sport = r.sport /\ d.dport = r.dport /\ d.src = r.src
                w1 == P("W1", \A i \in 1..Len(r.got) : good(r.got[i]), <<"altered">>)
                w2 == P("W2", r.maxframe <= 125, <<r.maxframe>>)
                \* W6 (C10): the options of every neighbour-discovery message sent over 802.15.4 tile the message exactly
                w6 == P("W6", "nd_bad" \notin DOMAIN r \/ r.nd_bad = 0, <<"ndisc-options", IF "nd_bad" \in DOMAIN r THEN r.nd_bad ELSE 0>>)
                \* W7 (C10): a one-frame UDP datagram to a multicast group tiles its frame (MAC, IPHC, NHC UDP, payload)
                w7 == P("W7", "mc_bad" \notin DOMAIN r \/ r.mc_bad = 0, <<"mcast-frame", IF "mc_bad" \in DOMAIN r THEN r.mc_bad ELSE 0>>)
                w3 == P("W3", s.o # "drop-one" \/ r.nfrag_first <= 1 \/ Len(r.got) < s.n, <<"delivered-incomplete">>)
                w4 == P("W4", ~(MustDeliver(s) /\ r.accepted = s.n) \/ Len(r.got) >= s.n, <<Len(r.got), s.n>>)
            IN /\ viol' = IF Len(viol) >= 40 THEN viol ELSE viol \o w1 \o w2 \o w3 \o w4 \o w6 \o w7
               /\ hits' = [hits EXCEPT !["W1"] = @ + Len(r.got), !["W2"] = @ + 1, !["W3"] = @ + (IF s.o = "drop-one" THEN 1 ELSE 0), !["W4"] = @ + (IF MustDeliver(s) THEN 1 ELSE 0),
                                       !["W6"] = @ + (IF "nd_seen" \in DOMAIN r THEN r.nd_seen ELSE 0),
                                       !["W7"] = @ + (IF "mc_seen" \in DOMAIN r THEN r.mc_seen ELSE 0)]
               /\ UNCHANGED <<run, nruns>>
       [] r.ev = "iphc" ->
            LET s == r.s IN
            /\ viol' = IF Len(viol) >= 40 \/ (r.ok /\ r.len <= 36) THEN viol ELSE Append(viol, <<l, "W5", s.s, s.d, s.ls, s.ld, s.h, s.nh, r.why>>)
            /\ hits' = [hits EXCEPT !["W5"] = @ + 1] /\ UNCHANGED <<run, nruns>>
       [] r.ev = "panic" -> /\ viol' = Append(viol, <<l, "PANIC", r.msg>>) /\ hits' = [hits EXCEPT !["PANIC"] = @ + 1] /\ UNCHANGED <<run, nruns>>
       [] OTHER -> UNCHANGED <<run, viol, hits, nruns>>
Spec == Init /\ [][Step]_vars
Final == l = Len(Rec) + 1 => /\ Flush
                             /\ PrintT(<<"FINAL", ToJson([events |-> Len(Rec), runs |-> nruns, hits |-> hits])>>)
=============================================================================
