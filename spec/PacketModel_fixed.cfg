SPECIFICATION Spec
CONSTANTS
 M = 2
 P = 4
 T = 7
 DevInfNoClear = FALSE
 DevStalePadding = FALSE
INVARIANT NoBad
INVARIANT NoPanic
INVARIANT Bounded
INVARIANT Refines
VIEW View
CHECK_DEADLOCK FALSE
