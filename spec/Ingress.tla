------------------------------- MODULE Ingress -------------------------------
(* The ingress decision table behind C11 (and the source-address rule of C10, the checksum enforcement of C08).
   A row is one received packet described by classes: medium, link-layer destination, IP version, IP source class,
   IP destination class, protocol / port relation, and an optional corruption.  The operators below say what the
   statement allows for a row; TLC enumerates the full product and exports every row, the harness builds the concrete
   packet on a fresh interface (TCP listener on 80, UDP socket on 7000) and records deliveries, socket state and the
   frames emitted in reply; IngressTrace judges each observation with the same operators. *)
EXTENDS IngressOps, FiniteSets, Sequences, TLC, Json
Media == {"eth", "ip"}
LinkDst == {"own", "other", "bcast", "mcast"}
Src4 == {"uni-on", "uni-off", "lim-bcast", "net-bcast", "mcast", "unspec", "loop", "own"}
Dst4 == {"own", "own2", "other-on", "other-off", "net-bcast", "lim-bcast", "mc-all", "mc-other", "unspec", "loop"}
Src6 == {"uni", "ll", "mcast", "unspec", "loop"}
\* "other-tail": another host's unicast address that shares the last 16 bits with ours; "sol-other": the solicited-node
\* group of another host, equal to ours in the last 16 bits but not in the 24 that define the group
Dst6 == {"own", "own2", "own-ll", "other", "other-tail", "all-nodes", "sol-node", "sol-other", "mc-other", "unspec", "loop"}
Protos == {"echo", "icmp-err", "udp-open", "udp-bound", "udp-closed", "syn-open", "syn-bound", "syn-closed", "ack-closed", "rst-closed", "unknown",
           "ns", "ns-other", "mld-query", "igmp-query", "hbh-unk", "hbh-err"}
\* "opts": a clean IPv4 header carrying four octets of options; "ip-opt": the same with one bit of the options flipped
Corrupt == {"none", "ip-hdr", "l4", "udp0", "opts", "ip-opt"}

Rows == { r \in [m : Media, ld : LinkDst, v : {4, 6}, s : Src4 \cup Src6, d : Dst4 \cup Dst6, p : Protos, c : Corrupt] :
            /\ (r.m = "ip" => r.ld = "own")
            /\ (r.v = 4 => r.s \in Src4 /\ r.d \in Dst4)
            /\ (r.v = 6 => r.s \in Src6 /\ r.d \in Dst6)
            /\ (r.c \in {"ip-hdr", "opts", "ip-opt"} => r.v = 4)
            /\ (r.c = "udp0" => r.p \in {"udp-open", "udp-closed"})
            /\ (r.c = "l4" => r.p # "unknown")
            \* "hbh-unk": a UDP datagram for the open port behind a hop-by-hop header with an unknown option of the kind
            \* "discard, and report to a unicast sender": IPv6 only, never corrupted
            /\ (r.p = "hbh-unk" => r.v = 6 /\ r.c = "none")
            \* "hbh-err": the same header in front of an ICMPv6 error message (destination unreachable): no error may answer it
            /\ (r.p = "hbh-err" => r.v = 6 /\ r.c = "none")
            \* queries: the version that has them, and only where they mean something (a solicitation for an own address, a
            \* general query to the all-hosts / all-nodes group from an on-link / link-local router)
            /\ (r.p = "igmp-query" => r.v = 4 /\ r.d = "mc-all" /\ r.s = "uni-on" /\ r.ld \in {"own", "mcast"})
            /\ (r.p = "mld-query" => r.v = 6 /\ r.d = "all-nodes" /\ r.s = "ll" /\ r.ld \in {"own", "mcast"})
            /\ (r.p = "ns" => r.v = 6 /\ r.d \in {"own", "own-ll", "sol-node"} /\ r.s \in {"uni", "ll"} /\ r.ld \in {"own", "mcast"})
            \* "ns-other": a solicitation sent to our solicited-node group whose target is another station's address (one
            \* that shares the group, i.e. the last 24 bits, with ours): it asks about somebody else and draws no advertisement
            /\ (r.p = "ns-other" => r.v = 6 /\ r.d = "sol-node" /\ r.s \in {"uni", "ll"} /\ r.ld \in {"own", "mcast"} /\ r.c = "none")
            \* corruption variants only where the clean packet is deliverable / answerable
            /\ (r.c # "none" => \/ (r.ld = "own" /\ r.d \in {"own", "own-ll", "own2"} /\ r.s \in {"uni-on", "uni", "ll"})
                                \/ (r.p \in {"igmp-query", "mld-query"} /\ r.c = "l4")) }

VARIABLES row, done
vars == <<row, done>>
Init == row = [m |-> "ip"] /\ done = FALSE
Pick == ~done /\ done' = TRUE /\ \E r \in Rows : row' = r
Spec == Init /\ [][Pick]_vars
\* sanity of the table itself: the classes an error reply is allowed for are a subset of the deliverable ones
TableSane == done => (MayErrorReply(row) => MayReplyAtAll(row)) /\ (MayChangeTcp(row) => MayDeliver(row))
Export == done => PrintT(<<"REPLAY", ToJson(row)>>)
=============================================================================
