---------------------------- MODULE RingContract ----------------------------
(* Contract of storage::RingBuffer (property C14) as an abstract bounded FIFO queue.
   q   : the queued elements, oldest first (-1 = element whose value the contract does not fix)
   un  : what the random-access interface has written into the free space, by offset from the end of q
         (-1 = unknown).  Len(un) = C - Len(q).
   RingStep judges one logged call e against (q, un) and returns the new abstract state plus the set of
   contract rules the call broke.  The contract fixes FIFO content, order, "each once", length and free space;
   it does NOT fix how many elements a *contiguous* call hands out (k <= min(n, available), and k >= 1 when
   that minimum is >= 1); the two-step slice calls must transfer exactly min(n, available).
   Writes into the free space become queue content only through enqueue_unallocated, in position order; an
   ordinary enqueue invalidates what was written there (the implementation may move its write position). *)
EXTENDS Integers, Sequences, FiniteSets

Min(a, b) == IF a < b THEN a ELSE b
Max(a, b) == IF a > b THEN a ELSE b
Drop(s, k) == SubSeq(s, k + 1, Len(s))
Take(s, k) == SubSeq(s, 1, k)
Unk(k) == [i \in 1..k |-> -1]
Match(a, b) == Len(a) = Len(b) /\ \A i \in 1..Len(a) : a[i] = -1 \/ b[i] = -1 \/ a[i] = b[i]

Res(q, un, bad) == [q |-> q, un |-> un, bad |-> bad]
If(c, r) == IF c THEN {} ELSE {r}

\* contiguous hand-out: k <= lim, and progress when lim >= 1
ContigOK(k, lim) == k >= 0 /\ k <= lim /\ (lim >= 1 => k >= 1)

RingStep(q, un, C, e) ==
  LET L == Len(q)
      W == C - L
  IN
  CASE e.op \in {"enqueue_one", "enqueue_one_with"} ->
         IF L = C THEN Res(q, un, If(e.err = "full", "B3"))
         ELSE IF e.decline THEN Res(q, un, If(e.err = "none", "B4"))
         ELSE Res(q \o Take(e.data, 1), Unk(W - 1), If(e.err = "none", "B6"))
    [] e.op \in {"dequeue_one", "dequeue_one_with"} ->
         IF L = 0 THEN Res(q, un, If(e.err = "empty", "B1"))
         ELSE IF e.err # "none" THEN Res(q, un, {"B1"})
         ELSE IF e.decline THEN Res(q, un, If(Match(e.data, Take(q, 1)), "B1"))
         ELSE Res(Drop(q, 1), un \o Unk(1), If(Match(e.data, Take(q, 1)), "B1"))
    [] e.op \in {"enqueue_many", "enqueue_many_with"} ->
         LET lim == Min(e.n, W) k == e.k
         IN IF ContigOK(k, lim) /\ Len(e.data) >= k THEN Res(q \o Take(e.data, k), Unk(W - k), {})
            ELSE Res(q, un, {IF k > lim THEN "B3" ELSE "B5"})
    [] e.op = "enqueue_slice" ->
         LET lim == Min(e.n, W) k == e.k
         IN IF k = lim THEN Res(q \o Take(e.data, k), Unk(W - k), {})
            ELSE IF k >= 0 /\ k <= lim THEN Res(q \o Take(e.data, k), Unk(W - k), {"B5"})
            ELSE Res(q, un, {"B3"})
    [] e.op \in {"dequeue_many", "dequeue_many_with"} ->
         LET lim == Min(e.n, L) k == e.k
         IN IF ContigOK(k, lim) /\ Len(e.data) = k
            THEN Res(Drop(q, k), un \o Unk(k), If(Match(e.data, Take(q, k)), "B1"))
            ELSE Res(q, un, {IF k > lim THEN "B1" ELSE "B5"})
    [] e.op = "dequeue_slice" ->
         LET lim == Min(e.n, L) k == e.k
         IN IF k >= 0 /\ k <= lim /\ Len(e.data) = k
            THEN Res(Drop(q, k), un \o Unk(k), If(Match(e.data, Take(q, k)), "B1") \cup If(k = lim, "B5"))
            ELSE Res(q, un, {"B1"})
    [] e.op = "get_unallocated" ->
         LET lim == IF e.off > W THEN 0 ELSE Min(e.n, W - e.off) k == e.k
         IN IF ContigOK(k, lim) /\ Len(e.data) = k
            THEN Res(q, un, If(Match(e.data, SubSeq(un, e.off + 1, e.off + k)), "B1"))
            ELSE Res(q, un, {IF k > lim THEN "B3" ELSE "B5"})
    [] e.op = "write_unallocated" ->
         LET lim == IF e.off > W THEN 0 ELSE Min(e.n, W - e.off) k == e.k
         IN IF k >= 0 /\ k <= lim
            THEN Res(q, [i \in 1..W |-> IF i > e.off /\ i <= e.off + k THEN e.data[i - e.off] ELSE un[i]], If(k = lim, "B5"))
            ELSE Res(q, un, {"B3"})
    [] e.op = "enqueue_unallocated" ->        \* in contract only for n <= W
         Res(q \o Take(un, e.n), Drop(un, e.n), {})
    [] e.op = "get_allocated" ->
         LET lim == IF e.off > L THEN 0 ELSE Min(e.n, L - e.off) k == e.k
         IN IF ContigOK(k, lim) /\ Len(e.data) = k
            THEN Res(q, un, If(Match(e.data, SubSeq(q, e.off + 1, e.off + k)), "B1"))
            ELSE Res(q, un, {IF k > lim THEN "B1" ELSE "B5"})
    [] e.op = "read_allocated" ->
         LET lim == IF e.off > L THEN 0 ELSE Min(e.n, L - e.off) k == e.k
         IN IF k >= 0 /\ k <= lim /\ Len(e.data) = k
            THEN Res(q, un, If(Match(e.data, SubSeq(q, e.off + 1, e.off + k)), "B1") \cup If(k = lim, "B5"))
            ELSE Res(q, un, {"B1"})
    [] e.op = "dequeue_allocated" ->          \* in contract only for n <= L
         Res(Drop(q, e.n), un \o Unk(e.n), {})
    [] e.op = "clear" -> Res(<<>>, Unk(C), {})

\* observers after the call must equal the queue model (B2); the queue never exceeds its capacity (B3)
ObsBad(q, C, e) ==
  If(e.len = Len(q) /\ e.win = C - Len(q) /\ e.empty = (Len(q) = 0) /\ e.full = (Len(q) = C) /\ e.cap = C, "B2")
  \cup If(Len(q) <= C /\ e.len <= C, "B3")
=============================================================================
