----------------------------- MODULE MCTcpPeer -----------------------------
(* One TcpModel endpoint (B, a listener) against a hostile-but-consistent peer: the peer may send any segment with
   sequence numbers around RCV.NXT and the advertised right edge, any length 0..L, any control flag, ACK numbers
   around SND.UNA/SND.NXT, windows {0, 2}, but it is consistent about which byte lives at which sequence number and
   its FIN, if any, sits at one fixed offset (PeerData).  Application reads, writes, close and timer polls interleave.
   Every labelled transition is exported (ACTION_CONSTRAINT Edge) and replayed on a real listening socket. *)
EXTENDS TcpModel, Json
CONSTANTS L, PeerData, Steps, SendB, Connector   \* Connector = TRUE: the socket connects (starts in SYN-SENT) instead of listening
VARIABLES steps, outs, last
pvars == <<ep, net, drops, dups, wr, rd, got, closedAt, rtos, hang, sentBad, steps, outs, last>>

PeerFinSeq == ISS("A") + 1 + PeerData
PInit ==
  /\ ep = [e \in EP |-> IF e = "B" THEN (IF Connector THEN [InitEp(e) EXCEPT !.st = "SynSent", !.tuple = TRUE, !.una = ISS(e), !.nxt = ISS(e)]
                                                          ELSE [InitEp(e) EXCEPT !.st = "Listen", !.listen = TRUE]) ELSE InitEp(e)]
  /\ net = {} /\ drops = 0 /\ dups = 0
  /\ wr = [e \in EP |-> 0] /\ rd = [e \in EP |-> 0]
  /\ got = [e \in EP |-> {}] /\ closedAt = [e \in EP |-> None]
  /\ rtos = 0 /\ hang = FALSE /\ sentBad = FALSE /\ steps = 0 /\ outs = <<>> /\ last = [k |-> "init"]

RcvNxtB == ep["B"].rseq + ep["B"].rxLen
EdgeB == IF ep["B"].lastAck = None THEN RcvNxtB ELSE ep["B"].lastAck + ep["B"].lastWin
PeerSegs ==
  LET sB == ep["B"]
      seqs == IF sB.st \in {"Listen", "SynSent"} THEN {ISS("A")}
              ELSE {q \in {RcvNxtB - 1, RcvNxtB, RcvNxtB + 1, EdgeB - 1, EdgeB, EdgeB + 1} : q >= ISS("A") + 1}
      acks == IF sB.st = "Listen" THEN {None} ELSE IF sB.st = "SynSent" THEN {None, sB.una, sB.una + 1, sB.una + 2} ELSE {None, sB.una, sB.nxt, sB.nxt + 1}
  IN { g \in [src : {"A"}, seq : seqs, ack : acks, ctl : {"none", "fin", "rst", "syn"}, win : {0, 2}, len : 0..L] :
         /\ (g.ctl = "syn" => g.len = 0 /\ g.seq = ISS("A"))
         /\ (g.ctl # "syn" => g.seq + g.len <= PeerFinSeq)
         /\ (sB.st = "SynSent" => g.len = 0 /\ g.ctl # "fin")
         /\ (g.ctl = "fin" => g.seq + g.len = PeerFinSeq)
         /\ (sB.st = "Listen" => g.ctl = "syn") }

PeerInject(g) ==
  LET s0 == ep["B"]
      acc == s0.st # "Closed" /\ ~(s0.st = "Listen" /\ (g.ack # None \/ g.ctl = "rst"))
      pr == IF acc THEN ProcessOn("B", s0, g) ELSE Res(s0, IF g.ctl # "rst" THEN RstReply("B", g) ELSE NoSeg, {})
      dl == DispLoop("B", pr.s, 6)
  IN /\ steps < Steps /\ steps' = steps + 1
     /\ ep' = [ep EXCEPT !["B"] = dl.s]
     /\ outs' = (IF pr.reply = NoSeg THEN <<>> ELSE <<pr.reply>>) \o dl.outs
     /\ got' = [got EXCEPT !["B"] = @ \cup pr.gotNew]
     /\ hang' = (hang \/ dl.hang)
     /\ sentBad' = (sentBad \/ \E o \in SeqOf(dl.outs) : BadSeg(pr.s, o))
     /\ closedAt' = [closedAt EXCEPT !["A"] = IF g.ctl = "fin" THEN PeerData ELSE @]
     /\ last' = [k |-> "seg", g |-> g, before |-> s0.st, after |-> dl.s.st]
     /\ UNCHANGED <<net, drops, dups, wr, rd, rtos>>
\* the socket's armed timer reaches its deadline
Due ==
  LET s == ep["B"] IN
  /\ steps < Steps /\ steps' = steps + 1
  /\ s.tuple /\ s.timer \in {"rto", "zwp", "close"} /\ ~s.due
  /\ ep' = [ep EXCEPT !["B"] = [s EXCEPT !.due = TRUE]]
  /\ outs' = <<>> /\ last' = [k |-> "due", before |-> s.st, after |-> s.st]
  /\ UNCHANGED <<net, drops, dups, wr, rd, got, closedAt, rtos, hang, sentBad>>
TimerPoll ==
  LET s0 == ep["B"] dl == DispLoop("B", s0, 6) IN
  /\ steps < Steps /\ steps' = steps + 1
  /\ PollAtOn("B", s0) = "now"
  /\ ep' = [ep EXCEPT !["B"] = dl.s] /\ outs' = dl.outs /\ hang' = (hang \/ dl.hang)
  /\ sentBad' = (sentBad \/ \E o \in SeqOf(dl.outs) : BadSeg(s0, o))
  /\ last' = [k |-> "poll", before |-> s0.st, after |-> dl.s.st]
  /\ UNCHANGED <<net, drops, dups, wr, rd, got, closedAt, rtos>>
Recv(n) == LET s == ep["B"] IN
  /\ n <= s.rxLen /\ s.st \notin {"Listen", "SynSent", "SynReceived"} /\ steps < Steps /\ steps' = steps + 1
  /\ ep' = [ep EXCEPT !["B"] = [s EXCEPT !.rseq = @ + n, !.rxLen = @ - n]]
  /\ rd' = [rd EXCEPT !["B"] = @ + n] /\ outs' = <<>> /\ last' = [k |-> "recv", n |-> n, before |-> s.st, after |-> s.st]
  /\ UNCHANGED <<net, drops, dups, wr, got, closedAt, rtos, hang, sentBad>>
Send(n) == LET s == ep["B"] IN
  /\ s.st \in {"Established", "CloseWait"} /\ wr["B"] + n <= SendB /\ s.txLen + n <= TxCap /\ steps < Steps /\ steps' = steps + 1
  /\ ep' = [ep EXCEPT !["B"] = IF s.wnd = 0 /\ s.timer = "idle" THEN [SetT(s, "zwp") EXCEPT !.txLen = @ + n, !.due = TRUE] ELSE [s EXCEPT !.txLen = @ + n]]
  /\ wr' = [wr EXCEPT !["B"] = @ + n] /\ outs' = <<>> /\ last' = [k |-> "send", n |-> n, before |-> s.st, after |-> s.st]
  /\ UNCHANGED <<net, drops, dups, rd, got, closedAt, rtos, hang, sentBad>>
Close == LET s == ep["B"] IN
  /\ s.st \in {"Established", "CloseWait", "SynReceived"} /\ steps < Steps /\ steps' = steps + 1
  /\ ep' = [ep EXCEPT !["B"] = [s EXCEPT !.st = IF s.st = "CloseWait" THEN "LastAck" ELSE "FinWait1"]]
  /\ closedAt' = [closedAt EXCEPT !["B"] = wr["B"]] /\ outs' = <<>>
  /\ last' = [k |-> "close", before |-> s.st, after |-> IF s.st = "CloseWait" THEN "LastAck" ELSE "FinWait1"]
  /\ UNCHANGED <<net, drops, dups, wr, rd, got, rtos, hang, sentBad>>
PNext == (\E g \in PeerSegs : PeerInject(g)) \/ Due \/ TimerPoll \/ (\E n \in 1..CapB : Recv(n)) \/ (\E n \in 1..TxCap : Send(n)) \/ Close
PSpec == PInit /\ [][PNext]_pvars

PRecvSafe == ep["B"].st \notin {"Closed", "Listen", "SynSent"} =>
   \A q \in (ISS("A") + 1)..(RcvNxt("B") - 1 - (IF ep["B"].rxFin THEN 1 ELSE 0)) : q \in got["B"]
PFinSafe == (ep["B"].rxFin /\ ep["B"].tuple) => RcvNxt("B") - 1 = PeerFinSeq
\* every ACK number the socket emits covers only bytes it stored (and the FIN only at its fixed place)
AckSafe == \A i \in 1..Len(outs) : outs[i].ack # None =>
   LET dataHi == outs[i].ack - 1 - (IF outs[i].ack - 1 = PeerFinSeq THEN 1 ELSE 0) IN \A q \in (ISS("A") + 1)..dataHi : q \in got["B"]
PDeadline == (ep["B"].tuple /\ Unacked("B")) => PollAtOn("B", ep["B"]) # "none"
\* C17 on the model: the edge taken is one of the diagram's
AllowedEdges == { <<"Closed","Listen">>, <<"SynSent","Established">>, <<"SynSent","SynReceived">>, <<"Listen","SynReceived">>, <<"SynReceived","Established">>, <<"SynReceived","CloseWait">>,
  <<"SynReceived","Listen">>, <<"SynReceived","FinWait1">>, <<"Established","CloseWait">>, <<"Established","FinWait1">>,
  <<"FinWait1","FinWait2">>, <<"FinWait1","Closing">>, <<"FinWait1","TimeWait">>, <<"FinWait2","TimeWait">>, <<"Closing","TimeWait">>,
  <<"CloseWait","LastAck">>, <<"LastAck","Closed">>, <<"TimeWait","Closed">> }
EdgeSafe == [][LET b == ep["B"].st a == ep'["B"].st IN b = a \/ <<b, a>> \in AllowedEdges \/ (a = "Closed" /\ last'.k = "seg" /\ last'.g.ctl = "rst")]_pvars
View == <<ep, got, closedAt, rd, wr, steps, hang, sentBad>>
\* exported without the step counter: the same socket state reached after different numbers of steps is one tour node
Edge == PrintT(<<"EDGE", ToJson([from |-> ToString(<<ep, got, closedAt, rd, wr>>), ev |-> last', to |-> ToString(<<ep', got', closedAt', rd', wr'>>)])>>)
=============================================================================
