-------------------------------- MODULE Dns --------------------------------
(* Reference model of one pending query of dns::Socket (C19): transaction id and source port are abstracted to
   "matches / does not match" (chosen by the adversary), time is in seconds.  The query is retransmitted with a delay
   that doubles from 1 s up to 10 s; when more than 10 s have passed since the first transmission to a server it moves
   to the next one; after the last server it fails.  Responses: matching with a usable address, matching without
   (NXDOMAIN or no relevant record), or non-matching (wrong id / port / server / question) -- the latter must have no
   effect.  DevAcceptAnyId = TRUE (negative control): non-matching responses complete the query. *)
EXTENDS Integers, TLC
CONSTANTS Servers, MaxT, DevAcceptAnyId
VARIABLES now, st, idx, delay, retxAt, timeoutAt, sent, from
vars == <<now, st, idx, delay, retxAt, timeoutAt, sent, from>>
Min(a, b) == IF a < b THEN a ELSE b
Init == now = 0 /\ st = "pending" /\ idx = 0 /\ delay = 1 /\ retxAt = 0 /\ timeoutAt = -1 /\ sent = 0 /\ from = "none"
\* dispatch() at the current instant
Dispatch ==
  /\ st = "pending" /\ now >= retxAt
  /\ LET to0 == IF timeoutAt = -1 THEN now + 10 ELSE timeoutAt
         expired == to0 < now
         idx1 == IF expired THEN idx + 1 ELSE idx
     IN IF idx1 >= Servers THEN st' = "failed" /\ UNCHANGED <<idx, delay, retxAt, timeoutAt, sent, from>>
        ELSE /\ idx' = idx1
             /\ timeoutAt' = IF expired THEN now + 10 ELSE to0
             /\ LET d == IF expired THEN 1 ELSE delay IN retxAt' = now + d /\ delay' = Min(10, d * 2)
             /\ sent' = sent + 1 /\ UNCHANGED <<st, from>>
  /\ UNCHANGED now
Response(kind) ==
  /\ st = "pending" /\ sent > 0
  /\ IF kind = "match-addr" \/ (DevAcceptAnyId /\ kind = "nomatch") THEN st' = "done" /\ from' = kind
     ELSE IF kind = "match-none" THEN st' = "failed" /\ from' = kind
     ELSE UNCHANGED <<st, from>>
  /\ UNCHANGED <<now, idx, delay, retxAt, timeoutAt, sent>>
\* the event loop sleeps until poll_at = retxAt
Tick == st = "pending" /\ retxAt > now /\ now < MaxT /\ now' = Min(retxAt, MaxT) /\ UNCHANGED <<st, idx, delay, retxAt, timeoutAt, sent, from>>
Next == Dispatch \/ (\E k \in {"match-addr", "match-none", "nomatch"} : Response(k)) \/ Tick
Spec == Init /\ [][Next]_vars
\* Z1: completion with an address only from a matching response
Provenance == st = "done" => from = "match-addr"
\* Z3: bounded: while pending the clock never passes servers x 25 s
Bounded == st = "pending" => now <= Servers * 25
\* Z4: the deadline is never in the past by more than the poll granularity and at most 10 s ahead
Spacing == st = "pending" => retxAt <= now + 10
=============================================================================
