//! World `pollat` (C13): one Ethernet interface (IPv4 + IPv6, SLAAC on or off) whose sockets all have timers running --
//! a TCP connection attempt, a datagram waiting for an unresolved neighbor, a DHCP client, a DNS query -- and a
//! network that stays almost silent.  The driver is a model event loop: it asks poll_at, sometimes polls strictly
//! earlier (or at an arbitrary instant when there is no deadline) with nothing queued and no API call in between
//! (`probe`), otherwise sleeps until the deadline and polls (`due`).
use crate::dev::QDev;
use crate::frames::*;
use crate::util::*;
use serde_json::{json, Value};
use smoltcp::iface::{Config, Interface, SocketSet};
use smoltcp::phy::Medium;
use smoltcp::socket::{dhcpv4, dns, tcp, udp};
use smoltcp::time::Instant;
use smoltcp::wire::{DnsQueryType, EthernetAddress, HardwareAddress, IpAddress, IpCidr, IpEndpoint, Ipv4Address};

const MY_MAC: [u8; 6] = [2, 0, 0, 0, 0, 1];

fn proj(f: &[u8]) -> Value {
    if f.len() < 14 {
        return json!({"et": "short"});
    }
    let et = u16::from_be_bytes([f[12], f[13]]);
    match et {
        0x0806 => json!({"et":"arp","op":f.get(21).cloned().unwrap_or(0),"tpa":f.get(38..42).map(|x| x.to_vec()).unwrap_or_default()}),
        0x0800 | 0x86dd => match parse_ip(&f[14..]) {
            Some(ip) => {
                let mut v = json!({"et": if et == 0x0800 {"ip4"} else {"ip6"}, "proto": ip.proto, "ty": -1, "len": f.len()});
                match &ip.l4 {
                    L4::Icmp6 { ty, .. } => v["ty"] = json!(ty),
                    L4::Icmp4 { ty, .. } => v["ty"] = json!(ty),
                    L4::Udp { dport, .. } => v["dport"] = json!(dport),
                    L4::Tcp(t) => {
                        v["syn"] = json!(t.syn);
                        v["dport"] = json!(t.dport);
                    }
                    _ => {}
                }
                v
            }
            None => json!({"et": "ip-bad"}),
        },
        _ => json!({"et": "other"}),
    }
}

pub fn random(args: &Args) {
    let seed0 = args.u64("seed", 1);
    let runs = args.usize("runs", 20);
    let mut t = Trace::create(&args.str("out", ""));
    for run in 0..runs {
        let mut rng = Rng::new(seed0.wrapping_mul(3_000_017).wrapping_add(run as u64));
        let slaac = rng.chance(60);
        let with = [rng.chance(60), rng.chance(60), rng.chance(50), rng.chance(50)]; // tcp, udp, dhcp, dns
        let mut dev = QDev::new(Medium::Ethernet, 1514);
        let mut c = Config::new(HardwareAddress::Ethernet(EthernetAddress(MY_MAC)));
        c.random_seed = rng.next();
        c.slaac = slaac;
        let mut iface = Interface::new(c, &mut dev, Instant::from_millis(0));
        iface.update_ip_addrs(|a| {
            a.push(IpCidr::new(IpAddress::v4(10, 0, 0, 1), 24)).unwrap();
            a.push(IpCidr::new(IpAddress::v6(0xfe80, 0, 0, 0, 0, 0, 0, 1), 64)).unwrap();
        });
        let mut sockets = SocketSet::new(vec![]);
        let mut now: i64 = rng.range(0, 2000) as i64;
        let answered: u8 = 9; // the only host that answers ARP
        if with[0] {
            let mut s = tcp::Socket::new(tcp::SocketBuffer::new(vec![0u8; 256]), tcp::SocketBuffer::new(vec![0u8; 256]));
            if rng.chance(50) {
                s.set_keep_alive(Some(smoltcp::time::Duration::from_millis(3000)));
            }
            let dst = if rng.chance(50) { answered } else { 7 };
            s.connect(iface.context(), (Ipv4Address::new(10, 0, 0, dst), 80), 40000).unwrap();
            sockets.add(s);
        }
        if with[1] {
            let mut s = udp::Socket::new(udp::PacketBuffer::new(vec![udp::PacketMetadata::EMPTY; 4], vec![0u8; 512]), udp::PacketBuffer::new(vec![udp::PacketMetadata::EMPTY; 4], vec![0u8; 512]));
            s.bind(6000).unwrap();
            s.send_slice(b"hello world", IpEndpoint::new(IpAddress::v4(10, 0, 0, 7), 9)).unwrap();
            sockets.add(s);
        }
        if with[2] {
            sockets.add(dhcpv4::Socket::new());
        }
        if with[3] {
            let servers = [IpAddress::v4(10, 0, 0, answered)];
            let mut s = dns::Socket::new(&servers, vec![]);
            let _ = s.start_query(iface.context(), "example.org", DnsQueryType::A);
            sockets.add(s);
        }
        t.ev(json!({"ev":"reset","run":run,"world":"pollat","seed":seed0,"cfg":{"slaac":slaac,"tcp":with[0],"udp":with[1],"dhcp":with[2],"dns":with[3]}}));
        let mut pending: Vec<(i64, Vec<u8>)> = vec![];
        let horizon = now + rng.range(30_000, 140_000) as i64;
        let mut steps = 0;
        while now < horizon && steps < 1500 {
            steps += 1;
            let d = iface.poll_at(Instant::from_millis(now), &sockets).map(crate::util::ms_ceil).unwrap_or(-1);
            pending.sort_by_key(|x| x.0);
            let next_rx = pending.first().map(|x| x.0).unwrap_or(i64::MAX);
            let mut kind = "due";
            let mut tpoll = if d < 0 { i64::MAX } else { d.max(now) };
            let mut frames: Vec<Vec<u8>> = vec![];
            if next_rx != i64::MAX && next_rx <= tpoll {
                tpoll = next_rx.max(now);
                while !pending.is_empty() && pending[0].0 <= tpoll {
                    frames.push(pending.remove(0).1);
                }
                kind = "rx";
            } else if d < 0 {
                // no deadline: the loop would sleep for ever; poll at an arbitrary later instant
                tpoll = now + rng.range(1, 30_000) as i64;
                kind = "probe";
            } else if d > now + 1 && rng.chance(50) {
                tpoll = now + rng.range(1, (d - now - 1) as u64) as i64;
                kind = "probe";
            }
            now = tpoll;
            for f in frames {
                dev.rx.push_back(f);
            }
            let nrx = dev.rx.len();
            let r = guarded(|| {
                iface.poll(Instant::from_millis(now), &mut dev, &mut sockets);
            });
            let out = dev.take_tx();
            if let Err(m) = r {
                t.ev(json!({"ev":"panic","now":now,"msg":m}));
                break;
            }
            let pa = iface.poll_at(Instant::from_millis(now), &sockets).map(crate::util::ms_ceil).unwrap_or(-1);
            let pd = iface.poll_delay(Instant::from_millis(now), &sockets).map(|x| x.total_millis() as i64).unwrap_or(-1);
            let outs: Vec<Value> = out.iter().map(|o| proj(o)).collect();
            t.ev(json!({"ev":"poll","kind":kind,"now":now,"deadline":d,"nrx":nrx,"out":outs,"pa":pa,"pd":pd}));
            // the one answering station replies to ARP after 20 ms
            for f in &out {
                if f.len() >= 42 && f[12] == 8 && f[13] == 6 && f[21] == 1 && f[41] == answered {
                    let mac = [2, 0, 0, 0, 1, answered];
                    pending.push((now + 20, eth_frame(MY_MAC, mac, 0x0806, &arp_packet(2, mac, [10, 0, 0, answered], MY_MAC, [10, 0, 0, 1]))));
                }
            }
        }
        t.ev(json!({"ev":"end","now":now,"how":"horizon-reached","steps":steps}));
    }
    println!("{}", json!({"runs": runs, "events": t.finish()}));
}
