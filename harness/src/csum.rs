//! World `csum` (C08 K1): the real wire::checksum::data / combine on TLC-enumerated vectors at several alignments,
//! on seeded dense buffers of every length 0..=2048, and on long sparse buffers up to 65535 bytes.
use crate::util::*;
use serde_json::json;
use smoltcp::wire::checksum;

pub fn replay(args: &Args) {
    let cases = read_ndjson(&args.str("sched", ""));
    let seed = args.u64("seed", 1);
    let mut rng = Rng::new(seed);
    let mut t = Trace::create(&args.str("out", ""));
    t.ev(json!({"ev":"reset","run":0,"world":"csum","seed":seed}));
    // 1. TLC vectors at alignments 0..7 inside a larger buffer
    for c in &cases {
        let b: Vec<u8> = c["buf"].as_array().unwrap().iter().map(|x| x.as_u64().unwrap() as u8).collect();
        for align in 0..8usize {
            let mut big = vec![0xA5u8; align + b.len() + 3];
            big[align..align + b.len()].copy_from_slice(&b);
            let res = checksum::data(&big[align..align + b.len()]);
            t.ev(json!({"ev":"csum","kind":"dense","len":b.len(),"align":align,"bytes":b,"res":res}));
        }
    }
    // 2. every length 0..=maxlen with seeded content (also split in two and recombined)
    let maxlen = args.usize("maxlen", 2048);
    let step = args.usize("step", 1);
    let mut n = 0;
    while n <= maxlen {
        let b: Vec<u8> = (0..n).map(|_| if rng.chance(30) { 0xff } else { rng.below(256) as u8 }).collect();
        let align = rng.below(8) as usize;
        let mut big = vec![0u8; align + n];
        big[align..].copy_from_slice(&b);
        let res = checksum::data(&big[align..]);
        t.ev(json!({"ev":"csum","kind":"dense","len":n,"align":align,"bytes":b,"res":res}));
        if n >= 2 {
            let cut = (rng.below(n as u64 / 2) * 2) as usize; // even split point
            let res2 = checksum::combine(&[checksum::data(&b[..cut]), checksum::data(&b[cut..])]);
            t.ev(json!({"ev":"csum","kind":"dense","len":n,"align":-1,"bytes":b,"res":res2}));
        }
        n += step;
    }
    // 3. long sparse buffers
    for _ in 0..args.usize("sparse", 2000) {
        let len = *rng.pick(&[65535usize, 65534, 65533, 65532, 40000, 9001, 4097, 1501]) - rng.below(4) as usize;
        let mut b = vec![0u8; len];
        let mut nz = vec![];
        for _ in 0..rng.range(0, 4) {
            let pos = match rng.below(4) {
                0 => rng.below(4) as usize,
                1 => len - 1 - rng.below(4.min(len as u64)) as usize,
                _ => rng.below(len as u64) as usize,
            };
            if b[pos] == 0 {
                let v = *rng.pick(&[0xffu8, 0x80, 0x01, 0x7f]);
                b[pos] = v;
                nz.push(json!([pos, v]));
            }
        }
        let res = checksum::data(&b);
        t.ev(json!({"ev":"csum","kind":"sparse","len":len,"align":0,"nz":nz,"res":res}));
    }
    println!("{}", json!({"runs": 1, "events": t.finish()}));
}
