//! World `mcast` (beyond the listed properties): replays behaviours of Mcast.tla -- joins, leaves, polls with a given
//! number of device tokens and possibly an IGMPv2 query arriving in that poll -- on a real IPv4 interface and logs
//! the membership reports and leave messages each poll emits, next to what the model predicted.
use crate::dev::QDev;
use crate::frames::*;
use crate::util::*;
use serde_json::{json, Value};
use smoltcp::iface::{Config, Interface, SocketSet};
use smoltcp::phy::Medium;
use smoltcp::time::Instant;
use smoltcp::wire::{EthernetAddress, HardwareAddress, IpAddress, IpCidr, Ipv4Address};

const MY_MAC: [u8; 6] = [2, 0, 0, 0, 0, 1];
const UNIT_MS: i64 = 100; // one model time unit; IGMPv2 counts the maximum response time in these units

fn group_addr(g: &str) -> [u8; 4] {
    let n: u8 = g.trim_start_matches('g').parse().unwrap_or(0);
    [224, 0, 1, n]
}
fn group_name(a: &[u8]) -> String {
    if a.len() == 4 && a[0] == 224 && a[1] == 0 && a[2] == 1 { format!("g{}", a[3]) } else { format!("{:?}", a) }
}

fn igmp_query(group: Option<[u8; 4]>, resp_units: u8) -> Vec<u8> {
    let g = group.unwrap_or([0, 0, 0, 0]);
    let mut m = vec![0x11u8, resp_units, 0, 0];
    m.extend_from_slice(&g);
    let c = csum(&m);
    m[2..4].copy_from_slice(&c.to_be_bytes());
    let dst = group.unwrap_or([224, 0, 0, 1]);
    let mut p = ipv4_packet([10, 0, 0, 254], dst, 2, 7, 1, &m, false);
    // (ipv4_packet sets the TTL given; the header checksum is already valid)
    let _ = &mut p;
    eth_frame([1, 0, 0x5e, dst[1] & 0x7f, dst[2], dst[3]], [2, 0, 0, 0, 1, 254], 0x0800, &p)
}

pub fn replay(args: &Args) {
    let sched = read_ndjson(&args.str("sched", ""));
    let resp = args.u64("resp", 12) as u8;
    let mut t = Trace::create(&args.str("out", ""));
    for (k, sc) in sched.iter().enumerate() {
        let mut dev = QDev::new(Medium::Ethernet, 1514);
        let mut c = Config::new(HardwareAddress::Ethernet(EthernetAddress(MY_MAC)));
        c.random_seed = 1 + k as u64;
        let mut iface = Interface::new(c, &mut dev, Instant::from_millis(0));
        iface.update_ip_addrs(|a| {
            a.push(IpCidr::new(IpAddress::v4(10, 0, 0, 1), 24)).unwrap();
        });
        let mut sockets = SocketSet::new(vec![]);
        t.ev(json!({"ev":"reset","run":k,"world":"mcast","src":"tlc"}));
        let evs = if sc.get("steps").is_some() { &sc["steps"]["ev"] } else { &sc["ev"] };
        for e in evs.as_array().unwrap() {
            let now = e["t"].as_i64().unwrap() * UNIT_MS;
            let g = e["g"].as_str().unwrap_or("none").to_string();
            match e["e"].as_str().unwrap() {
                "join" => {
                    let a = group_addr(&g);
                    let r = iface.join_multicast_group(Ipv4Address::new(a[0], a[1], a[2], a[3]));
                    t.ev(json!({"ev":"api","now":now,"call":"join","g":g,"ok":r.is_ok()}));
                }
                "leave" => {
                    let a = group_addr(&g);
                    let r = iface.leave_multicast_group(Ipv4Address::new(a[0], a[1], a[2], a[3]));
                    t.ev(json!({"ev":"api","now":now,"call":"leave","g":g,"ok":r.is_ok()}));
                }
                _ => {
                    let tokens = e["tokens"].as_u64().unwrap() as usize;
                    let mut extra = 0;
                    match e["q"].as_str().unwrap_or("none") {
                        "general" => {
                            dev.rx.push_back(igmp_query(None, resp));
                            extra = 1;
                        }
                        "specific" => {
                            dev.rx.push_back(igmp_query(Some(group_addr(&g)), resp));
                            extra = 1;
                        }
                        _ => {}
                    }
                    // (the queue device counts the token that comes with a received frame against the budget)
                    dev.tx_budget = Some(tokens + extra);
                    let r = guarded(|| {
                        iface.poll(Instant::from_millis(now), &mut dev, &mut sockets);
                    });
                    dev.tx_budget = None;
                    let out = dev.take_tx();
                    if let Err(m) = r {
                        t.ev(json!({"ev":"panic","now":now,"msg":m}));
                        break;
                    }
                    let mut outs: Vec<Value> = vec![];
                    for o in &out {
                        let v = match parse_ip(&o[14.min(o.len())..]) {
                            Some(ip) if ip.proto == 2 && ip.l4_bytes.len() >= 8 => {
                                let ty = ip.l4_bytes[0];
                                let grp = group_name(&ip.l4_bytes[4..8]);
                                let ok = csum(&ip.l4_bytes) == 0 && ip.hdr_csum_ok && ip.ttl == 1;
                                json!({"m": match ty { 0x16 | 0x12 => "report", 0x17 => "leave", _ => "other" }, "g": grp, "wf": ok,
                                       "dst": addr_str(&ip.dst)})
                            }
                            _ => json!({"m": "other", "g": "none", "wf": true}),
                        };
                        outs.push(v);
                    }
                    let model: Vec<Value> = e["out"].as_array().unwrap().iter().map(|x| json!({"m": x["m"], "g": x["g"]})).collect();
                    t.ev(json!({"ev":"poll","now":now,"q":e["q"],"g":g,"tokens":tokens,"out":outs,"model":model}));
                }
            }
        }
        t.ev(json!({"ev":"end","now":0,"how":"replayed"}));
    }
    println!("{}", json!({"runs": sched.len(), "events": t.finish()}));
}
