//! Small utilities: argument parsing, deterministic PRNG, ndjson writer, panic capture.
use serde_json::Value;
use std::collections::HashMap;
use std::fs::File;
use std::io::{BufRead, BufReader, BufWriter, Write};

pub struct Args {
    pub map: HashMap<String, String>,
}

impl Args {
    pub fn parse(v: &[String]) -> Args {
        let mut map = HashMap::new();
        let mut i = 0;
        while i < v.len() {
            if let Some(k) = v[i].strip_prefix("--") {
                if i + 1 < v.len() && !v[i + 1].starts_with("--") {
                    map.insert(k.to_string(), v[i + 1].clone());
                    i += 2;
                } else {
                    map.insert(k.to_string(), "1".to_string());
                    i += 1;
                }
            } else {
                i += 1;
            }
        }
        Args { map }
    }
    pub fn str(&self, k: &str, d: &str) -> String {
        self.map.get(k).cloned().unwrap_or_else(|| d.to_string())
    }
    pub fn u64(&self, k: &str, d: u64) -> u64 {
        self.map.get(k).map(|s| s.parse().expect("numeric argument")).unwrap_or(d)
    }
    pub fn usize(&self, k: &str, d: usize) -> usize {
        self.u64(k, d as u64) as usize
    }
    pub fn flag(&self, k: &str) -> bool {
        self.map.get(k).map(|v| v != "0").unwrap_or(false)
    }
}

/// xoshiro256** seeded through splitmix64: deterministic for a given seed on every platform.
#[derive(Clone)]
pub struct Rng {
    s: [u64; 4],
}

impl Rng {
    pub fn new(seed: u64) -> Rng {
        let mut z = seed.wrapping_add(0x9e3779b97f4a7c15);
        let mut s = [0u64; 4];
        for x in s.iter_mut() {
            z = z.wrapping_add(0x9e3779b97f4a7c15);
            let mut y = z;
            y = (y ^ (y >> 30)).wrapping_mul(0xbf58476d1ce4e5b9);
            y = (y ^ (y >> 27)).wrapping_mul(0x94d049bb133111eb);
            *x = y ^ (y >> 31);
        }
        Rng { s }
    }
    pub fn next(&mut self) -> u64 {
        let r = self.s[1].wrapping_mul(5).rotate_left(7).wrapping_mul(9);
        let t = self.s[1] << 17;
        self.s[2] ^= self.s[0];
        self.s[3] ^= self.s[1];
        self.s[1] ^= self.s[2];
        self.s[0] ^= self.s[3];
        self.s[2] ^= t;
        self.s[3] = self.s[3].rotate_left(45);
        r
    }
    /// uniform in 0..n (n > 0)
    pub fn below(&mut self, n: u64) -> u64 {
        if n == 0 {
            0
        } else {
            self.next() % n
        }
    }
    pub fn range(&mut self, lo: u64, hi_incl: u64) -> u64 {
        if hi_incl <= lo {
            return lo;
        }
        lo + self.below(hi_incl - lo + 1)
    }
    /// uniform in lo..=m where m is picked uniformly from `choices`
    pub fn range_pick(&mut self, lo: u64, choices: &[u64]) -> u64 {
        let m = *self.pick(choices);
        self.range(lo, m.max(lo))
    }
    pub fn chance(&mut self, pct: u64) -> bool {
        self.below(100) < pct
    }
    pub fn pick<'a, T>(&mut self, v: &'a [T]) -> &'a T {
        &v[self.below(v.len() as u64) as usize]
    }
}

pub struct Trace {
    w: BufWriter<File>,
    pub events: u64,
}

impl Trace {
    pub fn create(path: &str) -> Trace {
        Trace { w: BufWriter::with_capacity(1 << 20, File::create(path).expect("create trace file")), events: 0 }
    }
    pub fn ev(&mut self, v: Value) {
        HEARTBEAT.fetch_add(1, std::sync::atomic::Ordering::Relaxed);
        serde_json::to_writer(&mut self.w, &v).unwrap();
        self.w.write_all(b"\n").unwrap();
        self.events += 1;
    }
    pub fn finish(mut self) -> u64 {
        self.w.flush().unwrap();
        self.events
    }
}

pub fn read_ndjson(path: &str) -> Vec<Value> {
    let f = BufReader::new(File::open(path).expect("open ndjson"));
    f.lines().map(|l| l.unwrap()).filter(|l| !l.trim().is_empty()).map(|l| serde_json::from_str(&l).expect("json line")).collect()
}

/// Runs `f`, turning a panic of the code under test into data (message).
pub fn guarded<R>(f: impl FnOnce() -> R) -> Result<R, String> {
    let r = std::panic::catch_unwind(std::panic::AssertUnwindSafe(f));
    match r {
        Ok(v) => Ok(v),
        Err(e) => {
            let msg = if let Some(s) = e.downcast_ref::<&str>() {
                s.to_string()
            } else if let Some(s) = e.downcast_ref::<String>() {
                s.clone()
            } else {
                "panic".to_string()
            };
            Err(msg)
        }
    }
}

pub static LAST_PANIC_LOC: std::sync::Mutex<String> = std::sync::Mutex::new(String::new());
pub static PANIC_STDERR: std::sync::atomic::AtomicBool = std::sync::atomic::AtomicBool::new(true);

pub fn quiet_panics() {
    // caught panics of the code under test are data (logged as events); keep a short line on stderr for diagnosis
    std::panic::set_hook(Box::new(|info| {
        let loc = info.location().map(|l| format!("{}:{}", l.file(), l.line())).unwrap_or_default();
        if PANIC_STDERR.load(std::sync::atomic::Ordering::Relaxed) {
            eprintln!("[panic] {}", loc);
        }
        if let Ok(mut g) = LAST_PANIC_LOC.lock() {
            *g = loc;
        }
    }));
}

/// location (file:line) of the most recent caught panic
pub fn last_panic_loc() -> String {
    LAST_PANIC_LOC.lock().map(|g| g.clone()).unwrap_or_default()
}

/// Optional stderr logger for smoltcp's own net_debug!/net_trace! output (enabled with VH_LOG=1); diagnosis only.
pub struct StderrLog;
impl log::Log for StderrLog {
    fn enabled(&self, _m: &log::Metadata) -> bool {
        true
    }
    fn log(&self, r: &log::Record) {
        eprintln!("[{}] {}", r.level(), r.args());
    }
    fn flush(&self) {}
}
pub fn init_log() {
    if std::env::var("VH_LOG").is_ok() {
        static L: StderrLog = StderrLog;
        let _ = log::set_logger(&L);
        log::set_max_level(log::LevelFilter::Trace);
    }
}

/// An instant returned by poll_at in whole milliseconds, rounded up, kept inside what TLC's 32-bit integers (and
/// sums with a few minutes) can hold: a deadline that far away is "never" for every world.
pub fn ms_ceil(t: smoltcp::time::Instant) -> i64 {
    t.total_micros().saturating_add(999).div_euclid(1000).clamp(0, 1_500_000_000)
}

/// Progress counter of the process: every logged event moves it (worlds may move it themselves between events).
pub static HEARTBEAT: std::sync::atomic::AtomicU64 = std::sync::atomic::AtomicU64::new(0);

/// A call into the code under test that does not return is a hang, and a hang is data: when the heartbeat stands
/// still for `secs` seconds a marker file `<out>.hang` is written and the process exits with status 3 (the runner
/// cuts the trace at its last complete line and appends a panic event saying so).
pub fn start_watchdog(out: String, secs: u64) {
    std::thread::spawn(move || {
        let mut last = 0u64;
        let mut idle = 0u64;
        loop {
            std::thread::sleep(std::time::Duration::from_millis(500));
            let b = HEARTBEAT.load(std::sync::atomic::Ordering::Relaxed);
            if b == last {
                idle += 1;
            } else {
                idle = 0;
                last = b;
            }
            if idle >= secs * 2 {
                if !std::path::Path::new(&(out.clone() + ".hang")).exists() {
                    std::fs::write(out.clone() + ".hang", "{\"k\":-1,\"s\":{},\"frame\":-1,\"off\":0,\"hex\":\"\"}").ok();
                }
                std::process::exit(3);
            }
        }
    });
}
