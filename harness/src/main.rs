mod asm;
mod util;

fn main() {
    let argv: Vec<String> = std::env::args().collect();
    if argv.len() < 2 {
        eprintln!("usage: vharness <world> [--key value]...");
        std::process::exit(2);
    }
    let args = util::Args::parse(&argv[2..]);
    util::quiet_panics();
    match argv[1].as_str() {
        "asm-replay" => asm::replay(&args),
        "asm-random" => asm::random(&args),
        w => {
            eprintln!("unknown world {w}");
            std::process::exit(2);
        }
    }
}
