mod asm;
mod csum;
mod dev;
mod dhcp;
mod dns;
mod frag;
mod frames;
mod garbage;
mod ingress;
mod lowpan;
mod mcast;
mod neigh;
mod tcp;
mod pbuf;
mod pollat;
mod ring;
mod slaac;
mod util;

fn main() {
    let argv: Vec<String> = std::env::args().collect();
    if argv.len() < 2 {
        eprintln!("usage: vharness <world> [--key value]...");
        std::process::exit(2);
    }
    let args = util::Args::parse(&argv[2..]);
    util::quiet_panics();
    util::init_log();
    // Safety net: a panic of the code under test that escapes the per-call guards (an observer, an API call) is
    // still data: the trace written so far is flushed by unwinding, a final panic event is appended, exit 0.
    let world = argv[1].clone();
    let outp = args.str("out", "");
    if !outp.is_empty() {
        util::start_watchdog(outp.clone(), 90);
    }
    let r = std::panic::catch_unwind(std::panic::AssertUnwindSafe(|| run_world(&world, &args)));
    if let Err(e) = r {
        let msg = if let Some(s) = e.downcast_ref::<&str>() { s.to_string() } else if let Some(s) = e.downcast_ref::<String>() { s.clone() } else { "panic".to_string() };
        let loc = util::last_panic_loc();
        // (smoltcp's own sources, or one of its dependencies reached through it)
        let under_test = loc.starts_with("/repo/") || loc.contains("/.cargo/registry/");
        if !under_test || outp.is_empty() {
            // a bug of the harness itself: a tool error
            eprintln!("harness panic: {} @ {}", msg, loc);
            std::process::exit(101);
        }
        use std::io::Write;
        if let Ok(mut f) = std::fs::OpenOptions::new().append(true).open(&outp) {
            let ev = serde_json::json!({"ev":"panic","escaped":true,"msg":format!("{} @ {}", msg, loc),"ep":-1,"now":-1,"op":"escaped","n":0,"off":0,"size":0,"w":0,"k":-1,"before":"?","s":{}});
            let _ = writeln!(f, "{}", ev);
        }
        println!("{}", serde_json::json!({"runs":0,"events":0,"escaped_panic":true}));
    }
}

fn run_world(world: &str, args: &util::Args) {
    let args = args;
    match world {
        "asm-replay" => asm::replay(&args),
        "asm-random" => asm::random(&args),
        "ring-replay" => ring::replay(&args),
        "frag-replay" => frag::replay(&args),
        "frag-random" => frag::random(&args),
        "neigh-random" => neigh::random(&args),
        "dhcp-random" => dhcp::random(&args),
        "csum-replay" => csum::replay(&args),
        "ingress-replay" => ingress::replay(&args),
        "lowpan-replay" => lowpan::replay(&args),
        "garbage-replay" => garbage::replay(&args),
        "garbage-random" => garbage::random(&args),
        "dns-random" => dns::random(&args),
        "dnsname-replay" => dns::name_replay(&args),
        "pollat-random" => pollat::random(&args),
        "mcast-replay" => mcast::replay(&args),
        "slaac-random" => slaac::random(&args),
        "slaac-replay" => slaac::replay(&args),
        "tcp-pair" => tcp::pair(&args),
        "tcp-peer-replay" => tcp::peer_replay(&args),
        "tcp-peer-random" => tcp::peer_random(&args),
        "pbuf-replay" => pbuf::replay(&args),
        "pbuf-random" => pbuf::random(&args),
        "ring-random" => ring::random(&args),
        w => {
            eprintln!("unknown world {w}");
            std::process::exit(2);
        }
    }
}
