mod asm;
mod csum;
mod dev;
mod dhcp;
mod dns;
mod frag;
mod frames;
mod garbage;
mod ingress;
mod lowpan;
mod neigh;
mod tcp;
mod pbuf;
mod pollat;
mod ring;
mod util;

fn main() {
    let argv: Vec<String> = std::env::args().collect();
    if argv.len() < 2 {
        eprintln!("usage: vharness <world> [--key value]...");
        std::process::exit(2);
    }
    let args = util::Args::parse(&argv[2..]);
    util::quiet_panics();
    util::init_log();
    match argv[1].as_str() {
        "asm-replay" => asm::replay(&args),
        "asm-random" => asm::random(&args),
        "ring-replay" => ring::replay(&args),
        "frag-replay" => frag::replay(&args),
        "frag-random" => frag::random(&args),
        "neigh-random" => neigh::random(&args),
        "dhcp-random" => dhcp::random(&args),
        "csum-replay" => csum::replay(&args),
        "ingress-replay" => ingress::replay(&args),
        "lowpan-replay" => lowpan::replay(&args),
        "garbage-replay" => garbage::replay(&args),
        "garbage-random" => garbage::random(&args),
        "dns-random" => dns::random(&args),
        "dnsname-replay" => dns::name_replay(&args),
        "pollat-random" => pollat::random(&args),
        "tcp-pair" => tcp::pair(&args),
        "tcp-peer-replay" => tcp::peer_replay(&args),
        "tcp-peer-random" => tcp::peer_random(&args),
        "pbuf-replay" => pbuf::replay(&args),
        "pbuf-random" => pbuf::random(&args),
        "ring-random" => ring::random(&args),
        w => {
            eprintln!("unknown world {w}");
            std::process::exit(2);
        }
    }
}
