//! World `ring`: storage::RingBuffer<u32> driven by TLC schedules or a seeded random driver.
//! Elements are fresh tokens (1, 2, 3, ...) so that "each element exactly once, in order" is observable.
use crate::util::*;
use serde_json::{json, Value};
use smoltcp::storage::RingBuffer;

pub struct RingW {
    pub rb: RingBuffer<'static, u32>,
    pub tok: u32,
}

impl RingW {
    pub fn new(cap: usize) -> RingW {
        RingW { rb: RingBuffer::new(vec![0u32; cap]), tok: 0 }
    }
    fn obs(&self, mut v: Value) -> Value {
        let o = v.as_object_mut().unwrap();
        o.insert("len".into(), json!(self.rb.len()));
        o.insert("win".into(), json!(self.rb.window()));
        o.insert("empty".into(), json!(self.rb.is_empty()));
        o.insert("full".into(), json!(self.rb.is_full()));
        o.insert("cap".into(), json!(self.rb.capacity()));
        v
    }
    pub fn step(&mut self, op: &str, n: usize, off: usize, decline: bool) -> Value {
        let tok0 = self.tok;
        let decline = decline && op.ends_with("one_with");
        let r = guarded(|| {
            let rb = &mut self.rb;
            let tok = &mut self.tok;
            let toks = |t: u32, n: usize| -> Vec<u32> { (1..=n as u32).map(|i| t + i).collect() };
            let mut k = 0usize;
            let mut data: Vec<u32> = vec![];
            let mut err = "none";
            match op {
                "enqueue_one" => match rb.enqueue_one() {
                    Ok(slot) => {
                        *tok += 1;
                        *slot = *tok;
                        data.push(*tok);
                        k = 1;
                    }
                    Err(_) => err = "full",
                },
                "enqueue_one_with" => {
                    let t = *tok + 1;
                    match rb.enqueue_one_with(|slot| {
                        if decline {
                            Err(())
                        } else {
                            *slot = t;
                            Ok(())
                        }
                    }) {
                        Ok(Ok(())) => {
                            *tok += 1;
                            data.push(t);
                            k = 1;
                        }
                        Ok(Err(())) => {}
                        Err(_) => err = "full",
                    }
                }
                "dequeue_one" => match rb.dequeue_one() {
                    Ok(v) => {
                        data.push(*v);
                        k = 1;
                    }
                    Err(_) => err = "empty",
                },
                "dequeue_one_with" => {
                    let mut seen = None;
                    match rb.dequeue_one_with(|v| {
                        seen = Some(*v);
                        if decline {
                            Err(())
                        } else {
                            Ok(())
                        }
                    }) {
                        Ok(_) => {
                            data.push(seen.unwrap());
                            k = 1;
                        }
                        Err(_) => err = "empty",
                    }
                }
                "enqueue_many" => {
                    let v = toks(*tok, n);
                    let s = rb.enqueue_many(n);
                    k = s.len();
                    s.copy_from_slice(&v[..k]);
                    *tok += n as u32;
                    data = v;
                }
                "enqueue_many_with" => {
                    let v = toks(*tok, n);
                    let (sz, ()) = rb.enqueue_many_with(|buf| {
                        let sz = n.min(buf.len());
                        buf[..sz].copy_from_slice(&v[..sz]);
                        (sz, ())
                    });
                    k = sz;
                    *tok += n as u32;
                    data = v;
                }
                "enqueue_slice" => {
                    let v = toks(*tok, n);
                    k = rb.enqueue_slice(&v);
                    *tok += n as u32;
                    data = v;
                }
                "dequeue_many" => {
                    let s = rb.dequeue_many(n);
                    k = s.len();
                    data = s.to_vec();
                }
                "dequeue_many_with" => {
                    let (sz, d) = rb.dequeue_many_with(|buf| {
                        let sz = n.min(buf.len());
                        (sz, buf[..sz].to_vec())
                    });
                    k = sz;
                    data = d;
                }
                "dequeue_slice" => {
                    let mut b = vec![0u32; n];
                    k = rb.dequeue_slice(&mut b);
                    b.truncate(k);
                    data = b;
                }
                "get_unallocated" => {
                    let s = rb.get_unallocated(off, n);
                    k = s.len();
                    data = s.to_vec();
                }
                "write_unallocated" => {
                    let v = toks(*tok, n);
                    k = rb.write_unallocated(off, &v);
                    *tok += n as u32;
                    data = v;
                }
                "enqueue_unallocated" => rb.enqueue_unallocated(n),
                "get_allocated" => {
                    let s = rb.get_allocated(off, n);
                    k = s.len();
                    data = s.to_vec();
                }
                "read_allocated" => {
                    let mut b = vec![0u32; n];
                    k = rb.read_allocated(off, &mut b);
                    b.truncate(k);
                    data = b;
                }
                "dequeue_allocated" => rb.dequeue_allocated(n),
                "clear" => rb.clear(),
                _ => panic!("harness: unknown ring op {op}"),
            }
            (k, data, err)
        });
        match r {
            Ok((k, data, err)) => {
                // the observers are code under test as well (window() underflows when the length exceeds the capacity)
                let v = json!({"ev":"op","op":op,"n":n,"off":off,"decline":decline,"k":k,"data":data,"err":err});
                match guarded(|| self.obs(v)) {
                    Ok(v) => v,
                    Err(m) => json!({"ev":"panic","op":op,"n":n,"off":off,"msg":format!("observer: {}", m)}),
                }
            }
            Err(m) => {
                self.tok = tok0;
                json!({"ev":"panic","op":op,"n":n,"off":off,"msg":m})
            }
        }
    }
}

pub fn replay(args: &Args) {
    let sched = read_ndjson(&args.str("sched", ""));
    let mut t = Trace::create(&args.str("out", ""));
    let cap = args.usize("cap", 2);
    for (k, sc) in sched.iter().enumerate() {
        let mut w = RingW::new(cap);
        t.ev(json!({"ev":"reset","run":k,"world":"ring","C":cap,"src":"tlc"}));
        for st in sc["steps"].as_array().unwrap() {
            let mut e = w.step(st["op"].as_str().unwrap(), st["n"].as_u64().unwrap() as usize, st["off"].as_u64().unwrap() as usize, st["decline"].as_bool().unwrap());
            let p = e["ev"] == "panic";
            if !p {
                e["xk"] = st["k"].clone();
            }
            t.ev(e);
            if p {
                break;
            }
        }
    }
    println!("{}", json!({"runs": sched.len(), "events": t.finish()}));
}

pub const OPS: [&str; 17] = ["enqueue_one", "enqueue_one_with", "dequeue_one", "dequeue_one_with", "enqueue_many", "enqueue_many_with",
    "enqueue_slice", "dequeue_many", "dequeue_many_with", "dequeue_slice", "get_unallocated", "write_unallocated",
    "enqueue_unallocated", "get_allocated", "read_allocated", "dequeue_allocated", "clear"];

pub fn random(args: &Args) {
    let seed = args.u64("seed", 1);
    let mut rng = Rng::new(seed);
    let runs = args.usize("runs", 100);
    let ops = args.usize("ops", 300);
    let maxcap = args.u64("maxcap", 16);
    let mut t = Trace::create(&args.str("out", ""));
    for k in 0..runs {
        let cap = if rng.chance(10) { rng.below(3) } else { rng.range(1, maxcap) } as usize;
        let mut w = RingW::new(cap);
        t.ev(json!({"ev":"reset","run":k,"world":"ring","C":cap,"src":"random","seed":seed}));
        // mode 0: queue interface only; mode 1: reassembly style (write_unallocated + enqueue_unallocated + dequeue); mode 2: everything
        let mode = rng.below(3);
        for _ in 0..ops {
            let op = match mode {
                0 => *rng.pick(&["enqueue_one", "enqueue_one_with", "dequeue_one", "dequeue_one_with", "enqueue_many", "enqueue_many_with",
                    "enqueue_slice", "dequeue_many", "dequeue_many_with", "dequeue_slice", "get_allocated", "read_allocated", "dequeue_allocated"]),
                1 => *rng.pick(&["write_unallocated", "write_unallocated", "enqueue_unallocated", "dequeue_many", "dequeue_slice", "dequeue_many_with",
                    "get_allocated", "read_allocated", "get_unallocated", "dequeue_allocated", "dequeue_one"]),
                _ => {
                    if rng.chance(1) {
                        "clear"
                    } else {
                        OPS[rng.below(16) as usize]
                    }
                }
            };
            let c = cap as u64;
            let mut n = if rng.chance(70) { rng.range(0, (c / 2).max(1)) } else { rng.range(0, c + 1) } as usize;
            let off = if rng.chance(60) { 0 } else { rng.range(0, c + 1) } as usize;
            if op == "enqueue_unallocated" {
                n = n.min(w.rb.window());
            }
            if op == "dequeue_allocated" {
                n = n.min(w.rb.len());
            }
            let e = w.step(op, n, off, rng.chance(30));
            let p = e["ev"] == "panic";
            t.ev(e);
            if p {
                break;
            }
        }
    }
    println!("{}", json!({"runs": runs, "events": t.finish()}));
}
