//! World `asm`: storage::Assembler driven by TLC-exported schedules or by a seeded random driver.
//! Every step logs the call, its result and all observers (peek_front, is_empty, iter_data).
use crate::util::*;
use serde_json::{json, Value};
use smoltcp::storage::Assembler;

fn observe(a: &Assembler) -> (usize, bool, Vec<[usize; 2]>) {
    (a.peek_front(), a.is_empty(), a.iter_data().map(|(l, r)| [l, r]).collect())
}

/// Applies one operation; returns the logged event.
pub fn step(a: &mut Assembler, op: &str, o: usize, s: usize) -> Value {
    let r = guarded(|| match op {
        "add" => match a.add(o, s) {
            Ok(()) => (true, 0usize),
            Err(_) => (false, 0),
        },
        "remove_front" => (true, a.remove_front()),
        "add_then_remove_front" => match a.add_then_remove_front(o, s) {
            Ok(n) => (true, n),
            Err(_) => (false, 0),
        },
        "clear" => {
            a.clear();
            (true, 0)
        }
        _ => panic!("harness: unknown op {op}"),
    });
    match r {
        Ok((ok, n)) => match guarded(|| observe(a)) {
            Ok((peek, empty, runs)) => json!({"ev":"op","op":op,"o":o,"s":s,"ok":ok,"n":n,"peek":peek,"empty":empty,"runs":runs}),
            Err(m) => json!({"ev":"panic","op":"observe","msg":m}),
        },
        Err(m) => json!({"ev":"panic","op":op,"o":o,"s":s,"msg":m}),
    }
}

pub fn replay(args: &Args) {
    let sched = read_ndjson(&args.str("sched", ""));
    let mut t = Trace::create(&args.str("out", ""));
    let n = args.usize("n", 4);
    for (k, sc) in sched.iter().enumerate() {
        let mut a = Assembler::new();
        t.ev(json!({"ev":"reset","run":k,"world":"asm","N":n,"src":"tlc"}));
        for st in sc["steps"].as_array().unwrap() {
            let e = step(&mut a, st["op"].as_str().unwrap(), st["o"].as_u64().unwrap() as usize, st["s"].as_u64().unwrap() as usize);
            let p = e["ev"] == "panic";
            t.ev(e);
            if p {
                break;
            }
        }
    }
    println!("{}", json!({"runs": sched.len(), "events": t.finish()}));
}

pub fn random(args: &Args) {
    let mut rng = Rng::new(args.u64("seed", 1));
    let runs = args.usize("runs", 100);
    let ops = args.usize("ops", 200);
    let u = args.u64("u", 24);
    let n = args.usize("n", 4);
    let mut t = Trace::create(&args.str("out", ""));
    for k in 0..runs {
        let mut a = Assembler::new();
        t.ev(json!({"ev":"reset","run":k,"world":"asm","N":n,"src":"random","seed":args.u64("seed",1)}));
        // bias: small islands so that the range limit is reached
        let island = rng.range(1, 3);
        for _ in 0..ops {
            let c = rng.below(100);
            let (op, o, s) = if c < 45 {
                let o = rng.below(u);
                ("add", o, rng.range(0, island.min(u - o)))
            } else if c < 75 {
                let o = if rng.chance(40) { 0 } else { rng.below(u) };
                ("add_then_remove_front", o, rng.range(0, (island + 1).min(u - o)))
            } else if c < 93 {
                ("remove_front", 0, 0)
            } else if c < 95 {
                ("clear", 0, 0)
            } else {
                let o = rng.below(u);
                ("add", o, rng.range(0, u - o))
            };
            let e = step(&mut a, op, o as usize, s as usize);
            let p = e["ev"] == "panic";
            t.ev(e);
            if p {
                break;
            }
        }
    }
    println!("{}", json!({"runs": runs, "events": t.finish()}));
}
