//! World `dns` (C19): a real dns::Socket on a raw-IP interface against scripted, hostile servers, polled at
//! poll_at; plus `dnsname-replay`: TLC-enumerated byte arrays fed to wire::DnsPacket::parse_name.
use crate::dev::QDev;
use crate::frames::*;
use crate::util::*;
use serde_json::{json, Value};
use smoltcp::iface::{Config, Interface, SocketSet};
use smoltcp::phy::Medium;
use smoltcp::socket::dns;
use smoltcp::time::Instant;
use smoltcp::wire::{DnsPacket, DnsQueryType, HardwareAddress, IpAddress, IpCidr};

pub fn name_replay(args: &Args) {
    let cases = read_ndjson(&args.str("sched", ""));
    let mut t = Trace::create(&args.str("out", ""));
    t.ev(json!({"ev":"reset","run":0,"world":"dnsname"}));
    for c in &cases {
        let buf: Vec<u8> = c["buf"].as_array().unwrap().iter().map(|x| x.as_u64().unwrap() as u8).collect();
        for off in 0..=buf.len() {
            let r = guarded(|| {
                let p = DnsPacket::new_unchecked(&buf[..]);
                let mut labels: Vec<Vec<u8>> = vec![];
                let mut ok = true;
                let mut steps = 0;
                for l in p.parse_name(&buf[off..]) {
                    steps += 1;
                    if steps > 1000 {
                        ok = false;
                        break;
                    }
                    match l {
                        Ok(x) => labels.push(x.to_vec()),
                        Err(_) => {
                            ok = false;
                            break;
                        }
                    }
                }
                (ok, labels, steps)
            });
            match r {
                Ok((ok, labels, steps)) => t.ev(json!({"ev":"name","buf":buf,"off":off,"ok":ok,"labels":labels,"steps":steps})),
                Err(m) => t.ev(json!({"ev":"panic","buf":buf,"off":off,"msg":m})),
            }
        }
    }
    println!("{}", json!({"runs": 1, "events": t.finish()}));
}

fn enc_name(n: &str) -> Vec<u8> {
    let mut v = vec![];
    for l in n.split('.') {
        if l.is_empty() {
            continue;
        }
        v.push(l.len() as u8);
        v.extend_from_slice(l.as_bytes());
    }
    v.push(0);
    v
}

#[derive(Clone)]
pub struct Rr {
    pub name: String,
    pub ptr: bool, // encode the owner as a pointer to the question name
    pub ty: u16,   // 1 A, 5 CNAME, 28 AAAA, 16 TXT
    pub a: [u8; 4],
    pub cname: String,
}

#[allow(clippy::too_many_arguments)]
pub fn dns_msg(id: u16, flags: u16, qname: &str, qtype: u16, qd: u16, rrs: &[Rr], trunc: Option<usize>, evil_ptr: u8) -> Vec<u8> {
    let mut m = vec![];
    m.extend_from_slice(&id.to_be_bytes());
    m.extend_from_slice(&flags.to_be_bytes());
    m.extend_from_slice(&qd.to_be_bytes());
    m.extend_from_slice(&(rrs.len() as u16).to_be_bytes());
    m.extend_from_slice(&[0, 0, 0, 0]);
    m.extend_from_slice(&enc_name(qname));
    m.extend_from_slice(&qtype.to_be_bytes());
    m.extend_from_slice(&[0, 1]);
    for r in rrs {
        match evil_ptr {
            1 => {
                let here = m.len() as u16; // self pointer
                m.extend_from_slice(&(0xC000 | here).to_be_bytes());
            }
            2 => {
                let fwd = (m.len() + 20) as u16; // forward pointer
                m.extend_from_slice(&(0xC000 | fwd).to_be_bytes());
            }
            _ => {
                if r.ptr {
                    m.extend_from_slice(&[0xC0, 12]);
                } else {
                    m.extend_from_slice(&enc_name(&r.name));
                }
            }
        }
        m.extend_from_slice(&r.ty.to_be_bytes());
        m.extend_from_slice(&[0, 1, 0, 0, 0, 60]);
        match r.ty {
            1 => {
                m.extend_from_slice(&[0, 4]);
                m.extend_from_slice(&r.a);
            }
            5 => {
                let n = enc_name(&r.cname);
                m.extend_from_slice(&(n.len() as u16).to_be_bytes());
                m.extend_from_slice(&n);
            }
            _ => {
                m.extend_from_slice(&[0, 3, 2, b'h', b'i']);
            }
        }
    }
    if let Some(k) = trunc {
        m.truncate(k.min(m.len()));
    }
    m
}

/// A response whose question name cannot be decoded (0: a pointer to itself, 1: the queried name's first label and then a
/// pointer past the end of the message, 2: a pointer to the first answer record's owner field, which points back -- a loop
/// of two) and whose (last) answer record spells the queried name in full.
pub fn dns_msg_badq(id: u16, kind: u8, name: &str, qtype: u16, a: [u8; 4]) -> Vec<u8> {
    let mut m = vec![];
    m.extend_from_slice(&id.to_be_bytes());
    m.extend_from_slice(&0x8180u16.to_be_bytes());
    m.extend_from_slice(&[0, 1, 0, 1, 0, 0, 0, 0]);
    match kind {
        0 => m.extend_from_slice(&[0xC0, 12]),
        1 => {
            let first = name.split('.').next().unwrap_or("a");
            m.push(first.len() as u8);
            m.extend_from_slice(first.as_bytes());
            m.extend_from_slice(&[0xFF, 0xF0]);
        }
        _ => {
            // the question name is a pointer to the answer's owner field, which points back at the question name
            m.extend_from_slice(&[0xC0, 18]);
        }
    }
    m.extend_from_slice(&qtype.to_be_bytes());
    m.extend_from_slice(&[0, 1]);
    if kind >= 2 {
        // (offset 18) owner: pointer back to offset 12; a second record spells the name
        m[7] = 2;
        m.extend_from_slice(&[0xC0, 12]);
        m.extend_from_slice(&[0, 1, 0, 1, 0, 0, 0, 60, 0, 4]);
        m.extend_from_slice(&a);
    }
    m.extend_from_slice(&enc_name(name));
    m.extend_from_slice(&[0, 1, 0, 1, 0, 0, 0, 60, 0, 4]);
    m.extend_from_slice(&a);
    m
}

pub fn parse_query(p: &[u8]) -> Option<(u16, String, u16)> {
    if p.len() < 17 {
        return None;
    }
    let id = u16::from_be_bytes([p[0], p[1]]);
    let mut i = 12;
    let mut name = String::new();
    while i < p.len() && p[i] != 0 {
        let l = p[i] as usize;
        if l >= 64 || i + 1 + l > p.len() {
            return None;
        }
        if !name.is_empty() {
            name.push('.');
        }
        name.push_str(&String::from_utf8_lossy(&p[i + 1..i + 1 + l]));
        i += 1 + l;
    }
    if i + 5 > p.len() {
        return None;
    }
    Some((id, name, u16::from_be_bytes([p[i + 1], p[i + 2]])))
}

pub fn random(args: &Args) {
    let seed0 = args.u64("seed", 1);
    let runs = args.usize("runs", 20);
    let nservers = args.usize("servers", 1);
    let mut t = Trace::create(&args.str("out", ""));
    // (the last name is resolved by multicast DNS: first the IPv6 group, after 10 s the IPv4 group)
    // (the last two are as long as a name may be, 255 octets on the wire, and three octets short of that)
    let long_a = format!("{}.{}.{}.{}", "a".repeat(63), "b".repeat(63), "c".repeat(63), "d".repeat(61));
    let long_b = format!("{}.{}.{}.{}", "a".repeat(63), "b".repeat(63), "c".repeat(63), "d".repeat(58));
    let names = ["a.example.org", "b.example.org", "www.smoltcp.net", "printer.local", long_a.as_str(), long_b.as_str()];
    for run in 0..runs {
        let mut rng = Rng::new(seed0.wrapping_mul(13_000_003).wrapping_add(run as u64));
        let mut dev = QDev::new(Medium::Ip, 1500);
        let mut c = Config::new(HardwareAddress::Ip);
        c.random_seed = rng.next();
        let mut iface = Interface::new(c, &mut dev, Instant::from_millis(0));
        iface.update_ip_addrs(|a| {
            a.push(IpCidr::new(IpAddress::v4(10, 0, 0, 1), 24)).unwrap();
            a.push(IpCidr::new(IpAddress::v6(0xfd00, 0, 0, 0, 0, 0, 0, 1), 64)).unwrap();
        });
        let servers: Vec<IpAddress> = (0..nservers).map(|k| IpAddress::v4(10, 0, 0, 53 + k as u8)).collect();
        let sock = dns::Socket::new(&servers, vec![None, None]);
        let mut sockets = SocketSet::new(vec![]);
        let h = sockets.add(sock);
        t.ev(json!({"ev":"reset","run":run,"world":"dns","seed":seed0,"cfg":{"servers":nservers,"bound": (nservers as i64) * 26000 + 5000}}));
        let mut now: i64 = rng.range(0, 3000) as i64;
        let nq = rng.range(1, 2) as usize;
        let mut handles = vec![];
        // the second query starts together with the first or up to 6 s later (queries at different back-off stages)
        let start2: i64 = if nq == 2 && rng.chance(60) { now + rng.range(1, 6000) as i64 } else { now };
        let mut started = 0usize;
        for q in 0..nq {
            if q == 1 && start2 > now {
                break;
            }
            let name = names[if run % 8 == 6 { 4 + (run / 8) % 2 } else if rng.chance(25) { 3 } else { rng.below(3) as usize }];
            let r = sockets.get_mut::<dns::Socket>(h).start_query(iface.context(), name, DnsQueryType::A);
            t.ev(json!({"ev":"api","now":now,"call":"start","q":q,"name":name,"ok":r.is_ok()}));
            started += 1;
            if let Ok(hd) = r {
                handles.push((q, hd, name, true));
            }
        }
        let probing = rng.chance(60);
        // server behaviour
        let mode = rng.below(5); // 0 honest, 1 silent, 2 hostile then honest, 3 hostile only, 4 lossy honest
        let mut pending: Vec<(i64, Vec<u8>)> = vec![];
        let mut steps = 0;
        let horizon = now + (nservers as i64) * 40_000 + 20_000;
        while now < horizon && steps < 400 && (handles.iter().any(|x| x.3) || started < nq) {
            steps += 1;
            if started < nq && now >= start2 {
                let name = names[if run % 8 == 6 { 4 + (run / 8) % 2 } else if rng.chance(25) { 3 } else { rng.below(3) as usize }];
                let r = sockets.get_mut::<dns::Socket>(h).start_query(iface.context(), name, DnsQueryType::A);
                t.ev(json!({"ev":"api","now":now,"call":"start","q":1,"name":name,"ok":r.is_ok()}));
                started += 1;
                if let Ok(hd) = r {
                    handles.push((1, hd, name, true));
                }
            }
            let d = iface.poll_at(Instant::from_millis(now), &sockets).map(crate::util::ms_ceil).unwrap_or(-1);
            pending.sort_by_key(|x| x.0);
            let next_rx = pending.first().map(|x| x.0).unwrap_or(i64::MAX);
            let mut tpoll = if d < 0 { now + 1000 } else { d.max(now) };
            if started < nq {
                tpoll = tpoll.min(start2.max(now));
            }
            let mut frames = vec![];
            if next_rx != i64::MAX && next_rx <= tpoll {
                tpoll = next_rx.max(now);
                while !pending.is_empty() && pending[0].0 <= tpoll {
                    frames.push(pending.remove(0).1);
                }
            }
            // C13 probe: sometimes poll strictly before the announced deadline with nothing arriving: nothing may happen
            let mut probe = false;
            if probing && frames.is_empty() && rng.chance(35) {
                let lim = (if d < 0 { now + 1000 } else { d }).min(next_rx).min(if started < nq { start2 } else { i64::MAX });
                if lim > now + 1 {
                    tpoll = now + 1 + rng.below((lim - now - 1) as u64) as i64;
                    probe = true;
                }
            }
            now = tpoll.min(horizon);
            // projections of the responses about to be delivered
            let mut rxp: Vec<Value> = vec![];
            for f in &frames {
                rxp.push(proj_resp(f));
            }
            for f in frames {
                dev.rx.push_back(f);
            }
            let r = guarded(|| {
                iface.poll(Instant::from_millis(now), &mut dev, &mut sockets);
            });
            if let Err(m) = r {
                t.ev(json!({"ev":"panic","now":now,"msg":m}));
                break;
            }
            let out = dev.take_tx();
            let pa = iface.poll_at(Instant::from_millis(now), &sockets).map(crate::util::ms_ceil).unwrap_or(-1);
            let mut outs: Vec<Value> = vec![];
            for o in &out {
                let Some(ip) = parse_ip(o) else { continue };
                let L4::Udp { sport, dport, payload, .. } = &ip.l4 else {
                    outs.push(json!({"k": "other"}));
                    continue;
                };
                let Some((id, name, qt)) = parse_query(payload) else {
                    outs.push(json!({"k": "udp-other"}));
                    continue;
                };
                outs.push(json!({"k":"query","id":id,"name":name,"qtype":qt,"sport":sport,"dport":dport,"dst":addr_str(&ip.dst)}));
                // the server answers
                let honest = match mode { 0 => true, 1 => false, 2 => steps > 3, 3 => false, _ => rng.chance(40) };
                if mode == 1 {
                    continue;
                }
                if ip.dst.len() != 4 {
                    // the IPv6 phase of a multicast query: nobody answers there
                    continue;
                }
                let mut dst_ip = [0u8; 4];
                dst_ip.copy_from_slice(&ip.dst);
                // a multicast query is answered by a neighbour from its own address and the mDNS port
                let (dst_ip, srv_port): ([u8; 4], u16) = if *dport == 5353 { ([10, 0, 0, 77], 5353) } else { (dst_ip, 53) };
                let delay = rng.range(1, 400) as i64;
                if honest {
                    let rrs = match rng.below(4) {
                        0 => vec![Rr { name: name.clone(), ptr: true, ty: 1, a: [93, 184, 216, 34], cname: String::new() }],
                        1 => vec![Rr { name: name.clone(), ptr: false, ty: 5, a: [0; 4], cname: "cdn.example.net".into() },
                                  Rr { name: "cdn.example.net".into(), ptr: false, ty: 1, a: [1, 2, 3, 4], cname: String::new() }],
                        2 => vec![Rr { name: "other.example.org".into(), ptr: false, ty: 1, a: [6, 6, 6, 6], cname: String::new() },
                                  Rr { name: name.clone(), ptr: true, ty: 1, a: [5, 5, 5, 5], cname: String::new() }],
                        _ => vec![Rr { name: name.clone(), ptr: true, ty: 16, a: [0; 4], cname: String::new() },
                                  Rr { name: name.clone(), ptr: true, ty: 1, a: [7, 7, 7, 7], cname: String::new() }],
                    };
                    let m = dns_msg(id, 0x8180, &name, qt, 1, &rrs, None, 0);
                    pending.push((now + delay, ipv4_packet(dst_ip, [10, 0, 0, 1], 17, 1, 64, &udp_datagram(srv_port, *sport, &m), true)));
                } else {
                    // hostile variants: each must NOT complete the query with an address
                    let v = rng.below(22);
                    if v >= 19 {
                        // the question does not repeat the queried name: it cannot be decoded at all
                        let m = dns_msg_badq(id, (v - 19) as u8, &name, qt, [66, 66, 66, 66]);
                        pending.push((now + delay, ipv4_packet(dst_ip, [10, 0, 0, 1], 17, 1, 64, &udp_datagram(srv_port, *sport, &m), true)));
                        continue;
                    }
                    if v == 18 {
                        // two steps: a response for the right question whose first record is a CNAME to a foreign name and whose
                        // second record is cut short, then a response that repeats the CNAME target (not the query's name) as its
                        // question and carries an address for it -- the query's question is still the original one
                        let target = "alias.evil.net".to_string();
                        let mut m1 = dns_msg(id, 0x8180, &name, qt, 1, &[Rr { name: name.clone(), ptr: true, ty: 5, a: [0; 4], cname: target.clone() },
                                                                          Rr { name: target.clone(), ptr: false, ty: 1, a: [66, 66, 66, 66], cname: String::new() }], None, 0);
                        let l = m1.len();
                        m1.truncate(l - 3);
                        let m2 = dns_msg(id, 0x8180, &target, qt, 1, &[Rr { name: target.clone(), ptr: true, ty: 1, a: [66, 66, 66, 66], cname: String::new() }], None, 0);
                        pending.push((now + delay, ipv4_packet(dst_ip, [10, 0, 0, 1], 17, 1, 64, &udp_datagram(srv_port, *sport, &m1), true)));
                        pending.push((now + delay + rng.range(1, 50) as i64, ipv4_packet(dst_ip, [10, 0, 0, 1], 17, 1, 64, &udp_datagram(srv_port, *sport, &m2), true)));
                        continue;
                    }
                    let good = vec![Rr { name: name.clone(), ptr: true, ty: 1, a: [66, 66, 66, 66], cname: String::new() }];
                    let (mid, mflags, mname, mqt, qd, rrs, trunc, evil, src, sp, dp): (u16, u16, String, u16, u16, Vec<Rr>, Option<usize>, u8, [u8; 4], u16, u16) = match v {
                        0 => (id ^ 1, 0x8180, name.clone(), qt, 1, good, None, 0, dst_ip, srv_port, *sport),                 // wrong transaction id
                        1 => (id, 0x8180, name.clone(), qt, 1, good, None, 0, dst_ip, srv_port, sport.wrapping_add(1)),      // wrong destination port
                        2 => (id, 0x8180, name.clone(), qt, 1, good, None, 0, [10, 0, 0, 99], 53, *sport),             // not a configured server
                        3 => (id, 0x8180, name.clone(), qt, 1, good, None, 0, dst_ip, 54, *sport),                     // wrong source port
                        4 => (id, 0x8180, "evil.example.org".into(), qt, 1, vec![Rr { name: "evil.example.org".into(), ptr: true, ty: 1, a: [66, 66, 66, 66], cname: String::new() }], None, 0, dst_ip, srv_port, *sport), // other question
                        5 => (id, 0x8180, name.clone(), 28, 1, good, None, 0, dst_ip, srv_port, *sport),                     // other question type
                        6 => (id, 0x0100, name.clone(), qt, 1, good, None, 0, dst_ip, srv_port, *sport),                     // not a response (QR clear)
                        7 => (id, 0x8180, name.clone(), qt, 1, good, Some(rng.range(0, 40) as usize), 0, dst_ip, srv_port, *sport), // truncated
                        8 => (id, 0x8180, name.clone(), qt, 1, good, None, 1, dst_ip, srv_port, *sport),                     // self-referential owner pointer
                        9 => (id, 0x8180, name.clone(), qt, 1, good, None, 2, dst_ip, srv_port, *sport),                     // forward owner pointer
                        10 => (id, 0x8180, name.clone(), qt, 1, vec![Rr { name: "other.example.org".into(), ptr: false, ty: 1, a: [66, 66, 66, 66], cname: String::new() }], None, 0, dst_ip, srv_port, *sport), // only foreign records
                        // names that are label-wise prefixes / extensions of the queried name
                        11 => { let q2 = name.split('.').next().unwrap().to_string(); (id, 0x8180, q2.clone(), qt, 1, vec![Rr { name: q2, ptr: true, ty: 1, a: [66, 66, 66, 66], cname: String::new() }], None, 0, dst_ip, srv_port, *sport) }
                        12 => { let q2 = format!("{}.evil.net", name); (id, 0x8180, q2.clone(), qt, 1, vec![Rr { name: q2, ptr: true, ty: 1, a: [66, 66, 66, 66], cname: String::new() }], None, 0, dst_ip, srv_port, *sport) }
                        13 => (id, 0x8180, name.clone(), qt, 1, vec![Rr { name: format!("{}.evil.net", name), ptr: false, ty: 1, a: [66, 66, 66, 66], cname: String::new() }], None, 0, dst_ip, srv_port, *sport),
                        14 => (id, 0x8180, name.clone(), qt, 1, vec![Rr { name: name.split('.').next().unwrap().to_string(), ptr: false, ty: 1, a: [66, 66, 66, 66], cname: String::new() }], None, 0, dst_ip, srv_port, *sport),
                        // a CNAME owned by a foreign name (not on the chain from the queried name) and an address for its target,
                        // alone / in front of / behind a genuine record for the queried name
                        15 => (id, 0x8180, name.clone(), qt, 1, vec![Rr { name: "other.example.org".into(), ptr: false, ty: 5, a: [0; 4], cname: "alias.evil.net".into() },
                                                                       Rr { name: "alias.evil.net".into(), ptr: false, ty: 1, a: [66, 66, 66, 66], cname: String::new() }], None, 0, dst_ip, srv_port, *sport),
                        16 => (id, 0x8180, name.clone(), qt, 1, vec![Rr { name: "other.example.org".into(), ptr: false, ty: 5, a: [0; 4], cname: "alias.evil.net".into() },
                                                                       Rr { name: "alias.evil.net".into(), ptr: false, ty: 1, a: [66, 66, 66, 66], cname: String::new() },
                                                                       Rr { name: name.clone(), ptr: true, ty: 1, a: [1, 2, 3, 4], cname: String::new() }], None, 0, dst_ip, srv_port, *sport),
                        _ => (id, 0x8180, name.clone(), qt, 1, vec![Rr { name: name.clone(), ptr: true, ty: 1, a: [1, 2, 3, 4], cname: String::new() },
                                                                     Rr { name: "other.example.org".into(), ptr: false, ty: 5, a: [0; 4], cname: "alias.evil.net".into() },
                                                                     Rr { name: "alias.evil.net".into(), ptr: false, ty: 1, a: [66, 66, 66, 66], cname: String::new() }], None, 0, dst_ip, srv_port, *sport),
                    };
                    let m = dns_msg(mid, mflags, &mname, mqt, qd, &rrs, trunc, evil);
                    pending.push((now + delay, ipv4_packet(src, [10, 0, 0, 1], 17, 1, 64, &udp_datagram(sp, dp, &m), true)));
                }
            }
            // application: look at query results
            let mut results: Vec<Value> = vec![];
            for hd in handles.iter_mut() {
                if !hd.3 {
                    continue;
                }
                match sockets.get_mut::<dns::Socket>(h).get_query_result(hd.1) {
                    Ok(addrs) => {
                        hd.3 = false;
                        results.push(json!({"q": hd.0, "res": "ok", "addrs": addrs.iter().map(|a| a.to_string()).collect::<Vec<_>>()}));
                    }
                    Err(dns::GetQueryResultError::Failed) => {
                        hd.3 = false;
                        results.push(json!({"q": hd.0, "res": "failed", "addrs": []}));
                    }
                    Err(dns::GetQueryResultError::Pending) => {}
                }
            }
            t.ev(json!({"ev":"poll","now":now,"deadline":d,"rx":rxp,"out":outs,"pa":pa,"results":results,"probe":probe}));
        }
        let open: Vec<usize> = handles.iter().filter(|x| x.3).map(|x| x.0).collect();
        t.ev(json!({"ev":"end","now":now,"open":open}));
    }
    println!("{}", json!({"runs": runs, "events": t.finish()}));
}

/// Independent projection of a DNS response frame (IPv4/UDP): header fields, question, records with owner names
/// (pointers to offset 12 resolved; anything else unusual is flagged).
fn proj_resp(f: &[u8]) -> Value {
    let Some(ip) = parse_ip(f) else { return json!({"k": "bad"}) };
    let L4::Udp { sport, dport, payload, csum_ok, .. } = &ip.l4 else { return json!({"k": "other"}) };
    let p = payload;
    let mut v = json!({"k":"resp","src":addr_str(&ip.src),"sport":sport,"dport":dport,"cs":csum_ok,"len":p.len(),"wf":false});
    if p.len() < 12 {
        return v;
    }
    v["id"] = json!(u16::from_be_bytes([p[0], p[1]]));
    let flags = u16::from_be_bytes([p[2], p[3]]);
    v["qr"] = json!(flags & 0x8000 != 0);
    v["opcode"] = json!((flags >> 11) & 0xf);
    v["rcode"] = json!(flags & 0xf);
    v["qd"] = json!(u16::from_be_bytes([p[4], p[5]]));
    let an = u16::from_be_bytes([p[6], p[7]]) as usize;
    // question
    let read_name = |mut i: usize| -> Option<(String, usize)> {
        let mut name = String::new();
        let mut jumped = false;
        let mut end = 0;
        let mut guard = 0;
        loop {
            guard += 1;
            if guard > 64 || i >= p.len() {
                return None;
            }
            let b = p[i];
            if b == 0 {
                if !jumped {
                    end = i + 1;
                }
                return Some((name, end));
            }
            if b >= 192 {
                if i + 1 >= p.len() {
                    return None;
                }
                let ptr = (((b & 0x3f) as usize) << 8) | p[i + 1] as usize;
                if !jumped {
                    end = i + 2;
                }
                if ptr >= i {
                    return None; // forward or self pointer: not a well-formed name
                }
                jumped = true;
                i = ptr;
                continue;
            }
            if b >= 64 {
                return None;
            }
            let l = b as usize;
            if i + 1 + l > p.len() {
                return None;
            }
            if !name.is_empty() {
                name.push('.');
            }
            name.push_str(&String::from_utf8_lossy(&p[i + 1..i + 1 + l]));
            i += 1 + l;
        }
    };
    let Some((qname, mut i)) = read_name(12) else { return v };
    if i + 4 > p.len() {
        return v;
    }
    v["qname"] = json!(qname);
    v["qtype"] = json!(u16::from_be_bytes([p[i], p[i + 1]]));
    i += 4;
    let mut recs: Vec<Value> = vec![];
    let mut wf = true;
    for _ in 0..an {
        let Some((owner, j)) = read_name(i) else {
            wf = false;
            break;
        };
        if j + 10 > p.len() {
            wf = false;
            break;
        }
        let ty = u16::from_be_bytes([p[j], p[j + 1]]);
        let rdl = u16::from_be_bytes([p[j + 8], p[j + 9]]) as usize;
        if j + 10 + rdl > p.len() {
            wf = false;
            break;
        }
        let rd = &p[j + 10..j + 10 + rdl];
        let mut r = json!({"owner": owner, "ty": ty, "addr": "", "cname": ""});
        if ty == 1 && rdl == 4 {
            r["addr"] = json!(format!("{}.{}.{}.{}", rd[0], rd[1], rd[2], rd[3]));
        } else if ty == 5 {
            if let Some((cn, _)) = read_name(j + 10) {
                r["cname"] = json!(cn);
            } else {
                wf = false;
            }
        }
        recs.push(r);
        i = j + 10 + rdl;
    }
    v["recs"] = json!(recs);
    v["wf"] = json!(wf);
    v
}
