//! World `ingress` (C11, C10, C08): every row of the TLC-enumerated decision table becomes one concrete packet,
//! injected alone into a fresh interface (TCP listener on 80, UDP socket on 7000); deliveries, socket state and the
//! frames emitted in reply are recorded.
use crate::dev::QDev;
use crate::frames::*;
use crate::tcp::state_name;
use crate::util::*;
use serde_json::{json, Value};
use smoltcp::iface::{Config, Interface, SocketSet};
use smoltcp::phy::Medium;
use smoltcp::socket::{tcp, udp};
use smoltcp::time::Instant;
use smoltcp::wire::{EthernetAddress, HardwareAddress, IpAddress, IpCidr, Ipv4Address};

const MY_MAC: [u8; 6] = [2, 0, 0, 0, 0, 1];
const PEER_MAC: [u8; 6] = [2, 0, 0, 0, 1, 9];
const GW_MAC: [u8; 6] = [2, 0, 0, 0, 1, 254];

fn v6(s: &str) -> [u8; 16] {
    let a: std::net::Ipv6Addr = s.parse().unwrap();
    a.octets()
}
fn src4(c: &str) -> [u8; 4] {
    match c {
        "uni-on" => [10, 0, 0, 9],
        "uni-off" => [192, 168, 1, 9],
        "lim-bcast" => [255, 255, 255, 255],
        "net-bcast" => [10, 0, 0, 255],
        "mcast" => [224, 0, 0, 5],
        "unspec" => [0, 0, 0, 0],
        "loop" => [127, 0, 0, 1],
        _ => [10, 0, 0, 1],
    }
}
fn dst4(c: &str) -> [u8; 4] {
    match c {
        "own" => [10, 0, 0, 1],
        "own2" => [10, 0, 0, 2],
        "other-on" => [10, 0, 0, 77],
        "other-off" => [192, 168, 1, 1],
        "net-bcast" => [10, 0, 0, 255],
        "lim-bcast" => [255, 255, 255, 255],
        "mc-all" => [224, 0, 0, 1],
        "mc-other" => [224, 0, 0, 99],
        "unspec" => [0, 0, 0, 0],
        _ => [127, 0, 0, 1],
    }
}
fn src6(c: &str) -> [u8; 16] {
    v6(match c {
        "uni" => "fd00::9",
        "ll" => "fe80::9",
        "mcast" => "ff02::5",
        "unspec" => "::",
        _ => "::1",
    })
}
fn dst6(c: &str) -> [u8; 16] {
    v6(match c {
        "own" => "fd00::1",
        "own2" => "fd00::2",
        "own-ll" => "fe80::1",
        "other" => "fd00::77",
        "other-tail" => "fd00:5::1",
        "sol-other" => "ff02::1:ff55:1",
        "all-nodes" => "ff02::1",
        "sol-node" => "ff02::1:ff00:1",
        "mc-other" => "ff02::99",
        "unspec" => "::",
        _ => "::1",
    })
}

fn tcp_seg(dport: u16, syn: bool, ack: bool, rst: bool) -> Vec<u8> {
    let t = TcpSeg { sport: 40000, dport, seq: 1000, ack: if ack { Some(5000) } else { None }, syn, rst, win: 1000, mss: if syn { Some(1460) } else { None }, ..Default::default() };
    t.emit()
}

/// L4 bytes (checksum still to be fixed by the IP builder) and IP protocol number
fn l4(p: &str, v: u8, src: &[u8], dst: &[u8]) -> (u8, Vec<u8>) {
    match p {
        "echo" => {
            let mut m = vec![if v == 4 { 8 } else { 128 }, 0, 0, 0, 0x12, 0x34, 0, 1];
            m.extend_from_slice(b"ping-payload");
            (if v == 4 { 1 } else { 58 }, m)
        }
        "icmp-err" => {
            // destination unreachable / port unreachable quoting a UDP datagram we are supposed to have sent
            let inner = if v == 4 {
                let mut s4 = [0u8; 4];
                let mut d4 = [0u8; 4];
                s4.copy_from_slice(dst);
                d4.copy_from_slice(src);
                ipv4_packet(s4, d4, 17, 7, 64, &udp_datagram(7000, 9999, b"abcd"), true)
            } else {
                let mut s6 = [0u8; 16];
                let mut d6 = [0u8; 16];
                s6.copy_from_slice(dst);
                d6.copy_from_slice(src);
                ipv6_packet(s6, d6, 17, 64, &udp_datagram(7000, 9999, b"abcd"), true)
            };
            let mut m = if v == 4 { vec![3, 3, 0, 0, 0, 0, 0, 0] } else { vec![1, 4, 0, 0, 0, 0, 0, 0] };
            m.extend_from_slice(&inner);
            (if v == 4 { 1 } else { 58 }, m)
        }
        "udp-open" => (17, udp_datagram(5555, 7000, b"datagram-for-open-port")),
        "hbh-unk" => {
            let mut s6 = [0u8; 16];
            let mut d6 = [0u8; 16];
            s6.copy_from_slice(src);
            d6.copy_from_slice(dst);
            let inner = ipv6_packet(s6, d6, 17, 64, &udp_datagram(5555, 7000, b"behind-an-unknown-option"), true);
            // hop-by-hop header: next header UDP, length 0 (8 octets), option 0xde (unknown; discard, report unless multicast)
            let mut m = vec![17u8, 0, 0xde, 4, 0, 0, 0, 0];
            m.extend_from_slice(&inner[40..]);
            (0, m)
        }
        "hbh-err" => {
            // the same hop-by-hop header, next header ICMPv6, in front of a destination-unreachable message
            let (_, err) = l4("icmp-err", v, src, dst);
            let mut s6 = [0u8; 16];
            let mut d6 = [0u8; 16];
            s6.copy_from_slice(src);
            d6.copy_from_slice(dst);
            let inner = ipv6_packet(s6, d6, 58, 64, &err, true);
            let mut m = vec![58u8, 0, 0xde, 4, 0, 0, 0, 0];
            m.extend_from_slice(&inner[40..]);
            (0, m)
        }
        "udp-bound" => (17, udp_datagram(5555, 7002, b"datagram-for-bound-port")),
        "syn-bound" => (6, tcp_seg(82, true, false, false)),
        "ns" => {
            // neighbour solicitation for the destination (or, to the solicited-node group, for the own address) with a source link-layer option
            let mut m = vec![135u8, 0, 0, 0, 0, 0, 0, 0];
            if dst[0] == 0xff {
                m.extend_from_slice(&v6("fd00::1"));
            } else {
                m.extend_from_slice(dst);
            }
            m.extend_from_slice(&[1, 1]);
            m.extend_from_slice(&PEER_MAC);
            (58, m)
        }
        "ns-other" => {
            // neighbour solicitation sent to our solicited-node group for another station's address in that group
            let mut m = vec![135u8, 0, 0, 0, 0, 0, 0, 0];
            m.extend_from_slice(&v6("fd00:9::1"));
            m.extend_from_slice(&[1, 1]);
            m.extend_from_slice(&PEER_MAC);
            (58, m)
        }
        "mld-query" => {
            // general query, maximum response delay 1 s
            let mut m = vec![130u8, 0, 0, 0, 0x03, 0xe8, 0, 0];
            m.extend_from_slice(&[0; 16]);
            m.extend_from_slice(&[0, 0, 0, 0]);
            (58, m)
        }
        "igmp-query" => {
            let mut m = vec![0x11u8, 10, 0, 0, 0, 0, 0, 0];
            let c = csum(&m);
            m[2..4].copy_from_slice(&c.to_be_bytes());
            (2, m)
        }
        "udp-closed" => (17, udp_datagram(5555, 7001, b"datagram-for-closed-port")),
        "syn-open" => (6, tcp_seg(80, true, false, false)),
        "syn-closed" => (6, tcp_seg(81, true, false, false)),
        "ack-closed" => (6, tcp_seg(81, false, true, false)),
        "rst-closed" => (6, tcp_seg(81, false, true, true)),
        _ => (253, vec![1, 2, 3, 4, 5, 6, 7, 8]),
    }
}

fn classify(f: &[u8], medium_eth: bool) -> Value {
    let ipb = if medium_eth {
        if f.len() < 14 {
            return json!({"kind": "short"});
        }
        let et = u16::from_be_bytes([f[12], f[13]]);
        if et == 0x0806 {
            return json!({"kind": "arp", "op": f.get(21).cloned().unwrap_or(0)});
        }
        &f[14..]
    } else {
        f
    };
    let Some(ip) = parse_ip(ipb) else { return json!({"kind": "bad-ip"}) };
    let own = [vec![10u8, 0, 0, 1], vec![10u8, 0, 0, 2], v6("fd00::1").to_vec(), v6("fd00::2").to_vec(), v6("fe80::1").to_vec()];
    let src_own = own.iter().any(|a| *a == ip.src);
    let kind = match &ip.l4 {
        L4::Tcp(t) => {
            if t.rst {
                "tcp-rst"
            } else if t.syn {
                "tcp-synack"
            } else {
                "tcp-other"
            }
        }
        L4::Icmp4 { ty, .. } => match ty {
            0 => "echo-reply",
            3 | 11 | 12 => "icmp-err",
            _ => "icmp-other",
        },
        L4::Icmp6 { ty, .. } => match ty {
            129 => "echo-reply",
            1..=4 => "icmp-err",
            133..=137 => "ndisc",
            130..=132 | 143 => "mld",
            _ => "icmp-other",
        },
        L4::Udp { .. } => "udp",
        _ => {
            if ip.proto == 2 {
                "igmp"
            } else {
                "other"
            }
        }
    };
    let cs = match &ip.l4 {
        L4::Tcp(t) => t.csum_ok,
        L4::Icmp4 { csum_ok, .. } | L4::Icmp6 { csum_ok, .. } | L4::Udp { csum_ok, .. } => *csum_ok,
        _ => true,
    };
    json!({"kind": kind, "src": addr_str(&ip.src), "dst": addr_str(&ip.dst), "src_own": src_own, "len": f.len(), "wf": ip.wf && ip.hdr_csum_ok && cs})
}

pub fn replay(args: &Args) {
    let rows = read_ndjson(&args.str("sched", ""));
    let mut t = Trace::create(&args.str("out", ""));
    t.ev(json!({"ev":"reset","run":0,"world":"ingress","cfg":{"mtu":1500}}));
    for (k, r) in rows.iter().enumerate() {
        let eth = r["m"] == "eth";
        let mut dev = QDev::new(if eth { Medium::Ethernet } else { Medium::Ip }, if eth { 1514 } else { 1500 });
        let mut c = Config::new(if eth { HardwareAddress::Ethernet(EthernetAddress(MY_MAC)) } else { HardwareAddress::Ip });
        c.random_seed = 42 + k as u64;
        let mut iface = Interface::new(c, &mut dev, Instant::from_millis(0));
        iface.update_ip_addrs(|a| {
            a.push(IpCidr::new(IpAddress::v4(10, 0, 0, 1), 24)).unwrap();
            a.push(IpCidr::new(IpAddress::v6(0xfd00, 0, 0, 0, 0, 0, 0, 1), 64)).unwrap();
        });
        // a third address does not fit the default IFACE_MAX_ADDR_COUNT = 2: fe80::1 replaces nothing; rows with own-ll are run on a second pass
        let v = r["v"].as_u64().unwrap() as u8;
        let dclass = r["d"].as_str().unwrap();
        if v == 6 && dclass == "own-ll" || r["s"] == "ll" {
            iface.update_ip_addrs(|a| {
                a.clear();
                a.push(IpCidr::new(IpAddress::v6(0xfe80, 0, 0, 0, 0, 0, 0, 1), 64)).unwrap();
                a.push(IpCidr::new(IpAddress::v6(0xfd00, 0, 0, 0, 0, 0, 0, 1), 64)).unwrap();
            });
        }
        let pclass = r["p"].as_str().unwrap();
        let two = dclass == "own2" || pclass.ends_with("-bound");
        if two {
            // two addresses of one family: the second one is foreign to sockets bound to the first
            iface.update_ip_addrs(|a| {
                a.clear();
                if v == 4 {
                    a.push(IpCidr::new(IpAddress::v4(10, 0, 0, 1), 24)).unwrap();
                    a.push(IpCidr::new(IpAddress::v4(10, 0, 0, 2), 24)).unwrap();
                } else {
                    a.push(IpCidr::new(IpAddress::v6(0xfd00, 0, 0, 0, 0, 0, 0, 1), 64)).unwrap();
                    a.push(IpCidr::new(IpAddress::v6(0xfd00, 0, 0, 0, 0, 0, 0, 2), 64)).unwrap();
                }
            });
        }
        iface.routes_mut().add_default_ipv4_route(Ipv4Address::new(10, 0, 0, 254)).unwrap();
        // a route through one of the interface's own addresses (what a host that answers for a prefix would have, together
        // with `any_ip`, which stays off here): packets for that prefix are still not addressed to the interface
        iface.routes_mut().update(|r| {
            let _ = r.push(smoltcp::iface::Route {
                cidr: IpCidr::new(IpAddress::v4(192, 168, 1, 0), 24),
                via_router: IpAddress::v4(10, 0, 0, 1),
                preferred_until: None,
                expires_at: None,
            });
        });
        let mut sockets = SocketSet::new(vec![]);
        let mut ts = tcp::Socket::new(tcp::SocketBuffer::new(vec![0u8; 512]), tcp::SocketBuffer::new(vec![0u8; 512]));
        ts.listen(80).unwrap();
        let th = sockets.add(ts);
        let mut us = udp::Socket::new(udp::PacketBuffer::new(vec![udp::PacketMetadata::EMPTY; 4], vec![0u8; 512]), udp::PacketBuffer::new(vec![udp::PacketMetadata::EMPTY; 4], vec![0u8; 512]));
        us.bind(7000).unwrap();
        let uh = sockets.add(us);
        // sockets bound to the interface's first address (of the row's family) only
        let first: IpAddress = if v == 4 { IpAddress::v4(10, 0, 0, 1) } else { IpAddress::v6(0xfd00, 0, 0, 0, 0, 0, 0, 1) };
        let mut tb = tcp::Socket::new(tcp::SocketBuffer::new(vec![0u8; 512]), tcp::SocketBuffer::new(vec![0u8; 512]));
        tb.listen((first, 82)).unwrap();
        let tbh = sockets.add(tb);
        let mut ub = udp::Socket::new(udp::PacketBuffer::new(vec![udp::PacketMetadata::EMPTY; 4], vec![0u8; 512]), udp::PacketBuffer::new(vec![udp::PacketMetadata::EMPTY; 4], vec![0u8; 512]));
        ub.bind((first, 7002)).unwrap();
        let ubh = sockets.add(ub);
        let mut now = 0i64;
        // teach the interface its neighbors so that replies are observable as such
        if eth {
            let pre = vec![
                eth_frame(MY_MAC, PEER_MAC, 0x0806, &arp_packet(1, PEER_MAC, [10, 0, 0, 9], [0; 6], [10, 0, 0, 1])),
                eth_frame(MY_MAC, GW_MAC, 0x0806, &arp_packet(1, GW_MAC, [10, 0, 0, 254], [0; 6], [10, 0, 0, 1])),
            ];
            for f in pre {
                dev.rx.push_back(f);
            }
            for (sa, ta) in [("fd00::9", "fd00::1"), ("fe80::9", "fe80::1"), ("fe80::9", "fd00::1")] {
                // neighbor solicitation with source link-layer address option
                let mut ns = vec![135u8, 0, 0, 0, 0, 0, 0, 0];
                ns.extend_from_slice(&v6(ta));
                ns.extend_from_slice(&[1, 1]);
                ns.extend_from_slice(&PEER_MAC);
                let p = ipv6_packet(v6(sa), v6(ta), 58, 255, &ns, true);
                dev.rx.push_back(eth_frame(MY_MAC, PEER_MAC, 0x86dd, &p));
            }
            let _ = guarded(|| iface.poll(Instant::from_millis(now), &mut dev, &mut sockets));
            dev.take_tx();
            now += 10;
            let _ = guarded(|| iface.poll(Instant::from_millis(now), &mut dev, &mut sockets));
            dev.take_tx();
        }
        if pclass == "igmp-query" {
            let _ = iface.join_multicast_group(IpAddress::v4(224, 1, 2, 3));
        } else if pclass == "mld-query" {
            let _ = iface.join_multicast_group(IpAddress::v6(0xff05, 0, 0, 0, 0, 0, 0, 0x1234));
        }
        // start-up traffic (group reports for the addresses just configured) goes out before the row's packet
        for dt in [0i64, 10, 2000] {
            now += dt;
            let _ = guarded(|| iface.poll(Instant::from_millis(now), &mut dev, &mut sockets));
            dev.take_tx();
        }
        now += 10;
        // the packet of this row
        let (src, dst): (Vec<u8>, Vec<u8>) = if v == 4 { (src4(r["s"].as_str().unwrap()).to_vec(), dst4(dclass).to_vec()) } else { (src6(r["s"].as_str().unwrap()).to_vec(), dst6(dclass).to_vec()) };
        let (proto, l4b) = l4(r["p"].as_str().unwrap(), v, &src, &dst);
        let corrupt = r["c"].as_str().unwrap();
        let mut ipb = if v == 4 {
            let mut s = [0u8; 4];
            let mut d = [0u8; 4];
            s.copy_from_slice(&src);
            d.copy_from_slice(&dst);
            ipv4_packet(s, d, proto, 77, 64, &l4b, true)
        } else {
            let mut s = [0u8; 16];
            let mut d = [0u8; 16];
            s.copy_from_slice(&src);
            d.copy_from_slice(&dst);
            ipv6_packet(s, d, proto, match pclass { "ns" | "ns-other" => 255, "mld-query" => 1, _ => 64 }, &l4b, true)
        };
        if pclass == "igmp-query" {
            ipb[8] = 1; // TTL 1
            ipb[10] = 0;
            ipb[11] = 0;
            let c = csum(&ipb[..20]);
            ipb[10..12].copy_from_slice(&c.to_be_bytes());
        }
        if corrupt == "opts" || corrupt == "ip-opt" {
            // four octets of options (end-of-list padding) behind the fixed header: IHL 6, lengths and checksum adjusted
            let tail = ipb.split_off(20);
            ipb.extend_from_slice(&[0, 0, 0, 0]);
            ipb.extend_from_slice(&tail);
            ipb[0] = 0x46;
            let tl = ipb.len() as u16;
            ipb[2..4].copy_from_slice(&tl.to_be_bytes());
            ipb[10] = 0;
            ipb[11] = 0;
            let c = csum(&ipb[..24]);
            ipb[10..12].copy_from_slice(&c.to_be_bytes());
        }
        let hl = if v == 4 { if ipb[0] == 0x46 { 24 } else { 20 } } else { 40 };
        match corrupt {
            "ip-opt" => ipb[21] ^= 0x10,                        // inside the options: the header checksum covers them
            "ip-hdr" => ipb[8] ^= 0x10,                         // TTL bit: header checksum no longer verifies
            "l4" => {
                // last payload byte; for a group query the response-time field instead (the last byte belongs to the group
                // address: flipping it would turn a general query into one for a group nobody joined, which is silent anyway)
                let i = match pclass {
                    "igmp-query" => hl + 1,
                    "mld-query" => hl + 5,
                    _ => ipb.len() - 1,
                };
                ipb[i] ^= 0x01;
            }
            "udp0" => {
                ipb[hl + 6] = 0;
                ipb[hl + 7] = 0;
            }
            _ => {}
        }
        let frame = if eth {
            let dm: [u8; 6] = match r["ld"].as_str().unwrap() {
                "own" => MY_MAC,
                "other" => [2, 0, 0, 0, 0, 0x77],
                "bcast" => [0xff; 6],
                _ => {
                    if v == 4 {
                        [1, 0, 0x5e, 0, 0, 1]
                    } else {
                        [0x33, 0x33, 0, 0, 0, 1]
                    }
                }
            };
            eth_frame(dm, PEER_MAC, if v == 4 { 0x0800 } else { 0x86dd }, &ipb)
        } else {
            ipb
        };
        let tcpb = format!("{}/{}", state_name(sockets.get::<tcp::Socket>(th).state()), state_name(sockets.get::<tcp::Socket>(tbh).state()));
        dev.rx.push_back(frame);
        let res = guarded(|| {
            iface.poll(Instant::from_millis(now), &mut dev, &mut sockets);
            if matches!(pclass, "mld-query" | "igmp-query") {
                // the report is sent after a delay of up to the maximum response time
                for dt in [100i64, 400, 600, 1000, 9000] {
                    now += dt;
                    iface.poll(Instant::from_millis(now), &mut dev, &mut sockets);
                }
            }
        });
        let out = dev.take_tx();
        if let Err(m) = res {
            t.ev(json!({"ev":"panic","row":r,"msg":m}));
            continue;
        }
        let tcpa = format!("{}/{}", state_name(sockets.get::<tcp::Socket>(th).state()), state_name(sockets.get::<tcp::Socket>(tbh).state()));
        let mut udp_n = 0;
        let mut udp_ok = true;
        while let Ok((d, _m)) = sockets.get_mut::<udp::Socket>(uh).recv() {
            udp_n += 1;
            udp_ok &= d == b"datagram-for-open-port";
        }
        while let Ok((d, _m)) = sockets.get_mut::<udp::Socket>(ubh).recv() {
            udp_n += 1;
            udp_ok &= d == b"datagram-for-bound-port" && pclass == "udp-bound";
        }
        let outs: Vec<Value> = out.iter().map(|o| classify(o, eth)).collect();
        let mut e = json!({"ev":"row","k":k,"udp":udp_n,"udp_ok":udp_ok,"tcpb":tcpb,"tcpa":tcpa,"out":outs});
        for key in ["m", "ld", "v", "s", "d", "p", "c"] {
            e[key] = r[key].clone();
        }
        t.ev(e);
    }
    println!("{}", json!({"runs": 1, "events": t.finish()}));
}
