//! World `slaac` (C13, SLAAC timers): one Ethernet interface with stateless address autoconfiguration switched on,
//! two routers played by the harness.  Router advertisements arrive solicited and unsolicited, with short and
//! long lifetimes, withdrawing (lifetime zero) or refreshing prefixes and default routes, and in shapes that must
//! be ignored (hop limit below 255, a source that is not link-local, a bad checksum, a link-local prefix, a prefix
//! without the autonomous flag, preferred > valid).  The driver is the model event loop of the `pollat` world: it
//! sleeps until poll_at, sometimes polls strictly earlier (`probe`), and otherwise only wakes for arriving frames.
//! After every poll the interface's addresses and default routes are logged, so the monitor can compare the
//! deadline with the ends of the lifetimes that are running.
use crate::dev::QDev;
use crate::frames::*;
use crate::util::*;
use serde_json::{json, Value};
use smoltcp::iface::{Config, Interface, SocketSet};
use smoltcp::phy::Medium;
use smoltcp::socket::udp;
use smoltcp::time::Instant;
use smoltcp::wire::{EthernetAddress, HardwareAddress, IpAddress, IpCidr, IpEndpoint};

const MY_MAC: [u8; 6] = [2, 0, 0, 0, 0, 1];
/// interface identifier derived from MY_MAC (EUI-64, universal/local bit flipped)
const IID: [u8; 8] = [0, 0, 0, 0xff, 0xfe, 0, 0, 1];
const MY_LL: [u8; 16] = [0xfe, 0x80, 0, 0, 0, 0, 0, 0, 0, 0, 0, 0xff, 0xfe, 0, 0, 1];
const ALL_NODES: [u8; 16] = [0xff, 0x02, 0, 0, 0, 0, 0, 0, 0, 0, 0, 0, 0, 0, 0, 1];

fn router_ll(r: u8) -> [u8; 16] {
    [0xfe, 0x80, 0, 0, 0, 0, 0, 0, 0, 0, 0, 0, 0, 0, 0, 0xa0 + r]
}
fn router_mac(r: u8) -> [u8; 6] {
    [2, 0, 0, 0, 2, 0xa0 + r]
}
/// prefix kinds: 1, 2 global /64; 3 link-local /64; 4 a /48; 5 a prefix length of 200
fn prefix_of(k: u8) -> ([u8; 16], u8) {
    match k {
        1 => ([0x20, 0x01, 0x0d, 0xb8, 0, 1, 0, 0, 0, 0, 0, 0, 0, 0, 0, 0], 64),
        2 => ([0x20, 0x01, 0x0d, 0xb8, 0, 2, 0, 0, 0, 0, 0, 0, 0, 0, 0, 0], 64),
        3 => ([0xfe, 0x80, 0, 0, 0, 0, 0, 0, 0, 0, 0, 0, 0, 0, 0, 0], 64),
        5 => ([0x20, 0x01, 0x0d, 0xb8, 0, 5, 0, 0, 0, 0, 0, 0, 0, 0, 0, 0], 200), // a prefix length no IPv6 prefix can have
        _ => ([0x20, 0x01, 0x0d, 0xb8, 0, 3, 0, 0, 0, 0, 0, 0, 0, 0, 0, 0], 48),
    }
}

#[derive(Clone, Debug)]
struct Ra {
    from: u8,
    rl: u16,       // router lifetime (s)
    hl: u8,        // IP hop limit
    src_ll: bool,  // source is the router's link-local address (else a global one)
    dst: u8,       // 0 all-nodes, 1 our link-local address
    cs_ok: bool,
    pk: u8,        // prefix kind, 0 = no prefix option
    aflag: bool,
    valid: u32,
    pref: u32,
}

fn ra_frame(ra: &Ra) -> Vec<u8> {
    let mut m = vec![134u8, 0, 0, 0, 64, 0];
    m.extend_from_slice(&ra.rl.to_be_bytes());
    m.extend_from_slice(&[0; 8]); // reachable time, retransmission timer
    // source link-layer address option
    m.extend_from_slice(&[1, 1]);
    m.extend_from_slice(&router_mac(ra.from));
    if ra.pk != 0 {
        let (p, plen) = prefix_of(ra.pk);
        m.extend_from_slice(&[3, 4, plen, 0x80 | if ra.aflag { 0x40 } else { 0 }]);
        m.extend_from_slice(&ra.valid.to_be_bytes());
        m.extend_from_slice(&ra.pref.to_be_bytes());
        m.extend_from_slice(&[0; 4]);
        m.extend_from_slice(&p);
    }
    let src = if ra.src_ll { router_ll(ra.from) } else { [0x20, 0x01, 0x0d, 0xb8, 0, 9, 0, 0, 0, 0, 0, 0, 0, 0, 0, 0xa0 + ra.from] };
    let dst = if ra.dst == 0 { ALL_NODES } else { MY_LL };
    let mut p = ipv6_packet(src, dst, 58, ra.hl, &m, true);
    if !ra.cs_ok {
        let n = p.len();
        p[n - 1] ^= 0x10;
    }
    let dm = if ra.dst == 0 { [0x33, 0x33, 0, 0, 0, 1] } else { MY_MAC };
    eth_frame(dm, router_mac(ra.from), 0x86dd, &p)
}

fn proj(f: &[u8]) -> Value {
    if f.len() < 14 {
        return json!({"et": "short", "k": "other"});
    }
    let et = u16::from_be_bytes([f[12], f[13]]);
    if et != 0x86dd && et != 0x0800 {
        return json!({"et": "other", "k": "other"});
    }
    match parse_ip(&f[14..]) {
        Some(ip) => {
            let mut v = json!({"et": if et == 0x0800 {"ip4"} else {"ip6"}, "proto": ip.proto, "ty": -1, "k": "other", "len": f.len()});
            match &ip.l4 {
                L4::Icmp6 { ty, body, .. } => {
                    v["ty"] = json!(ty);
                    v["k"] = json!(match *ty {
                        133 => "rs",
                        135 => "ns",
                        136 => "na",
                        130..=132 | 143 => "mld",
                        _ => "icmp",
                    });
                    if *ty == 135 && body.len() >= 20 {
                        v["tgt"] = json!(body[19]);
                    }
                }
                L4::Udp { .. } => v["k"] = json!("udp"),
                _ => {}
            }
            v
        }
        None => json!({"et": "ip-bad", "k": "other"}),
    }
}

/// Replays behaviours of Slaac.tla (one per line: the polls of the model's event loop, with the advertisement each
/// one delivered and what the model says the interface sends and holds afterwards) on a real interface.
pub fn replay(args: &Args) {
    let sched = read_ndjson(&args.str("sched", ""));
    let mut t = Trace::create(&args.str("out", ""));
    for (k, sc) in sched.iter().enumerate() {
        let mut dev = QDev::new(Medium::Ethernet, 1514);
        let mut c = Config::new(HardwareAddress::Ethernet(EthernetAddress(MY_MAC)));
        c.random_seed = 1 + k as u64;
        c.slaac = true;
        let mut iface = Interface::new(c, &mut dev, Instant::from_millis(0));
        iface.update_ip_addrs(|a| {
            a.push(IpCidr::new(IpAddress::Ipv6(smoltcp::wire::Ipv6Address::from_octets(MY_LL)), 64)).unwrap();
        });
        let mut sockets = SocketSet::new(vec![]);
        t.ev(json!({"ev":"reset","run":k,"world":"slaac","seed":0,"src":"tlc","cfg":{"udp":false,"answer":0}}));
        let num = |v: &Value, pre: &str| -> u8 { v.as_str().and_then(|x| x.strip_prefix(pre)).and_then(|x| x.parse().ok()).unwrap_or(0) };
        let evs = if sc.get("steps").is_some() { &sc["steps"]["ev"] } else { &sc["ev"] };
        for e in evs.as_array().unwrap() {
            let now = e["t"].as_i64().unwrap() * 1000;
            let d = iface.poll_at(Instant::from_millis(now), &sockets).map(ms_ceil).unwrap_or(-1);
            let adv = &e["adv"];
            let has = adv["r"].as_str() != Some("none");
            if has {
                let valid = adv["valid"].as_u64().unwrap() as u32;
                let ra = Ra { from: num(&adv["r"], "r"), rl: adv["rl"].as_u64().unwrap() as u16, hl: 255, src_ll: true, dst: 0, cs_ok: true,
                              pk: num(&adv["p"], "p"), aflag: true, valid, pref: valid / 2 };
                t.ev(json!({"ev":"ra","now":now,"from":ra.from,"rl":ra.rl,"ok":true,"pok":ra.pk != 0,"pk":ra.pk,"valid":ra.valid as u64,"pref":ra.pref as u64,
                            "hl":255,"srcll":true,"cs":true,"aflag":true,"dst":0}));
                dev.rx.push_back(ra_frame(&ra));
            }
            let nrx = dev.rx.len();
            let r = guarded(|| {
                iface.poll(Instant::from_millis(now), &mut dev, &mut sockets);
            });
            let out = dev.take_tx();
            if let Err(m) = r {
                t.ev(json!({"ev":"panic","now":now,"msg":m}));
                break;
            }
            let pa = iface.poll_at(Instant::from_millis(now), &sockets).map(ms_ceil).unwrap_or(-1);
            let pd = iface.poll_delay(Instant::from_millis(now), &sockets).map(|x| x.total_millis() as i64).unwrap_or(-1);
            let outs: Vec<Value> = out.iter().map(|o| proj(o)).collect();
            let (addrs, rts) = held(&mut iface);
            let mut ma: Vec<u8> = e["addrs"].as_array().unwrap().iter().map(|x| num(x, "p")).collect();
            let mut mr: Vec<u8> = e["rts"].as_array().unwrap().iter().map(|x| num(x, "r")).collect();
            ma.sort();
            mr.sort();
            t.ev(json!({"ev":"poll","kind":if has {"rx"} else {"due"},"now":now,"deadline":d,"nrx":nrx,"out":outs,"pa":pa,"pd":pd,"addrs":addrs,"rts":rts,
                        "model":{"rs":e["rs"],"addrs":ma,"rts":mr}}));
        }
        t.ev(json!({"ev":"end","now":0,"how":"replayed"}));
    }
    println!("{}", json!({"runs": sched.len(), "events": t.finish()}));
}

/// what the interface holds: SLAAC addresses by prefix kind (0 = our link-local address), default routes by router
fn held(iface: &mut Interface) -> (Vec<Value>, Vec<Value>) {
    let mut addrs: Vec<Value> = vec![];
    for a in iface.ip_addrs() {
        if let IpCidr::Ipv6(c6) = a {
            let o = c6.address().octets();
            let k = if o == MY_LL {
                0
            } else if o[8..] == IID && o[..8] == prefix_of(1).0[..8] {
                1
            } else if o[8..] == IID && o[..8] == prefix_of(2).0[..8] {
                2
            } else {
                9
            };
            addrs.push(json!(k));
        }
    }
    let mut rts: Vec<Value> = vec![];
    iface.routes_mut().update(|rs| {
        for r in rs.iter() {
            if let IpAddress::Ipv6(g) = r.via_router {
                let o = g.octets();
                rts.push(json!(if o == router_ll(1) { 1 } else if o == router_ll(2) { 2 } else { 9 }));
            }
        }
    });
    (addrs, rts)
}

pub fn random(args: &Args) {
    let seed0 = args.u64("seed", 1);
    let runs = args.usize("runs", 20);
    let mut t = Trace::create(&args.str("out", ""));
    for run in 0..runs {
        let mut rng = Rng::new(seed0.wrapping_mul(7_000_003).wrapping_add(run as u64));
        let mut dev = QDev::new(Medium::Ethernet, 1514);
        let mut c = Config::new(HardwareAddress::Ethernet(EthernetAddress(MY_MAC)));
        c.random_seed = rng.next();
        c.slaac = true;
        let mut now: i64 = rng.range(0, 3000) as i64;
        let mut iface = Interface::new(c, &mut dev, Instant::from_millis(now));
        iface.update_ip_addrs(|a| {
            a.push(IpCidr::new(IpAddress::Ipv6(smoltcp::wire::Ipv6Address::from_octets(MY_LL)), 64)).unwrap();
        });
        let mut sockets = SocketSet::new(vec![]);
        // a datagram socket talking to an off-link host now and then (uses the default route, resolves the router)
        let with_udp = rng.chance(50);
        let uh = if with_udp {
            let mut s = udp::Socket::new(udp::PacketBuffer::new(vec![udp::PacketMetadata::EMPTY; 4], vec![0u8; 512]), udp::PacketBuffer::new(vec![udp::PacketMetadata::EMPTY; 4], vec![0u8; 512]));
            s.bind(6000).unwrap();
            Some(sockets.add(s))
        } else {
            None
        };
        let lifetimes: &[u32] = &[0, 2, 3, 5, 20, 20, 600];
        let answer_pct = *rng.pick(&[0u64, 70, 100]);
        t.ev(json!({"ev":"reset","run":run,"world":"slaac","seed":seed0,"cfg":{"udp":with_udp,"answer":answer_pct}}));
        let mk_ra = |rng: &mut Rng| -> Ra {
            let valid = *rng.pick(lifetimes);
            let hostile = rng.chance(25);
            let mut ra = Ra {
                from: rng.range(1, 2) as u8,
                rl: *rng.pick(&[0u16, 3, 5, 30, 30, 1800]),
                hl: 255,
                src_ll: true,
                dst: rng.below(2) as u8,
                cs_ok: true,
                pk: *rng.pick(&[0u8, 1, 1, 1, 2, 2]),
                aflag: true,
                valid,
                pref: if valid == 0 { 0 } else { rng.range(0, valid as u64) as u32 },
            };
            if hostile {
                match rng.below(7) {
                    6 => ra.pk = 5,
                    0 => ra.hl = 64,
                    1 => ra.src_ll = false,
                    2 => ra.cs_ok = false,
                    3 => ra.pk = 3,
                    4 => ra.aflag = false,
                    _ => ra.pref = ra.valid + 1,
                }
            } else if rng.chance(8) {
                ra.pk = 4;
            }
            ra
        };
        let horizon = now + rng.range(30_000, 140_000) as i64;
        // unsolicited advertisements: some before the very first poll, some later
        let mut pending: Vec<(i64, Ra)> = vec![];
        if rng.chance(30) {
            let ra = mk_ra(&mut rng);
            pending.push((now, ra));
        }
        for _ in 0..rng.below(5) {
            let at = rng.range(now as u64, horizon as u64) as i64;
            let ra = mk_ra(&mut rng);
            pending.push((at, ra));
        }
        let mut na_pending: Vec<(i64, Vec<u8>)> = vec![];
        let mut steps = 0;
        let mut next_send = now + rng.range(0, 20_000) as i64;
        while now < horizon && steps < 1500 {
            steps += 1;
            // application
            if let Some(h) = uh {
                if now >= next_send {
                    let dst = smoltcp::wire::Ipv6Address::from_octets([0x20, 0x01, 0x0d, 0xb8, 0xff, 0xff, 0, 0, 0, 0, 0, 0, 0, 0, 0, 9]);
                    let r = sockets.get_mut::<udp::Socket>(h).send_slice(b"ping", IpEndpoint::new(IpAddress::Ipv6(dst), 9));
                    t.ev(json!({"ev":"api","now":now,"call":"send","ok":r.is_ok()}));
                    next_send = now + rng.range(1000, 40_000) as i64;
                }
            }
            let d = iface.poll_at(Instant::from_millis(now), &sockets).map(ms_ceil).unwrap_or(-1);
            pending.sort_by_key(|x| x.0);
            na_pending.sort_by_key(|x| x.0);
            let next_rx = pending.first().map(|x| x.0).unwrap_or(i64::MAX).min(na_pending.first().map(|x| x.0).unwrap_or(i64::MAX));
            let next_app = if uh.is_some() { next_send } else { i64::MAX };
            let mut kind = "due";
            let mut tpoll = if d < 0 { i64::MAX } else { d.max(now) };
            let mut frames: Vec<Vec<u8>> = vec![];
            if next_rx != i64::MAX && next_rx <= tpoll && next_rx <= next_app {
                tpoll = next_rx.max(now);
                while !pending.is_empty() && pending[0].0 <= tpoll {
                    let (_, ra) = pending.remove(0);
                    let ok = ra.hl == 255 && ra.src_ll && ra.cs_ok;
                    let pok = ok && ra.pk != 0 && ra.pk != 3 && ra.pk != 5 && ra.aflag && ra.pref <= ra.valid;
                    t.ev(json!({"ev":"ra","now":tpoll,"from":ra.from,"rl":ra.rl,"ok":ok,"pok":pok,"pk":ra.pk,"valid":ra.valid as u64,"pref":ra.pref as u64,
                                "hl":ra.hl,"srcll":ra.src_ll,"cs":ra.cs_ok,"aflag":ra.aflag,"dst":ra.dst}));
                    frames.push(ra_frame(&ra));
                }
                while !na_pending.is_empty() && na_pending[0].0 <= tpoll {
                    frames.push(na_pending.remove(0).1);
                }
                kind = "rx";
            } else if next_app < tpoll {
                // the application's turn comes first: go there without polling
                now = next_app;
                continue;
            } else if d < 0 {
                tpoll = (now + rng.range(1, 30_000) as i64).min(next_app.max(now + 1));
                kind = "probe";
            } else if d > now + 1 && rng.chance(50) {
                tpoll = now + rng.range(1, (d - now - 1) as u64) as i64;
                kind = "probe";
            }
            now = tpoll;
            for f in frames {
                dev.rx.push_back(f);
            }
            let nrx = dev.rx.len();
            let r = guarded(|| {
                iface.poll(Instant::from_millis(now), &mut dev, &mut sockets);
            });
            let out = dev.take_tx();
            if let Err(m) = r {
                t.ev(json!({"ev":"panic","now":now,"msg":m}));
                break;
            }
            let pa = iface.poll_at(Instant::from_millis(now), &sockets).map(ms_ceil).unwrap_or(-1);
            let pd = iface.poll_delay(Instant::from_millis(now), &sockets).map(|x| x.total_millis() as i64).unwrap_or(-1);
            let outs: Vec<Value> = out.iter().map(|o| proj(o)).collect();
            let (addrs, rts) = held(&mut iface);
            t.ev(json!({"ev":"poll","kind":kind,"now":now,"deadline":d,"nrx":nrx,"out":outs,"pa":pa,"pd":pd,"addrs":addrs,"rts":rts}));
            for f in &out {
                let p = proj(f);
                if p["k"] == "rs" && rng.chance(answer_pct) {
                    let mut ra = mk_ra(&mut rng);
                    ra.from = 1;
                    let delay = *rng.pick(&[5i64, 50, 500, 3000, 5000]);
                    pending.push((now + delay, ra));
                }
                if p["k"] == "ns" {
                    // the routers answer solicitations for their link-local addresses after 10 ms
                    let tg = p["tgt"].as_u64().unwrap_or(0) as u8;
                    if tg == 0xa1 || tg == 0xa2 {
                        let r = tg - 0xa0;
                        let mut m = vec![136u8, 0, 0, 0, 0xe0, 0, 0, 0];
                        m.extend_from_slice(&router_ll(r));
                        m.extend_from_slice(&[2, 1]);
                        m.extend_from_slice(&router_mac(r));
                        let pkt = ipv6_packet(router_ll(r), MY_LL, 58, 255, &m, true);
                        na_pending.push((now + 10, eth_frame(MY_MAC, router_mac(r), 0x86dd, &pkt)));
                    }
                }
            }
        }
        t.ev(json!({"ev":"end","now":now,"how":"horizon-reached","steps":steps}));
    }
    println!("{}", json!({"runs": runs, "events": t.finish()}));
}
