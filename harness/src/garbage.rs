//! World `garbage` (C03): no received frame sequence can panic, hang or wedge the interface.
//!
//! A twin pair A'/B of real interfaces runs a scripted exchange (neighbour discovery, echo, UDP small / large
//! (fragmented), UDP to a closed port, TCP in both directions, DNS, DHCP, close, abort); every frame that reaches A'
//! is recorded with the script stage it belongs to (the corpus: well-formed frames of every protocol, carrying the
//! live addresses, ports and sequence numbers).  The interface under test A is built identically (same seeds, so its
//! state matches the corpus) and either left fresh or driven through the script up to the point where connections
//! are open.  A row of the Garbage.tla table then names a stage and a mutation; the harness applies the mutation at
//! every offset (every length for truncation) of every frame of the stage, feeding each mutant to A with time
//! advancing.  After the row a fresh third interface C pings A; A must answer.
use crate::dev::QDev;
use crate::dhcp::server_frame;
use crate::dns::{dns_msg, parse_query, Rr};
use crate::frames::*;
use crate::util::*;
use serde_json::{json, Value};
use smoltcp::iface::{Config, Interface, SocketHandle, SocketSet};
use smoltcp::phy::{Checksum, Medium};
use smoltcp::socket::{dhcpv4, dns, icmp, raw, tcp, udp};
use smoltcp::time::Instant;
use smoltcp::wire::*;
use std::sync::atomic::{AtomicU64, Ordering};
use std::sync::{Arc, Mutex};

#[derive(Clone, Copy, PartialEq, Debug)]
pub enum Med {
    Eth,
    Ip,
    Lowpan,
}

pub struct Host {
    pub iface: Interface,
    pub dev: QDev,
    pub sockets: SocketSet<'static>,
    pub udp: SocketHandle,
    pub udp53: SocketHandle,
    pub icmp: SocketHandle,
    pub tcp_l: SocketHandle,
    pub tcp_c: SocketHandle,
    pub dns: Option<SocketHandle>,
    pub v4: [u8; 4],
    pub v6: Ipv6Address,
    pub v: u8,
}

fn mac(who: u8) -> [u8; 6] {
    [2, 0, 0, 0, 0, who]
}

impl Host {
    pub fn addr(&self) -> IpAddress {
        if self.v == 4 {
            IpAddress::v4(self.v4[0], self.v4[1], self.v4[2], self.v4[3])
        } else {
            IpAddress::Ipv6(self.v6)
        }
    }
}

pub fn host(med: Med, v: u8, who: u8, ck_ignore: bool, full: bool, seed: u64) -> Host {
    let (medium, mtu) = match med {
        Med::Eth => (Medium::Ethernet, 590),
        Med::Ip => (Medium::Ip, 576),
        Med::Lowpan => (Medium::Ieee802154, 125),
    };
    let mut dev = QDev::new(medium, mtu);
    if ck_ignore {
        dev.csum.ipv4 = Checksum::Tx;
        dev.csum.udp = Checksum::Tx;
        dev.csum.tcp = Checksum::Tx;
        dev.csum.icmpv4 = Checksum::Tx;
        dev.csum.icmpv6 = Checksum::Tx;
    }
    let hw = match med {
        Med::Eth => HardwareAddress::Ethernet(EthernetAddress(mac(who))),
        Med::Ip => HardwareAddress::Ip,
        Med::Lowpan => HardwareAddress::Ieee802154(Ieee802154Address::Extended([2, 0x11, 0x22, 0x33, 0x44, 0x55, 0x66, who])),
    };
    let mut c = Config::new(hw);
    c.random_seed = seed;
    if med == Med::Lowpan {
        c.pan_id = Some(Ieee802154Pan(0xbeef));
    }
    let mut iface = Interface::new(c, &mut dev, Instant::from_millis(0));
    let v4 = [10, 0, 0, who];
    let v6 = if med == Med::Lowpan {
        Ieee802154Address::Extended([2, 0x11, 0x22, 0x33, 0x44, 0x55, 0x66, who]).as_link_local_address().unwrap()
    } else {
        Ipv6Address::new(0xfd00, 0, 0, 0, 0, 0, 0, who as u16)
    };
    iface.update_ip_addrs(|a| {
        if med != Med::Lowpan {
            a.push(IpCidr::new(IpAddress::v4(10, 0, 0, who), 24)).unwrap();
        }
        a.push(IpCidr::new(IpAddress::Ipv6(v6), 64)).unwrap();
    });
    let mut sockets = SocketSet::new(vec![]);
    let ub = || udp::PacketBuffer::new(vec![udp::PacketMetadata::EMPTY; 8], vec![0u8; 4096]);
    let mut u = udp::Socket::new(ub(), ub());
    u.bind(7000).unwrap();
    let udp_h = sockets.add(u);
    let mut u = udp::Socket::new(ub(), ub());
    u.bind(if who == 1 { 7053 } else { 53 }).unwrap();
    let udp53 = sockets.add(u);
    let ib = || icmp::PacketBuffer::new(vec![icmp::PacketMetadata::EMPTY; 4], vec![0u8; 4096]);
    let mut ic = icmp::Socket::new(ib(), ib());
    ic.bind(icmp::Endpoint::Ident(0x1234)).unwrap();
    let icmp_h = sockets.add(ic);
    let tb = || tcp::SocketBuffer::new(vec![0u8; 2048]);
    let mut tl = tcp::Socket::new(tb(), tb());
    tl.listen(if who == 1 { 80 } else { 81 }).unwrap();
    let tcp_l = sockets.add(tl);
    let tcp_c = sockets.add(tcp::Socket::new(tb(), tb()));
    let mut dns_h = None;
    if full {
        // the rest of the socket kinds of the statement: ICMP bound to a UDP port, raw, DNS, DHCPv4
        let mut ic = icmp::Socket::new(ib(), ib());
        ic.bind(icmp::Endpoint::Udp(IpListenEndpoint { addr: None, port: 7000 })).unwrap();
        sockets.add(ic);
        let rb = || raw::PacketBuffer::new(vec![raw::PacketMetadata::EMPTY; 4], vec![0u8; 4096]);
        sockets.add(raw::Socket::new(Some(if v == 4 { IpVersion::Ipv4 } else { IpVersion::Ipv6 }), Some(IpProtocol::Unknown(253)), rb(), rb()));
        let srv = if v == 4 { IpAddress::v4(10, 0, 0, 2) } else if med == Med::Lowpan { IpAddress::Ipv6(Ieee802154Address::Extended([2, 0x11, 0x22, 0x33, 0x44, 0x55, 0x66, 2]).as_link_local_address().unwrap()) } else { IpAddress::Ipv6(Ipv6Address::new(0xfd00, 0, 0, 0, 0, 0, 0, 2)) };
        dns_h = Some(sockets.add(dns::Socket::new(&[srv], vec![])));
        if med == Med::Eth && v == 4 {
            sockets.add(dhcpv4::Socket::new());
        }
    }
    Host { iface, dev, sockets, udp: udp_h, udp53, icmp: icmp_h, tcp_l, tcp_c, dns: dns_h, v4, v6, v }
}

pub fn poll(h: &mut Host, now: i64, frames: Vec<Vec<u8>>) -> std::result::Result<Vec<Vec<u8>>, String> {
    for f in frames {
        h.dev.rx.push_back(f);
    }
    let r = guarded(|| {
        h.iface.poll(Instant::from_millis(now), &mut h.dev, &mut h.sockets);
    });
    let out = h.dev.take_tx();
    match r {
        Ok(()) => Ok(out),
        Err(m) => {
            h.dev.rx.clear();
            Err(format!("{} @ {}", m, last_panic_loc()))
        }
    }
}

fn send_echo(h: &mut Host, to: IpAddress, size: usize, seq: u16) {
    let data = crate::frag::dgram_payload(seq as u32, size);
    let src = h.v6;
    let sock = h.sockets.get_mut::<icmp::Socket>(h.icmp);
    match to {
        IpAddress::Ipv4(_) => {
            let repr = Icmpv4Repr::EchoRequest { ident: 0x1234, seq_no: seq, data: &data };
            if let Ok(buf) = sock.send(repr.buffer_len(), to) {
                repr.emit(&mut Icmpv4Packet::new_unchecked(buf), &smoltcp::phy::ChecksumCapabilities::default());
            }
        }
        IpAddress::Ipv6(dst) => {
            let repr = Icmpv6Repr::EchoRequest { ident: 0x1234, seq_no: seq, data: &data };
            if let Ok(buf) = sock.send(repr.buffer_len(), to) {
                repr.emit(&src, &dst, &mut Icmpv6Packet::new_unchecked(buf), &smoltcp::phy::ChecksumCapabilities::default());
            }
        }
    }
}

pub struct Cap {
    pub stage: &'static str,
    pub to_a: bool,
    pub frame: Vec<u8>,
}

pub const STAGES: [&str; 11] = ["echo-small", "echo-large", "udp-small", "udp-large", "udp-closed", "tcp-passive", "tcp-active", "dns", "dhcp", "tcp-close", "tcp-abort"];

/// The scripted exchange.  `stop_open`: stop before the connections are closed (state of the interface under test in
/// phase "warm").  Returns A (and the time reached).
pub fn script(med: Med, v: u8, ck_ignore: bool, stop_open: bool, mut cap: Option<&mut Vec<Cap>>) -> std::result::Result<(Host, i64), String> {
    let mut a = host(med, v, 1, ck_ignore, true, 0xA11CE);
    let mut b = host(med, v, 2, false, false, 0xB0B);
    let mut now = 0i64;
    let mut to_a: Vec<Vec<u8>> = vec![];
    let mut to_a_dhcp: Vec<Vec<u8>> = vec![];
    let large = if med == Med::Lowpan { 600 } else if v == 4 { 1000 } else { 480 };
    let (aa, ba) = (a.addr(), b.addr());
    for stage in STAGES {
        if stop_open && stage == "tcp-close" {
            break;
        }
        // application actions of the stage
        match stage {
            "echo-small" => send_echo(&mut b, aa, 16, 1),
            "echo-large" => send_echo(&mut b, aa, large, 2),
            "udp-small" => {
                let _ = b.sockets.get_mut::<udp::Socket>(b.udp).send_slice(&crate::frag::dgram_payload(3, 20), IpEndpoint::new(aa, 7000));
            }
            "udp-large" => {
                let _ = b.sockets.get_mut::<udp::Socket>(b.udp).send_slice(&crate::frag::dgram_payload(4, large), IpEndpoint::new(aa, 7000));
            }
            "udp-closed" => {
                let _ = a.sockets.get_mut::<udp::Socket>(a.udp).send_slice(b"nobody home", IpEndpoint::new(ba, 9));
            }
            "tcp-passive" => {
                let cx = b.iface.context();
                let _ = b.sockets.get_mut::<tcp::Socket>(b.tcp_c).connect(cx, (aa, 80), 40000);
            }
            "tcp-active" => {
                let cx = a.iface.context();
                let _ = a.sockets.get_mut::<tcp::Socket>(a.tcp_c).connect(cx, (ba, 81), 40001);
            }
            "dns" => {
                if let Some(h) = a.dns {
                    let cx = a.iface.context();
                    let _ = a.sockets.get_mut::<dns::Socket>(h).start_query(cx, "host.test", DnsQueryType::A);
                }
            }
            "tcp-close" => b.sockets.get_mut::<tcp::Socket>(b.tcp_c).close(),
            "tcp-abort" => b.sockets.get_mut::<tcp::Socket>(b.tcp_l).abort(),
            _ => {}
        }
        let mut sent_p = false;
        let mut sent_a = false;
        for _round in 0..14 {
            now += 10;
            if let Some(c) = cap.as_deref_mut() {
                for f in &to_a {
                    c.push(Cap { stage, to_a: true, frame: f.clone() });
                }
            }
            to_a.append(&mut to_a_dhcp);
            let from_a = poll(&mut a, now, std::mem::take(&mut to_a))?;
            if let Some(c) = cap.as_deref_mut() {
                for f in &from_a {
                    c.push(Cap { stage, to_a: false, frame: f.clone() });
                }
            }
            // DHCP server played by the harness (Ethernet, IPv4)
            if med == Med::Eth && v == 4 {
                for f in &from_a {
                    if f.len() > 282 && f[12] == 8 && f[13] == 0 && f[23] == 17 && f[36] == 0 && f[37] == 67 {
                        if let Some(m) = DhcpMsg::parse(&f[42..]) {
                            let mut r = DhcpMsg { op: 2, xid: m.xid, yiaddr: [10, 0, 0, 1], chaddr: mac(1), mtype: if m.mtype == 1 { 2 } else { 5 }, ..Default::default() };
                            r.server_id = Some([10, 0, 0, 53]);
                            r.lease = Some(120);
                            r.mask = Some([255, 255, 255, 0]);
                            r.router = Some([10, 0, 0, 254]);
                            let f = server_frame(&r, None);
                            if let Some(c) = cap.as_deref_mut() {
                                c.push(Cap { stage: "dhcp", to_a: true, frame: f.clone() });
                            }
                            to_a_dhcp.push(f);
                        }
                    }
                }
            }
            to_a.extend(poll(&mut b, now, from_a)?);
            // applications
            {
                let s = b.sockets.get_mut::<tcp::Socket>(b.tcp_c);
                if stage == "tcp-passive" && s.may_send() && !sent_p {
                    let _ = s.send_slice(&crate::frag::dgram_payload(5, 300));
                    sent_p = true;
                }
            }
            {
                let s = a.sockets.get_mut::<tcp::Socket>(a.tcp_c);
                if stage == "tcp-active" && s.may_send() && !sent_a {
                    let _ = s.send_slice(&crate::frag::dgram_payload(6, 100));
                    sent_a = true;
                }
            }
            {
                let s = b.sockets.get_mut::<tcp::Socket>(b.tcp_l);
                let mut buf = [0u8; 512];
                if let Ok(n) = s.recv_slice(&mut buf) {
                    if n > 0 {
                        let _ = s.send_slice(&crate::frag::dgram_payload(7, 50));
                    }
                }
            }
            for h in [a.tcp_l, a.tcp_c] {
                let s = a.sockets.get_mut::<tcp::Socket>(h);
                let mut buf = [0u8; 512];
                let _ = s.recv_slice(&mut buf);
                if stage == "tcp-close" && h == a.tcp_l && !s.may_recv() && s.may_send() {
                    s.close();
                }
            }
            while a.sockets.get_mut::<udp::Socket>(a.udp).recv().is_ok() {}
            // DNS server on B
            let mut answers = vec![];
            while let Ok((data, meta)) = b.sockets.get_mut::<udp::Socket>(b.udp53).recv() {
                if let Some((id, name, qt)) = parse_query(data) {
                    answers.push((dns_msg(id, 0x8180, &name, qt, 1, &[Rr { name: name.clone(), ptr: true, ty: 1, a: [10, 0, 0, 9], cname: String::new() }], None, 0), meta.endpoint));
                }
            }
            for (m, ep) in answers {
                let _ = b.sockets.get_mut::<udp::Socket>(b.udp53).send_slice(&m, ep);
            }
        }
    }
    Ok((a, now))
}

fn v6b(a: Ipv6Address) -> [u8; 16] {
    a.octets()
}

/// Hand-made frames of kinds the peer never emits (addressed to A), Ethernet / raw IP only.
fn crafted(med: Med, v: u8, reflect: &[Vec<u8>]) -> Vec<Vec<u8>> {
    let mut ip: Vec<Vec<u8>> = vec![];
    let a4 = [10, 0, 0, 1];
    let b4 = [10, 0, 0, 2];
    let a6 = v6b(Ipv6Address::new(0xfd00, 0, 0, 0, 0, 0, 0, 1));
    let b6 = v6b(Ipv6Address::new(0xfd00, 0, 0, 0, 0, 0, 0, 2));
    let off = if med == Med::Eth { 14 } else { 0 };
    // an IP packet A sent earlier (for ICMP errors that quote it): the last TCP one if any
    let quoted: Vec<u8> = reflect.iter().rev().filter(|f| f.len() > off + 40).map(|f| f[off..].to_vec()).find(|p| (v == 4 && p[0] >> 4 == 4 && p[9] == 6) || (v == 6 && p[0] >> 4 == 6 && p[6] == 6)).unwrap_or_else(|| vec![0x45; 28]);
    if v == 4 {
        // IGMP general query
        let mut q = vec![0x11, 100, 0, 0, 0, 0, 0, 0];
        let c = csum(&q);
        q[2..4].copy_from_slice(&c.to_be_bytes());
        ip.push(ipv4_packet(b4, [224, 0, 0, 1], 2, 7, 1, &q, false));
        for mrt in [0u8, 1, 255] {
            let mut q = vec![0x11, mrt, 0, 0, 0, 0, 0, 0];
            let c = csum(&q);
            q[2..4].copy_from_slice(&c.to_be_bytes());
            ip.push(ipv4_packet(b4, [224, 0, 0, 1], 2, 7, 1, &q, false));
        }
        // ICMP errors quoting A's packet: time exceeded, fragmentation needed, port unreachable, redirect, parameter problem
        for (ty, code, rest) in [(11u8, 0u8, [0u8; 4]), (3, 4, [0, 0, 2, 0]), (3, 3, [0; 4]), (5, 1, [10, 0, 0, 9]), (12, 0, [9, 0, 0, 0])] {
            let mut m = vec![ty, code, 0, 0];
            m.extend_from_slice(&rest);
            m.extend_from_slice(&quoted[..quoted.len().min(28)]);
            ip.push(ipv4_packet(b4, a4, 1, 8, 64, &m, true));
        }
        // IPv4 options (IHL 7): NOP, record route
        let u = udp_datagram(7001, 7000, b"with options");
        let mut p = ipv4_packet(b4, a4, 17, 9, 64, &u, true);
        let opts = [1u8, 7, 7, 4, 0, 0, 0, 0];
        p[0] = 0x47;
        let total = (p.len() + 8) as u16;
        p[2..4].copy_from_slice(&total.to_be_bytes());
        let mut q = p[..20].to_vec();
        q.extend_from_slice(&opts);
        q[10] = 0;
        q[11] = 0;
        let c = csum(&q);
        q[10..12].copy_from_slice(&c.to_be_bytes());
        q.extend_from_slice(&p[20..]);
        ip.push(q);
        // overlapping fragments of one datagram
        let body = udp_datagram(7001, 7000, &crate::frag::dgram_payload(9, 64));
        for (o, mf, sl) in [(0usize, true, &body[0..40]), (24, true, &body[24..56]), (48, false, &body[48..])] {
            let mut f = ipv4_packet(b4, a4, 17, 77, 64, sl, false);
            let fo = ((o / 8) as u16) | if mf { 0x2000 } else { 0 };
            f[6..8].copy_from_slice(&fo.to_be_bytes());
            f[10] = 0;
            f[11] = 0;
            let c = csum(&f[..20]);
            f[10..12].copy_from_slice(&c.to_be_bytes());
            ip.push(f);
        }
        // raw protocol 253 for the raw socket, unknown protocol 200
        ip.push(ipv4_packet(b4, a4, 253, 10, 64, b"raw payload", false));
        ip.push(ipv4_packet(b4, a4, 200, 11, 64, b"nobody", false));
        // TCP SYN with every option kind
        let mut syn = TcpSeg { sport: 41000, dport: 80, seq: 1000, syn: true, win: 1000, ..Default::default() }.emit();
        syn[12] = 0xa0; // data offset 10
        syn.extend_from_slice(&[2, 4, 5, 0xb4, 3, 3, 7, 4, 2, 8, 10, 0, 0, 0, 1, 0, 0, 0, 0, 0]);
        ip.push(ipv4_packet(b4, a4, 6, 12, 64, &syn, true));
    } else {
        let icmp6 = |src: [u8; 16], dst: [u8; 16], hop: u8, body: Vec<u8>| ipv6_packet(src, dst, 58, hop, &body, true);
        let allnodes = v6b(Ipv6Address::new(0xff02, 0, 0, 0, 0, 0, 0, 1));
        // MLD general query behind a hop-by-hop router alert
        let mut mld = vec![130u8, 0, 0, 0, 0, 100, 0, 0];
        mld.extend_from_slice(&[0; 16]);
        let c = csum_fold(csum_add(pseudo6(&b6, &allnodes, 58, mld.len()), &mld));
        mld[2..4].copy_from_slice(&c.to_be_bytes());
        let mut hbh = vec![58u8, 0, 5, 2, 0, 0, 1, 0];
        hbh.extend_from_slice(&mld);
        ip.push(ipv6_packet(b6, allnodes, 0, 1, &hbh, false));
        // MLDv2 general queries (28 octets) from a link-local router, maximum response codes 0, 1, the largest, and one in
        // the floating-point range
        let ll_b = v6b(Ipv6Address::new(0xfe80, 0, 0, 0, 0, 0, 0, 2));
        for code in [0u16, 1, 0xffff, 0x8123, 1000] {
            let mut q = vec![130u8, 0, 0, 0];
            q.extend_from_slice(&code.to_be_bytes());
            q.extend_from_slice(&[0, 0]);
            q.extend_from_slice(&[0; 16]);
            q.extend_from_slice(&[2, 125, 0, 0]);
            let c = csum_fold(csum_add(pseudo6(&ll_b, &allnodes, 58, q.len()), &q));
            q[2..4].copy_from_slice(&c.to_be_bytes());
            let mut h = vec![58u8, 0, 5, 2, 0, 0, 1, 0];
            h.extend_from_slice(&q);
            ip.push(ipv6_packet(ll_b, allnodes, 0, 1, &h, false));
        }
        // router advertisement: source link-layer address, MTU, prefix information
        let mut ra = vec![134u8, 0, 0, 0, 64, 0, 0x07, 0x08, 0, 0, 0, 0, 0, 0, 0, 0];
        ra.extend_from_slice(&[1, 1, 2, 0, 0, 0, 0, 2]);
        ra.extend_from_slice(&[5, 1, 0, 0, 0, 0, 5, 0]);
        ra.extend_from_slice(&[3, 4, 64, 0xc0, 0, 0, 0x0e, 0x10, 0, 0, 0x07, 0x08, 0, 0, 0, 0]);
        ra.extend_from_slice(&v6b(Ipv6Address::new(0xfd00, 0, 0, 0, 0, 0, 0, 0)));
        ip.push(icmp6(b6, allnodes, 255, ra));
        // unsolicited neighbour advertisement with target link-layer address, neighbour solicitation from a stranger
        let mut na = vec![136u8, 0, 0, 0, 0x20, 0, 0, 0];
        na.extend_from_slice(&b6);
        na.extend_from_slice(&[2, 1, 2, 0, 0, 0, 0, 2]);
        ip.push(icmp6(b6, allnodes, 255, na));
        let mut ns = vec![135u8, 0, 0, 0, 0, 0, 0, 0];
        ns.extend_from_slice(&a6);
        ns.extend_from_slice(&[1, 1, 2, 0, 0, 0, 0, 9]);
        ip.push(icmp6(v6b(Ipv6Address::new(0xfd00, 0, 0, 0, 0, 0, 0, 9)), a6, 255, ns));
        // ICMPv6 errors quoting A's packet: packet too big, time exceeded, destination unreachable, parameter problem
        for (ty, code, rest) in [(2u8, 0u8, [0u8, 0, 5, 0]), (3, 0, [0; 4]), (1, 4, [0; 4]), (4, 1, [0, 0, 0, 6])] {
            let mut m = vec![ty, code, 0, 0];
            m.extend_from_slice(&rest);
            m.extend_from_slice(&quoted[..quoted.len().min(60)]);
            ip.push(icmp6(b6, a6, 64, m));
        }
        // extension header chain: hop-by-hop (PadN), destination options, routing (type 3 RPL-ish, segments left 0), fragment, UDP
        let mut u = udp_datagram(7001, 7000, b"behind extension headers");
        let c = {
            let mut c = csum_fold(csum_add(pseudo6(&b6, &a6, 17, u.len()), &u));
            if c == 0 {
                c = 0xffff;
            }
            c
        };
        u[6..8].copy_from_slice(&c.to_be_bytes());
        let mut chain = vec![60u8, 0, 1, 4, 0, 0, 0, 0];
        chain.extend_from_slice(&[43, 0, 1, 4, 0, 0, 0, 0]);
        chain.extend_from_slice(&[44, 0, 3, 0, 0, 0, 0, 0]);
        chain.extend_from_slice(&[17, 0, 0, 0, 0, 0, 0, 42]);
        chain.extend_from_slice(&u);
        ip.push(ipv6_packet(b6, a6, 0, 64, &chain, false));
        // a routing header with segments left and addresses, a two-fragment datagram
        let mut rh = vec![17u8, 2, 2, 1, 0, 0, 0, 0];
        rh.extend_from_slice(&a6);
        rh.extend_from_slice(&u);
        ip.push(ipv6_packet(b6, a6, 43, 64, &rh, false));
        for (o, mf, sl) in [(0usize, true, &u[0..16]), (16, false, &u[16..])] {
            let fo = (o as u16) | if mf { 1 } else { 0 };
            let mut fr = vec![17u8, 0];
            fr.extend_from_slice(&fo.to_be_bytes());
            fr.extend_from_slice(&[0, 0, 0, 43]);
            fr.extend_from_slice(sl);
            ip.push(ipv6_packet(b6, a6, 44, 64, &fr, false));
        }
        ip.push(ipv6_packet(b6, a6, 253, 64, b"raw payload", false));
        ip.push(ipv6_packet(b6, a6, 200, 64, b"nobody", false));
        let mut syn = TcpSeg { sport: 41000, dport: 80, seq: 1000, syn: true, win: 1000, ..Default::default() }.emit();
        syn[12] = 0xa0;
        syn.extend_from_slice(&[2, 4, 5, 0xb4, 3, 3, 7, 4, 2, 8, 10, 0, 0, 0, 1, 0, 0, 0, 0, 0]);
        ip.push(ipv6_packet(b6, a6, 6, 64, &syn, true));
    }
    let mut out: Vec<Vec<u8>> = vec![];
    for p in ip {
        if med == Med::Eth {
            let mc = p[0] >> 4 == 6 && p[24] == 0xff;
            let dst = if mc { [0x33, 0x33, p[36], p[37], p[38], p[39]] } else if p[0] >> 4 == 4 && p[16] >= 224 { [1, 0, 0x5e, 0, 0, 1] } else { mac(1) };
            out.push(eth_frame(dst, mac(2), if p[0] >> 4 == 4 { 0x0800 } else { 0x86dd }, &p));
        } else {
            out.push(p);
        }
    }
    if med == Med::Eth && v == 4 {
        out.push(eth_frame([0xff; 6], mac(9), 0x0806, &arp_packet(1, mac(9), [10, 0, 0, 9], [0; 6], [10, 0, 0, 1])));
        out.push(eth_frame(mac(1), mac(2), 0x0806, &arp_packet(2, mac(2), [10, 0, 0, 2], mac(1), [10, 0, 0, 1])));
        out.push(eth_frame([0xff; 6], mac(2), 0x0806, &arp_packet(2, mac(2), [10, 0, 0, 2], [0xff; 6], [10, 0, 0, 2])));
    }
    out
}

fn mutate(f: &[u8], mu: &str, off: usize, rng: &mut Rng) -> Option<Vec<u8>> {
    let mut m = f.to_vec();
    let n = f.len();
    match mu {
        "trunc" => {
            m.truncate(off);
            return Some(m);
        }
        "extend" => {
            let k = [1usize, 7, 64, 300];
            if off >= k.len() {
                return None;
            }
            for _ in 0..k[off] {
                m.push(rng.below(256) as u8);
            }
            return Some(m);
        }
        _ => {}
    }
    if off >= n {
        return None;
    }
    match mu {
        "set00" => m[off] = 0,
        "setff" => m[off] = 0xff,
        "set80" => m[off] = 0x80,
        "set7f" => m[off] = 0x7f,
        "inc" => m[off] = m[off].wrapping_add(1),
        "dec" => m[off] = m[off].wrapping_sub(1),
        "flip01" => m[off] ^= 0x01,
        "flip80" => m[off] ^= 0x80,
        "zerotail" => {
            for b in m[off..].iter_mut() {
                *b = 0;
            }
        }
        "fftail" => {
            for b in m[off..].iter_mut() {
                *b = 0xff;
            }
        }
        "swap" => {
            if off + 1 < n {
                m.swap(off, off + 1);
            }
        }
        "rand2" => {
            m[off] = rng.below(256) as u8;
            let o2 = rng.below(n as u64) as usize;
            m[o2] = rng.below(256) as u8;
        }
        "cut" => {
            // remove 1..8 octets at off (everything behind shifts)
            let k = 1 + rng.below(8) as usize;
            let e = (off + k).min(n);
            m.drain(off..e);
        }
        "same" => {}
        _ => return None,
    }
    Some(m)
}

/// a fresh third interface pings A; true if the echo reply with the right payload arrives
fn probe(a: &mut Host, med: Med, v: u8, now: &mut i64, seq: u16) -> std::result::Result<bool, String> {
    let mut c = host(med, v, 0x77, false, false, 0xC0FFEE + seq as u64);
    let aa = a.addr();
    send_echo(&mut c, aa, 24, seq);
    let want = crate::frag::dgram_payload(seq as u32, 24);
    let mut to_a: Vec<Vec<u8>> = vec![];
    for _ in 0..40 {
        *now += 20;
        // frames from A that were caused by earlier garbage may be mixed in; C ignores what is not for it
        let from_a = poll(a, *now, std::mem::take(&mut to_a))?;
        to_a = poll(&mut c, *now, from_a).map_err(|m| format!("probe host: {}", m))?;
        while let Ok((data, _)) = c.sockets.get_mut::<icmp::Socket>(c.icmp).recv() {
            // data: ICMP header (8 octets, type echo reply) + payload
            let reply = (v == 4 && data.first() == Some(&0)) || (v == 6 && data.first() == Some(&129));
            if reply && data.len() >= 8 && data[8..] == want[..] {
                return Ok(true);
            }
        }
    }
    Ok(false)
}

pub fn replay(args: &Args) {
    let rows = read_ndjson(&args.str("sched", ""));
    let outp = args.str("out", "");
    let stride = args.usize("stride", 1).max(1);
    let mut t = Trace::create(&outp);
    PANIC_STDERR.store(false, Ordering::Relaxed);
    // watchdog: a poll that does not return is a hang; record it and stop
    let beat = Arc::new(AtomicU64::new(0));
    let cur: Arc<Mutex<String>> = Arc::new(Mutex::new(String::new()));
    watchdog(beat.clone(), cur.clone(), outp.clone());
    let mut corpus_cache: std::collections::HashMap<(u8, u8), Vec<Cap>> = Default::default();
    let mut injected_total = 0u64;
    for (k, row) in rows.iter().enumerate() {
        let row = if row.get("v").map(|x| x.is_object()).unwrap_or(false) { &row["v"] } else { row };
        if k % 20 == 0 {
            t.ev(json!({"ev":"reset","run":k / 20,"world":"garbage"}));
        }
        let med = match row["m"].as_str().unwrap() {
            "eth" => Med::Eth,
            "ip" => Med::Ip,
            _ => Med::Lowpan,
        };
        let v = row["ipv"].as_u64().unwrap() as u8;
        let ck_ignore = row["ck"].as_str().unwrap() == "ignore";
        let warm = row["ph"].as_str().unwrap() == "warm";
        let stage = row["st"].as_str().unwrap();
        let mu = row["mu"].as_str().unwrap();
        let key = (med as u8, v);
        if !corpus_cache.contains_key(&key) {
            let mut cap = vec![];
            let r = script(med, v, false, false, Some(&mut cap));
            if let Err(m) = r {
                t.ev(json!({"ev":"panic","k":k,"s":row,"msg":format!("script: {}", m)}));
                continue;
            }
            let refl: Vec<Vec<u8>> = cap.iter().filter(|c| !c.to_a).map(|c| c.frame.clone()).collect();
            if med != Med::Lowpan {
                for f in crafted(med, v, &refl) {
                    cap.push(Cap { stage: "crafted", to_a: true, frame: f });
                }
            }
            corpus_cache.insert(key, cap);
        }
        let grammar = stage.ends_with("-grammar");
        let frames: Vec<Vec<u8>> = if grammar {
            grammar_frames(med, stage, mu, &corpus_cache[&key], 0x51ED + k as u64, v)
        } else {
            corpus_cache[&key].iter().filter(|c| if stage == "reflect" { !c.to_a } else { c.to_a && c.stage == stage }).map(|c| c.frame.clone()).collect()
        };
        let mu = if grammar { "once" } else { mu };
        let build = |ck: bool, warm: bool| -> std::result::Result<(Host, i64), String> {
            if warm {
                script(med, v, ck, true, None)
            } else {
                Ok((host(med, v, 1, ck, true, 0xA11CE), 0))
            }
        };
        let (mut a, mut now) = match build(ck_ignore, warm) {
            Ok(x) => x,
            Err(m) => {
                t.ev(json!({"ev":"panic","k":k,"s":row,"msg":format!("build: {}", m)}));
                continue;
            }
        };
        let mut rng = Rng::new(0x6A7B + k as u64);
        // responses to a query that is pending right now (they need its transaction id and port)
        let frames: Vec<Vec<u8>> = if stage == "dns-grammar" {
            match dns_frames(&mut a, &mut now, med, v, mu) {
                Ok(f) => f,
                Err(m) => {
                    t.ev(json!({"ev":"panic","k":k,"s":row,"msg":format!("dns query: {}", m)}));
                    continue;
                }
            }
        } else {
            frames
        };
        let mut panics: Vec<Value> = vec![];
        let mut npanic = 0u64;
        let mut n = 0u64;
        let mut maxtx = 0usize;
        let mut txtotal = 0u64;
        // for the frame-level mutations the "offset" enumerates repetitions / orders
        let frame_level = matches!(mu, "same" | "reverse" | "once");
        let order: Vec<usize> = if mu == "reverse" { (0..frames.len()).rev().collect() } else { (0..frames.len()).collect() };
        for &fi in &order {
            let f = &frames[fi];
            let offs: Vec<usize> = match mu {
                "trunc" => (0..f.len()).collect(),
                "extend" => (0..4).collect(),
                "same" | "reverse" => vec![0, 0],
                "once" => vec![0],
                _ => (0..f.len()).collect(),
            };
            for (oi, &off) in offs.iter().enumerate() {
                if !frame_level && mu != "extend" && stride > 1 && (oi + fi + k) % stride != 0 {
                    continue;
                }
                let m = match mutate(f, if mu == "reverse" || mu == "once" { "same" } else { mu }, off, &mut rng) {
                    Some(m) => m,
                    None => continue,
                };
                n += 1;
                now += if n % 64 == 0 { 3000 } else { 1 };
                if stage == "frag-grammar" && n % 2 == 1 {
                    // each pair of fragments finds the reassembly slots free again (they are kept for 60 s)
                    now += 61_000;
                }
                if let Ok(mut g) = cur.lock() {
                    *g = json!({"k":k,"s":row,"frame":fi,"off":off,"hex":hex(&m)}).to_string();
                }
                beat.fetch_add(1, Ordering::Relaxed);
                HEARTBEAT.fetch_add(1, Ordering::Relaxed);
                match poll(&mut a, now, vec![m.clone()]) {
                    Ok(out) => {
                        maxtx = maxtx.max(out.len());
                        txtotal += out.len() as u64;
                    }
                    Err(msg) => {
                        npanic += 1;
                        if panics.len() < 3 {
                            panics.push(json!({"frame":fi,"off":off,"msg":msg,"hex":hex(&m)}));
                        }
                        // the interface may be inconsistent after unwinding: start over
                        match build(ck_ignore, warm) {
                            Ok((a2, _)) => a = a2,
                            Err(_) => break,
                        }
                    }
                }
            }
        }
        injected_total += n;
        beat.fetch_add(1, Ordering::Relaxed);
        let pr = match probe(&mut a, med, v, &mut now, 100 + (k % 1000) as u16) {
            Ok(true) => "ok".to_string(),
            Ok(false) => "silent".to_string(),
            Err(m) => {
                npanic += 1;
                if panics.len() < 3 {
                    panics.push(json!({"frame":-1,"off":0,"msg":m,"hex":""}));
                }
                "panic".to_string()
            }
        };
        let locs: Vec<String> = {
            let mut l: Vec<String> = panics.iter().map(|p| p["msg"].as_str().unwrap_or("").rsplit(" @ ").next().unwrap_or("").to_string()).collect();
            l.sort();
            l.dedup();
            l
        };
        t.ev(json!({"ev":"row","k":k,"s":row,"frames":frames.len(),"n":n,"npanic":npanic,"panics":panics,"locs":locs,"probe":pr,"maxtx":maxtx,"txtotal":txtotal}));
    }
    println!("{}", json!({"runs": 1, "events": t.finish(), "injected": injected_total}));
}

/// length of the IEEE 802.15.4 MAC header (independent of smoltcp::wire)
fn mac_hdr_len(f: &[u8]) -> usize {
    if f.len() < 3 {
        return 0;
    }
    let fc = u16::from_le_bytes([f[0], f[1]]);
    let dam = (fc >> 10) & 3;
    let sam = (fc >> 14) & 3;
    let pidc = (fc >> 6) & 1;
    let mut l = 3;
    if dam != 0 {
        l += 2 + if dam == 2 { 2 } else { 8 };
    }
    if sam != 0 {
        l += (if pidc == 0 { 2 } else { 0 }) + if sam == 2 { 2 } else { 8 };
    }
    l.min(f.len())
}

/// number of octets carried inline after the two IPHC octets (RFC 6282 section 3.1)
fn iphc_inline_len(b0: u8, b1: u8) -> usize {
    let tf = (b0 >> 3) & 3;
    let nh = (b0 >> 2) & 1;
    let hlim = b0 & 3;
    let cid = b1 >> 7;
    let sac = (b1 >> 6) & 1;
    let sam = (b1 >> 4) & 3;
    let m = (b1 >> 3) & 1;
    let dac = (b1 >> 2) & 1;
    let dam = b1 & 3;
    let mut n = [4usize, 3, 1, 0][tf as usize];
    n += cid as usize;
    n += if nh == 0 { 1 } else { 0 };
    n += if hlim == 0 { 1 } else { 0 };
    n += match (sac, sam) {
        (0, 0) => 16,
        (1, 0) => 0,
        (_, 1) => 8,
        (_, 2) => 2,
        _ => 0,
    };
    n += match (m, dac, dam) {
        (0, 0, 0) => 16,
        (0, 1, 0) => 0,
        (0, _, 1) => 8,
        (0, _, 2) => 2,
        (0, _, _) => 0,
        (1, 0, 0) => 16,
        (1, 0, 1) => 6,
        (1, 0, 2) => 4,
        (1, 0, _) => 1,
        (1, _, 0) => 6,
        (_, _, _) => 0,
    };
    n
}

/// Frames built from the grammar of the headers rather than from a recorded exchange.
fn grammar_frames(med: Med, stage: &str, kind: &str, corpus: &[Cap], seed: u64, v: u8) -> Vec<Vec<u8>> {
    let _ = v;
    let mut rng = Rng::new(seed);
    let mut out = vec![];
    match (med, stage) {
        (Med::Lowpan, "iphc-grammar") => {
            // MAC header of a real unicast data frame from B
            let base = corpus.iter().find(|c| c.to_a && c.stage == "udp-small" && c.frame.len() > 30).or_else(|| corpus.iter().find(|c| c.to_a)).map(|c| c.frame.clone()).unwrap_or_default();
            let mac = base[..mac_hdr_len(&base)].to_vec();
            for b0low in 0..32u8 {
                for b1 in 0..=255u8 {
                    let b0 = 0x60 | b0low;
                    let inl = iphc_inline_len(b0, b1);
                    let variants = match kind {
                        "exthdr" => 6,
                        "udp-nhc" => 8,
                        _ => 1,
                    };
                    for var in 0..variants {
                        let mut f = mac.clone();
                        f.push(b0);
                        f.push(b1);
                        for _ in 0..inl {
                            f.push(rng.below(256) as u8);
                        }
                        match kind {
                            "short" => {
                                let cut = rng.below(inl as u64 + 1) as usize;
                                f.truncate(mac.len() + 2 + cut);
                            }
                            "rand" => {
                                for _ in 0..rng.below(70) {
                                    f.push(rng.below(256) as u8);
                                }
                            }
                            "exthdr" => {
                                // chain of LOWPAN_NHC extension headers: 1110 EID NH, [next header], length, data
                                let chain = 1 + var % 3;
                                for c in 0..chain {
                                    let eid = rng.below(8) as u8;
                                    let nhb = if c + 1 == chain { (var as u8) & 1 } else { 1 };
                                    f.push(0xe0 | (eid << 1) | nhb);
                                    if nhb == 0 {
                                        f.push([17u8, 6, 58, 59, 0, 43][rng.below(6) as usize]);
                                    }
                                    let len = [0u8, 1, 6, 14, 200, 255][((var + c) % 6) as usize];
                                    f.push(len);
                                    for _ in 0..(len as usize).min(20) {
                                        f.push(rng.below(256) as u8);
                                    }
                                }
                                f.extend_from_slice(&[0xf0, 0x1b, 0x58, 0x1b, 0x58, 0, 0, 1, 2, 3]);
                            }
                            _ => {
                                // LOWPAN_NHC UDP: 11110 C PP, ports, [checksum], payload; all eight forms, some cut short
                                let cpp = var as u8;
                                f.push(0xf0 | cpp);
                                let ports = [4usize, 3, 3, 1][(cpp & 3) as usize];
                                let ck = if cpp & 4 == 0 { 2 } else { 0 };
                                let full = ports + ck + 12;
                                let keep = if rng.chance(30) { rng.below(full as u64 + 1) as usize } else { full };
                                for _ in 0..keep {
                                    f.push(rng.below(256) as u8);
                                }
                            }
                        }
                        out.push(f);
                    }
                }
            }
        }
        (Med::Lowpan, _) => {
            // FRAG1 / FRAGN headers: every combination of a few sizes, tags and offsets, as pairs on one interface
            let base = corpus.iter().find(|c| c.to_a && c.stage == "udp-small" && c.frame.len() > 30).or_else(|| corpus.iter().find(|c| c.to_a)).map(|c| c.frame.clone()).unwrap_or_default();
            let l = mac_hdr_len(&base);
            let mac = base[..l].to_vec();
            let inner = base[l..].to_vec(); // a compressed datagram that really decodes
            let sizes = [0u16, 1, 39, 40, 48, 100, 1280, 1499, 1500, 1501, 2047];
            let offs = [0u8, 1, 5, 6, 12, 160, 187, 188, 255];
            let lens = [0usize, 1, 7, 8, 40, 96];
            if kind == "pairs" {
                // FRAG1 carrying the real compressed datagram whole, announcing every size around its true one (first:
                // a reassembly buffer that grows on demand is as short as the largest size announced so far)
                for sz in 40..(56 + inner.len() as u16) {
                    let mut f1 = mac.clone();
                    f1.extend_from_slice(&(0xc000u16 | sz).to_be_bytes());
                    f1.extend_from_slice(&(0x4000u16 + sz).to_be_bytes());
                    f1.extend_from_slice(&inner);
                    // (twice: a FRAG1 that is refused keeps the reassembly slot, so of each two frames one finds it free)
                    out.push(f1.clone());
                    out.push(f1);
                }
            }
            for &sz in &sizes {
                for &tag in &[0x0000u16, 0xffff] {
                    // FRAG1 carrying the real compressed head, then FRAGN at each offset / length
                    for &o in &offs {
                        for &ln in &lens {
                            let mut f1 = mac.clone();
                            f1.extend_from_slice(&(0xc000u16 | sz).to_be_bytes());
                            f1.extend_from_slice(&tag.to_be_bytes());
                            if kind == "pairs" {
                                f1.extend_from_slice(&inner);
                            } else {
                                for _ in 0..rng.below(60) {
                                    f1.push(rng.below(256) as u8);
                                }
                            }
                            let mut fnn = mac.clone();
                            fnn.extend_from_slice(&(0xe000u16 | sz).to_be_bytes());
                            fnn.extend_from_slice(&tag.to_be_bytes());
                            fnn.push(o);
                            for _ in 0..ln {
                                fnn.push(rng.below(256) as u8);
                            }
                            if kind == "fragn-first" {
                                out.push(fnn);
                                out.push(f1);
                            } else {
                                out.push(f1);
                                out.push(fnn);
                            }
                        }
                    }
                }
            }
        }
        (_, "dns-grammar") => {} // built after the interface exists (needs the pending query's id and port)
        (_, "opt-grammar") => {
            out = option_frames(med, v, kind, corpus, &mut rng);
        }
        _ => {
            // IPv4 fragments: pairs (same ident) over offset x length x MF, valid header checksum
            let opts: Vec<(u16, usize, bool)> = [0u16, 1, 2, 3, 185, 8191].iter().flat_map(|&o| [0usize, 1, 8, 9, 24, 500].iter().flat_map(move |&l| [false, true].iter().map(move |&mf| (o, l, mf)))).collect();
            let mk = |id: u16, (o, l, mf): (u16, usize, bool), proto: u8, rng: &mut Rng| -> Vec<u8> {
                let body: Vec<u8> = if o == 0 && proto == 17 {
                    let mut u = udp_datagram(7001, 7000, &vec![0x55; 64]);
                    u.resize(l.max(8), 0x55);
                    u.truncate(l);
                    u
                } else {
                    (0..l).map(|_| rng.below(256) as u8).collect()
                };
                let mut f = ipv4_packet([10, 0, 0, 2], [10, 0, 0, 1], proto, id, 64, &body, false);
                let fo = o | if mf { 0x2000 } else { 0 };
                f[6..8].copy_from_slice(&fo.to_be_bytes());
                f[10] = 0;
                f[11] = 0;
                let c = csum(&f[..20]);
                f[10..12].copy_from_slice(&c.to_be_bytes());
                if med == Med::Eth {
                    eth_frame(mac(1), mac(2), 0x0800, &f)
                } else {
                    f
                }
            };
            let proto = if kind == "icmp" { 1 } else { 17 };
            let mut id = 1u16;
            for &x in &opts {
                for &y in &opts {
                    id = id.wrapping_add(1);
                    out.push(mk(id, x, proto, &mut rng));
                    out.push(mk(id, y, proto, &mut rng));
                }
            }
        }
    }
    out
}

/// Seeded random histories: arbitrary octet strings, recorded frames with several octets changed, spliced and
/// truncated frames, unchanged frames in any order, with time advancing by anything from nothing to minutes.
pub fn random(args: &Args) {
    let seed = args.u64("seed", 1);
    let runs = args.usize("runs", 50);
    let steps = args.usize("steps", 1500);
    let outp = args.str("out", "");
    let mut t = Trace::create(&outp);
    PANIC_STDERR.store(false, Ordering::Relaxed);
    let beat = Arc::new(AtomicU64::new(0));
    let cur: Arc<Mutex<String>> = Arc::new(Mutex::new(String::new()));
    watchdog(beat.clone(), cur.clone(), outp.clone());
    let mut corpus_cache: std::collections::HashMap<(u8, u8), Vec<Cap>> = Default::default();
    let mut injected_total = 0u64;
    for run in 0..runs {
        let mut rng = Rng::new(seed.wrapping_mul(1_000_003).wrapping_add(run as u64));
        if run % 10 == 0 {
            t.ev(json!({"ev":"reset","run":run / 10,"world":"garbage","seed":seed}));
        }
        let (med, v) = [(Med::Eth, 4u8), (Med::Eth, 6), (Med::Ip, 4), (Med::Ip, 6), (Med::Lowpan, 6), (Med::Lowpan, 6)][rng.below(6) as usize];
        let ck_ignore = rng.chance(60);
        let warm = rng.chance(70);
        let row = json!({"m": match med { Med::Eth => "eth", Med::Ip => "ip", _ => "lowpan" }, "ipv": v, "ph": if warm { "warm" } else { "fresh" }, "ck": if ck_ignore { "ignore" } else { "verify" }, "st": "random", "mu": format!("seed-{}-{}", seed, run)});
        let key = (med as u8, v);
        if !corpus_cache.contains_key(&key) {
            let mut cap = vec![];
            if let Err(m) = script(med, v, false, false, Some(&mut cap)) {
                t.ev(json!({"ev":"panic","k":run,"s":row,"msg":format!("script: {}", m)}));
                continue;
            }
            let refl: Vec<Vec<u8>> = cap.iter().filter(|c| !c.to_a).map(|c| c.frame.clone()).collect();
            if med != Med::Lowpan {
                for f in crafted(med, v, &refl) {
                    cap.push(Cap { stage: "crafted", to_a: true, frame: f });
                }
            }
            corpus_cache.insert(key, cap);
        }
        let corpus = &corpus_cache[&key];
        let build = |ck: bool, warm: bool| -> std::result::Result<(Host, i64), String> {
            if warm {
                script(med, v, ck, true, None)
            } else {
                Ok((host(med, v, 1, ck, true, 0xA11CE), 0))
            }
        };
        let (mut a, mut now) = match build(ck_ignore, warm) {
            Ok(x) => x,
            Err(m) => {
                t.ev(json!({"ev":"panic","k":run,"s":row,"msg":format!("build: {}", m)}));
                continue;
            }
        };
        let mtu = match med {
            Med::Eth => 590,
            Med::Ip => 576,
            _ => 125,
        };
        let mut panics: Vec<Value> = vec![];
        let mut npanic = 0u64;
        let mut n = 0u64;
        let mut maxtx = 0usize;
        let mut txtotal = 0u64;
        for _ in 0..steps {
            let pickf = |rng: &mut Rng| corpus[rng.below(corpus.len() as u64) as usize].frame.clone();
            let m: Vec<u8> = match rng.below(100) {
                0..=7 => (0..rng.below(mtu as u64 + 20)).map(|_| rng.below(256) as u8).collect(),
                8..=17 => pickf(&mut rng),
                18..=69 => {
                    let mut f = pickf(&mut rng);
                    if !f.is_empty() {
                        for _ in 0..1 + rng.below(6) {
                            // biased towards the headers
                            let o = if rng.chance(60) { rng.below(f.len().min(70) as u64) } else { rng.below(f.len() as u64) } as usize;
                            f[o] = match rng.below(6) {
                                0 => 0,
                                1 => 0xff,
                                2 => f[o].wrapping_add(1),
                                3 => f[o] ^ (1 << rng.below(8)),
                                _ => rng.below(256) as u8,
                            };
                        }
                    }
                    f
                }
                70..=79 => {
                    let mut f = pickf(&mut rng);
                    let k = rng.below(f.len() as u64 + 1) as usize;
                    f.truncate(k);
                    f
                }
                80..=89 => {
                    // splice: head of one frame, tail of another
                    let f = pickf(&mut rng);
                    let g = pickf(&mut rng);
                    let i = rng.below(f.len() as u64 + 1) as usize;
                    let j = rng.below(g.len() as u64 + 1) as usize;
                    let mut h = f[..i].to_vec();
                    h.extend_from_slice(&g[j..]);
                    h.truncate(mtu + 20);
                    h
                }
                _ => {
                    let mut f = pickf(&mut rng);
                    for _ in 0..rng.below(40) {
                        f.push(rng.below(256) as u8);
                    }
                    f
                }
            };
            n += 1;
            now += [0i64, 1, 1, 1, 100, 1000, 10_000, 100_000][rng.below(8) as usize];
            if let Ok(mut g) = cur.lock() {
                *g = json!({"k":run,"s":row,"frame":n,"off":0,"hex":hex(&m)}).to_string();
            }
            beat.fetch_add(1, Ordering::Relaxed);
            match poll(&mut a, now, vec![m.clone()]) {
                Ok(out) => {
                    maxtx = maxtx.max(out.len());
                    txtotal += out.len() as u64;
                }
                Err(msg) => {
                    npanic += 1;
                    if panics.len() < 3 {
                        panics.push(json!({"frame":n,"off":0,"msg":msg,"hex":hex(&m)}));
                    }
                    match build(ck_ignore, warm) {
                        Ok((a2, _)) => a = a2,
                        Err(_) => break,
                    }
                }
            }
        }
        injected_total += n;
        beat.fetch_add(1, Ordering::Relaxed);
        let pr = match probe(&mut a, med, v, &mut now, 100 + (run % 1000) as u16) {
            Ok(true) => "ok".to_string(),
            Ok(false) => "silent".to_string(),
            Err(m) => {
                npanic += 1;
                if panics.len() < 3 {
                    panics.push(json!({"frame":-1,"off":0,"msg":m,"hex":""}));
                }
                "panic".to_string()
            }
        };
        let locs: Vec<String> = {
            let mut l: Vec<String> = panics.iter().map(|p| p["msg"].as_str().unwrap_or("").rsplit(" @ ").next().unwrap_or("").to_string()).collect();
            l.sort();
            l.dedup();
            l
        };
        t.ev(json!({"ev":"row","k":run,"s":row,"frames":corpus.len(),"n":n,"npanic":npanic,"panics":panics,"locs":locs,"probe":pr,"maxtx":maxtx,"txtotal":txtotal}));
    }
    println!("{}", json!({"runs": runs, "events": t.finish(), "injected": injected_total}));
}

/// a poll that does not return is a hang: record what was being injected and stop the process
fn watchdog(beat: Arc<AtomicU64>, cur: Arc<Mutex<String>>, outp: String) {
    std::thread::spawn(move || {
        let mut last = 0u64;
        let mut idle = 0u32;
        loop {
            std::thread::sleep(std::time::Duration::from_millis(250));
            let b = beat.load(Ordering::Relaxed);
            if b == last {
                idle += 1;
            } else {
                idle = 0;
                last = b;
            }
            if idle >= 80 {
                let c = cur.lock().map(|g| g.clone()).unwrap_or_default();
                std::fs::write(outp.clone() + ".hang", c).ok();
                std::process::exit(3);
            }
        }
    });
}

/// offset of the IP header in a frame of this medium
fn ip_off(med: Med) -> usize {
    if med == Med::Eth {
        14
    } else {
        0
    }
}

/// recompute lengths and checksums of an IPv4 / IPv6 packet carrying TCP, UDP or ICMPv6 directly (no extension headers)
fn fix_ip(p: &mut Vec<u8>) {
    if p.len() < 20 {
        return;
    }
    if p[0] >> 4 == 4 {
        let ihl = ((p[0] & 15) as usize) * 4;
        if ihl < 20 || p.len() < ihl {
            return;
        }
        let total = p.len() as u16;
        p[2..4].copy_from_slice(&total.to_be_bytes());
        p[10] = 0;
        p[11] = 0;
        let c = csum(&p[..ihl]);
        p[10..12].copy_from_slice(&c.to_be_bytes());
        let proto = p[9];
        let (src, dst) = (p[12..16].to_vec(), p[16..20].to_vec());
        let l4 = &mut p[ihl..];
        let off = match proto {
            6 => 16,
            17 => 6,
            _ => return,
        };
        if l4.len() < off + 2 {
            return;
        }
        l4[off] = 0;
        l4[off + 1] = 0;
        let c = csum_fold(csum_add(pseudo4(&src, &dst, proto, l4.len()), l4));
        l4[off..off + 2].copy_from_slice(&c.to_be_bytes());
    } else if p.len() >= 40 {
        let pl = (p.len() - 40) as u16;
        p[4..6].copy_from_slice(&pl.to_be_bytes());
        let next = p[6];
        let (src, dst) = (p[8..24].to_vec(), p[24..40].to_vec());
        let l4 = &mut p[40..];
        let off = match next {
            6 => 16,
            17 => 6,
            58 => 2,
            _ => return,
        };
        if l4.len() < off + 2 {
            return;
        }
        l4[off] = 0;
        l4[off + 1] = 0;
        let c = csum_fold(csum_add(pseudo6(&src, &dst, next, l4.len()), l4));
        l4[off..off + 2].copy_from_slice(&c.to_be_bytes());
    }
}

/// Frames whose option areas are enumerated: option kind x announced length x room actually there.
fn option_frames(med: Med, v: u8, kind: &str, corpus: &[Cap], rng: &mut Rng) -> Vec<Vec<u8>> {
    let mut out: Vec<Vec<u8>> = vec![];
    let io = ip_off(med);
    let wrap = |p: Vec<u8>, like: &[u8]| -> Vec<u8> {
        if med == Med::Eth {
            let mut f = like[..14].to_vec();
            f.extend_from_slice(&p);
            f
        } else {
            p
        }
    };
    let hdr = if v == 4 { 20 } else { 40 };
    match kind {
        "tcp" => {
            // carriers: the peer's SYN (to the listener) and a data segment of the open connection
            let carriers: Vec<Vec<u8>> = corpus
                .iter()
                .filter(|c| c.to_a && c.stage == "tcp-passive" && c.frame.len() >= io + hdr + 20)
                .filter(|c| {
                    let p = &c.frame[io..];
                    (v == 4 && p[0] >> 4 == 4 && p[9] == 6) || (v == 6 && p[0] >> 4 == 6 && p[6] == 6)
                })
                .map(|c| c.frame.clone())
                .collect();
            let mut pick: Vec<Vec<u8>> = vec![];
            if let Some(f) = carriers.first() {
                pick.push(f.clone());
            }
            if let Some(f) = carriers.iter().max_by_key(|f| f.len()) {
                pick.push(f.clone());
            }
            for f in pick {
                let p = &f[io..];
                let doff = ((p[hdr + 12] >> 4) as usize) * 4;
                let head = p[..hdr + 20].to_vec();
                let payload = p[(hdr + doff).min(p.len())..].to_vec();
                for &k in &[0u8, 1, 2, 3, 4, 5, 8, 30, 254, 255] {
                    for len in 0..=42u8 {
                        for &area in &[4usize, 12, 40] {
                            let mut opts = vec![k, len];
                            while opts.len() < area {
                                opts.push(if opts.len() < len as usize { rng.below(256) as u8 } else { 1 });
                            }
                            opts.truncate(area);
                            let mut q = head.clone();
                            q[hdr + 12] = (((20 + area) / 4) as u8) << 4 | (q[hdr + 12] & 0x0f);
                            q.extend_from_slice(&opts);
                            q.extend_from_slice(&payload);
                            fix_ip(&mut q);
                            out.push(wrap(q, &f));
                        }
                    }
                }
            }
        }
        "ipv4" => {
            if let Some(f) = corpus.iter().find(|c| c.to_a && c.stage == "udp-small" && c.frame.len() >= io + 28 && c.frame[io] == 0x45 && c.frame[io + 9] == 17) {
                let p = &f.frame[io..];
                for ihl in 5..=15usize {
                    for &k in &[0u8, 1, 7, 68, 131, 137, 148, 255] {
                        for len in [0u8, 1, 2, 3, 4, 7, 8, 11, 39, 40, 41, 255] {
                            let mut q = p[..20].to_vec();
                            q[0] = 0x40 | ihl as u8;
                            let mut opts = vec![k, len, 4];
                            while opts.len() < (ihl - 5) * 4 {
                                opts.push(rng.below(256) as u8);
                            }
                            opts.truncate((ihl - 5) * 4);
                            q.extend_from_slice(&opts);
                            q.extend_from_slice(&p[20..]);
                            fix_ip(&mut q);
                            out.push(wrap(q, &f.frame));
                        }
                    }
                }
            }
        }
        "ndisc" => {
            // carriers: neighbour solicitation for A, neighbour advertisement, router advertisement, redirect
            let like = corpus.iter().find(|c| c.to_a && c.frame.len() >= io + 40 && c.frame[io] >> 4 == 6).map(|c| c.frame.clone()).unwrap_or_else(|| vec![0; 14]);
            let a6 = v6b(Ipv6Address::new(0xfd00, 0, 0, 0, 0, 0, 0, 1));
            let b6 = v6b(Ipv6Address::new(0xfd00, 0, 0, 0, 0, 0, 0, 2));
            let mut heads: Vec<Vec<u8>> = vec![];
            let mut ns = vec![135u8, 0, 0, 0, 0, 0, 0, 0];
            ns.extend_from_slice(&a6);
            heads.push(ns);
            let mut na = vec![136u8, 0, 0, 0, 0x60, 0, 0, 0];
            na.extend_from_slice(&b6);
            heads.push(na);
            heads.push(vec![134u8, 0, 0, 0, 64, 0, 0x07, 0x08, 0, 0, 0, 0, 0, 0, 0, 0]);
            let mut rd = vec![137u8, 0, 0, 0, 0, 0, 0, 0];
            rd.extend_from_slice(&b6);
            rd.extend_from_slice(&b6);
            heads.push(rd);
            heads.push(vec![133u8, 0, 0, 0, 0, 0, 0, 0]);
            for h in &heads {
                for &ty in &[0u8, 1, 2, 3, 4, 5, 14, 24, 25, 31, 255] {
                    for &len in &[0u8, 1, 2, 3, 4, 5, 32, 255] {
                        for &have in &[0usize, 1, 2, 6, 7, 8, 15, 16, 24, 32, 40] {
                            let mut body = h.clone();
                            if have >= 1 {
                                body.push(ty);
                            }
                            if have >= 2 {
                                body.push(len);
                            }
                            while body.len() < h.len() + have {
                                body.push(rng.below(256) as u8);
                            }
                            let p = ipv6_packet(b6, a6, 58, 255, &body, true);
                            out.push(wrap(p, &like));
                        }
                    }
                }
            }
        }
        "hbh" => {
            let like = corpus.iter().find(|c| c.to_a && c.frame.len() >= io + 40 && c.frame[io] >> 4 == 6).map(|c| c.frame.clone()).unwrap_or_else(|| vec![0; 14]);
            let a6 = v6b(Ipv6Address::new(0xfd00, 0, 0, 0, 0, 0, 0, 1));
            let b6 = v6b(Ipv6Address::new(0xfd00, 0, 0, 0, 0, 0, 0, 2));
            let mut u = udp_datagram(7001, 7000, b"options in front");
            let c = csum_fold(csum_add(pseudo6(&b6, &a6, 17, u.len()), &u));
            u[6..8].copy_from_slice(&c.to_be_bytes());
            for &eh in &[0u8, 60, 43] {
                for &ty in &[0u8, 1, 5, 0x3e, 0x63, 0x7f, 0x80, 0xc2, 0xff] {
                    for len in 0..=20u8 {
                        for &hlen in &[0u8, 1, 2, 31] {
                            for &room in &[8usize, 16, 24] {
                                let mut x = vec![17u8, hlen, ty, len];
                                while x.len() < room {
                                    x.push(rng.below(4) as u8);
                                }
                                x.extend_from_slice(&u);
                                out.push(wrap(ipv6_packet(b6, a6, eh, 64, &x, false), &like));
                            }
                        }
                    }
                }
            }
        }
        _ => {
            // DHCP: the server's recorded offer / ack with the option area replaced
            for f in corpus.iter().filter(|c| c.to_a && c.stage == "dhcp" && c.frame.len() > 282) {
                let fixed = &f.frame[..14 + 20 + 8 + 240];
                for &code in &[0u8, 1, 3, 6, 12, 51, 52, 53, 54, 58, 59, 61, 255] {
                    for &len in &[0u8, 1, 2, 3, 4, 5, 8, 12, 200, 255] {
                        for &have in &[0usize, 1, 2, 3, 6, 14, 260] {
                            let mut q = fixed.to_vec();
                            // message type first in half of the cases, so that parsing goes on
                            if have % 2 == 0 {
                                q.extend_from_slice(&[53, 1, if code % 2 == 0 { 2 } else { 5 }]);
                            }
                            let mut o = vec![code, len];
                            while o.len() < have {
                                o.push(rng.below(256) as u8);
                            }
                            o.truncate(have);
                            q.extend_from_slice(&o);
                            let mut p = q[14..].to_vec();
                            let ul = (p.len() - 20) as u16;
                            p[24..26].copy_from_slice(&ul.to_be_bytes());
                            p[26] = 0;
                            p[27] = 0; // UDP checksum 0 = none (IPv4)
                            p[0] = 0x45;
                            let tl = p.len() as u16;
                            p[2..4].copy_from_slice(&tl.to_be_bytes());
                            p[10] = 0;
                            p[11] = 0;
                            let c = csum(&p[..20]);
                            p[10..12].copy_from_slice(&c.to_be_bytes());
                            let mut fr = q[..14].to_vec();
                            fr.extend_from_slice(&p);
                            out.push(fr);
                        }
                    }
                }
            }
        }
    }
    out
}

/// Starts a DNS query on A and builds responses to it whose names exercise the compression-pointer walk: pointers to
/// themselves, cycles, pointers into the header / beyond the end / into the middle of a label, truncated pointers,
/// overlong and reserved labels, in the question, in an answer's owner name and in CNAME data.
fn dns_frames(a: &mut Host, now: &mut i64, med: Med, v: u8, kind: &str) -> std::result::Result<Vec<Vec<u8>>, String> {
    let Some(h) = a.dns else { return Ok(vec![]) };
    {
        let cx = a.iface.context();
        let _ = a.sockets.get_mut::<dns::Socket>(h).start_query(cx, "host.test", DnsQueryType::A);
    }
    let io = ip_off(med);
    let hdr = if v == 4 { 20 } else { 40 };
    let mut q: Option<(u16, u16)> = None; // (transaction id, client port)
    for _ in 0..6 {
        *now += 10;
        for f in poll(a, *now, vec![])? {
            if f.len() >= io + hdr + 8 + 12 {
                let u = &f[io + hdr..];
                let is_udp = if v == 4 { f[io] >> 4 == 4 && f[io + 9] == 17 } else { f[io] >> 4 == 6 && f[io + 6] == 17 };
                if is_udp && u16::from_be_bytes([u[2], u[3]]) == 53 {
                    q = Some((u16::from_be_bytes([u[8], u[9]]), u16::from_be_bytes([u[0], u[1]])));
                }
            }
        }
        if q.is_some() {
            break;
        }
    }
    let Some((id, cport)) = q else { return Ok(vec![]) };
    let names = |at: usize| -> Vec<Vec<u8>> {
        let at = at as u8;
        vec![
            vec![0xC0, at],
            vec![0xC0, at + 2, 0xC0, at],
            vec![1, b'a', 0xC0, at],
            vec![0xC0, 0x00],
            vec![0xC0, 0xFF],
            vec![0xC0, at + 1],
            vec![4, b'h', b'o', b's', b't', 0xC0, at],
            vec![0x3F, b'x', b'x', b'x', b'x', b'x', b'x', b'x', b'x', b'x', b'x'],
            vec![0x40, 1],
            vec![0x80, 1],
            vec![0xC0],
            vec![4, b'h', b'o', b's', b't', 4, b't', b'e', b's', b't', 0],
        ]
    };
    let valid_q: Vec<u8> = vec![4, b'h', b'o', b's', b't', 4, b't', b'e', b's', b't', 0];
    let mut msgs: Vec<Vec<u8>> = vec![];
    let head = |an: u16| -> Vec<u8> {
        let mut m = vec![];
        m.extend_from_slice(&id.to_be_bytes());
        m.extend_from_slice(&[0x81, 0x80, 0, 1]);
        m.extend_from_slice(&an.to_be_bytes());
        m.extend_from_slice(&[0, 0, 0, 0]);
        m
    };
    match kind {
        "question" => {
            for qn in names(12) {
                let mut m = head(0);
                m.extend_from_slice(&qn);
                m.extend_from_slice(&[0, 1, 0, 1]);
                msgs.push(m);
            }
        }
        "owner" => {
            let ao = 12 + valid_q.len() + 4;
            for on in names(ao) {
                let mut m = head(1);
                m.extend_from_slice(&valid_q);
                m.extend_from_slice(&[0, 1, 0, 1]);
                m.extend_from_slice(&on);
                m.extend_from_slice(&[0, 1, 0, 1, 0, 0, 0, 60, 0, 4, 10, 0, 0, 9]);
                msgs.push(m);
            }
        }
        _ => {
            // CNAME record for the queried name whose data is the hostile name, followed by an A record for it
            let ao = 12 + valid_q.len() + 4;
            let ro = ao + 2 + 10; // owner as a pointer to the question (2 octets), fixed part (10)
            for tn in names(ro) {
                let mut m = head(2);
                m.extend_from_slice(&valid_q);
                m.extend_from_slice(&[0, 1, 0, 1]);
                m.extend_from_slice(&[0xC0, 12, 0, 5, 0, 1, 0, 0, 0, 60]);
                m.extend_from_slice(&(tn.len() as u16).to_be_bytes());
                m.extend_from_slice(&tn);
                m.extend_from_slice(&[0xC0, ro as u8, 0, 1, 0, 1, 0, 0, 0, 60, 0, 4, 10, 0, 0, 9]);
                msgs.push(m);
            }
        }
    }
    // every message also cut short at each length of its tail (the name walk must stop at the end of the packet)
    let mut all: Vec<Vec<u8>> = vec![];
    for m in &msgs {
        all.push(m.clone());
        for cut in 12..m.len() {
            all.push(m[..cut].to_vec());
        }
    }
    let mut out = vec![];
    for m in all {
        let u = udp_datagram(53, cport, &m);
        let p = if v == 4 {
            ipv4_packet([10, 0, 0, 2], [10, 0, 0, 1], 17, 77, 64, &u, true)
        } else {
            let (s6, d6) = if med == Med::Lowpan { (v6b(a.v6), v6b(a.v6)) } else { (v6b(Ipv6Address::new(0xfd00, 0, 0, 0, 0, 0, 0, 2)), v6b(Ipv6Address::new(0xfd00, 0, 0, 0, 0, 0, 0, 1))) };
            ipv6_packet(s6, d6, 17, 64, &u, true)
        };
        out.push(if med == Med::Eth { eth_frame(mac(1), mac(2), if v == 4 { 0x0800 } else { 0x86dd }, &p) } else { p });
    }
    Ok(out)
}
