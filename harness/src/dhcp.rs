//! World `dhcp` (C18): a real dhcpv4::Socket on Ethernet against a scripted, hostile server; polling is driven by
//! poll_at; the application applies every Configured / Deconfigured event to the interface, as the API demands.
use crate::dev::QDev;
use crate::frames::*;
use crate::util::*;
use serde_json::{json, Value};
use smoltcp::iface::{Config, Interface, SocketSet};
use smoltcp::phy::Medium;
use smoltcp::socket::dhcpv4;
use smoltcp::time::{Duration, Instant};
use smoltcp::wire::{EthernetAddress, HardwareAddress, IpCidr, Ipv4Cidr};

const MY_MAC: [u8; 6] = [2, 0, 0, 0, 0, 1];
const SRV_MAC: [u8; 6] = [2, 0, 0, 0, 0, 0x53];
const SRV_IP: [u8; 4] = [10, 0, 0, 53];

fn proj(f: &[u8]) -> Value {
    if f.len() < 14 + 28 {
        return json!({"k": "other"});
    }
    let et = u16::from_be_bytes([f[12], f[13]]);
    if et != 0x0800 {
        return json!({"k": if et == 0x0806 {"arp"} else {"other"}});
    }
    let Some(ip) = parse_ip(&f[14..]) else { return json!({"k": "ip-bad"}) };
    if let L4::Udp { sport, dport, payload, csum_ok, .. } = &ip.l4 {
        if (*sport == 68 && *dport == 67) || (*sport == 67 && *dport == 68) {
            if let Some(m) = DhcpMsg::parse(payload) {
                let mask_ok = m.mask.map(|x| { let v = u32::from_be_bytes(x); v.leading_ones() + v.trailing_zeros() == 32 }).unwrap_or(false);
                let yi = m.yiaddr;
                let yi_uni = !(yi == [0, 0, 0, 0] || yi == [255, 255, 255, 255] || (yi[0] >= 224)) && yi[0] != 127;
                return json!({"k":"dhcp","type":m.mtype,"xid":(m.xid & 0x7fffffff) as i64,"xidhi":m.xid >> 31,"ch_ok":m.chaddr == MY_MAC,"sid":m.server_id.is_some(),
                    "mask_ok":mask_ok,"yi_uni":yi_uni,"lease":m.lease.map(|x| (x as i64).min(1_000_000)).unwrap_or(-1),"t1":m.t1.map(|x| (x as i64).min(1_000_000)).unwrap_or(-1),"t2":m.t2.map(|x| (x as i64).min(1_000_000)).unwrap_or(-1),
                    "bcast":ip.dst == vec![255,255,255,255],"src":addr_str(&ip.src),"ci": m.ciaddr != [0,0,0,0],"cs":*csum_ok && ip.hdr_csum_ok,"wf":m.ok,"yi":addr_str(&m.yiaddr)});
            }
        }
    }
    json!({"k": "other-ip", "src": addr_str(&ip.src)})
}

pub fn server_frame(m: &DhcpMsg, unicast_to: Option<[u8; 4]>) -> Vec<u8> {
    let dst = unicast_to.unwrap_or([255, 255, 255, 255]);
    let ip = ipv4_packet(SRV_IP, dst, 17, 1, 64, &udp_datagram(67, 68, &m.emit()), true);
    eth_frame(if unicast_to.is_some() { MY_MAC } else { [0xff; 6] }, SRV_MAC, 0x0800, &ip)
}

pub fn random(args: &Args) {
    let seed0 = args.u64("seed", 1);
    let runs = args.usize("runs", 20);
    let mut t = Trace::create(&args.str("out", ""));
    for run in 0..runs {
        let mut rng = Rng::new(seed0.wrapping_mul(11_000_027).wrapping_add(run as u64));
        let mut dev = QDev::new(Medium::Ethernet, 1514);
        let mut c = Config::new(HardwareAddress::Ethernet(EthernetAddress(MY_MAC)));
        c.random_seed = rng.next();
        let mut iface = Interface::new(c, &mut dev, Instant::from_millis(0));
        let mut sock = dhcpv4::Socket::new();
        let max_lease: Option<u64> = *rng.pick(&[None, None, Some(30u64), Some(600)]);
        sock.set_max_lease_duration(max_lease.map(Duration::from_secs));
        let mut rc = dhcpv4::RetryConfig::default();
        if rng.chance(50) {
            rc.discover_timeout = Duration::from_secs(rng.range(1, 5));
            rc.initial_request_timeout = Duration::from_secs(rng.range(1, 3));
            rc.request_retries = rng.range(1, 4) as u16;
            rc.min_renew_timeout = Duration::from_secs(rng.range(1, 30));
        }
        sock.set_retry_config(rc);
        let bound = (rc.discover_timeout.total_millis() as i64).max((rc.initial_request_timeout.total_millis() as i64) << (rc.request_retries as u32 / 2));
        let mut sockets = SocketSet::new(vec![]);
        let h = sockets.add(sock);
        t.ev(json!({"ev":"reset","run":run,"world":"dhcp","seed":seed0,"cfg":{"max_lease":max_lease.map(|x| x as i64).unwrap_or(-1),"bound":bound,
            "disc":rc.discover_timeout.total_millis(),"req":rc.initial_request_timeout.total_millis(),"retries":rc.request_retries,"minrenew":rc.min_renew_timeout.total_millis()}}));
        let mut now: i64 = 0;
        let mut pending: Vec<(i64, Vec<u8>)> = vec![];
        let hostile = *rng.pick(&[0u64, 10, 30, 60]); // percentage of hostile server reactions
        let loss = *rng.pick(&[0u64, 0, 20, 50]);
        let silent_renew = rng.chance(30); // server never answers renewals/rebinds
        let horizon = rng.range(60_000, 900_000) as i64;
        let mut cur_addr: Option<[u8; 4]> = None;
        let mut steps = 0;
        let probing = rng.chance(50);
        while now < horizon && steps < 600 {
            steps += 1;
            let d = iface.poll_at(Instant::from_millis(now), &sockets).map(crate::util::ms_ceil).unwrap_or(-1);
            pending.sort_by_key(|x| x.0);
            let next_rx = pending.first().map(|x| x.0).unwrap_or(i64::MAX);
            let mut tpoll = if d < 0 { now + 1000 } else { d.max(now) };
            let mut frames = vec![];
            if next_rx != i64::MAX && next_rx <= tpoll {
                tpoll = next_rx.max(now);
                while !pending.is_empty() && pending[0].0 <= tpoll {
                    frames.push(pending.remove(0).1);
                }
            }
            // C13 probe: sometimes poll strictly before the announced deadline with nothing arriving: nothing may happen
            let mut probe = false;
            if probing && frames.is_empty() && rng.chance(30) {
                let lim = (if d < 0 { now + 1000 } else { d }).min(next_rx);
                if lim > now + 1 {
                    tpoll = now + 1 + rng.below((lim - now - 1) as u64) as i64;
                    probe = true;
                }
            }
            now = tpoll.min(horizon);
            let rxp: Vec<Value> = frames.iter().map(|f| proj(f)).collect();
            for f in frames {
                dev.rx.push_back(f);
            }
            let r = guarded(|| {
                iface.poll(Instant::from_millis(now), &mut dev, &mut sockets);
            });
            if let Err(m) = r {
                t.ev(json!({"ev":"panic","now":now,"msg":m}));
                break;
            }
            let out = dev.take_tx();
            // the application: consume the socket's event and apply it
            let mut evname = "none";
            let mut evaddr = String::new();
            let ev = sockets.get_mut::<dhcpv4::Socket>(h).poll();
            match ev {
                Some(dhcpv4::Event::Configured(cfg)) => {
                    evname = "configured";
                    evaddr = cfg.address.to_string();
                    let a: Ipv4Cidr = cfg.address;
                    cur_addr = Some(a.address().octets());
                    iface.update_ip_addrs(|addrs| {
                        addrs.clear();
                        let _ = addrs.push(IpCidr::Ipv4(a));
                    });
                }
                Some(dhcpv4::Event::Deconfigured) => {
                    evname = "deconfigured";
                    cur_addr = None;
                    iface.update_ip_addrs(|addrs| addrs.clear());
                }
                None => {}
            }
            let pa = iface.poll_at(Instant::from_millis(now), &sockets).map(crate::util::ms_ceil).unwrap_or(-1);
            let outs: Vec<Value> = out.iter().map(|o| proj(o)).collect();
            t.ev(json!({"ev":"poll","now":now,"deadline":d.min(2_000_000_000),"rx":rxp,"out":outs,"pa":pa.min(2_000_000_000),"event":evname,"addr":evaddr,"probe":probe}));
            // the server reacts to client messages
            for f in &out {
                if f.len() >= 42 && f[12] == 8 && f[13] == 6 && f[21] == 1 && f[38..42] == SRV_IP {
                    let mut spa = [0u8; 4];
                    spa.copy_from_slice(&f[28..32]);
                    pending.push((now + 2, eth_frame(MY_MAC, SRV_MAC, 0x0806, &arp_packet(2, SRV_MAC, SRV_IP, MY_MAC, spa))));
                    continue;
                }
                if f.len() < 14 + 28 || f[12] != 8 || f[13] != 0 {
                    continue;
                }
                let Some(ip) = parse_ip(&f[14..]) else { continue };
                let L4::Udp { dport, payload, .. } = &ip.l4 else { continue };
                if *dport != 67 {
                    continue;
                }
                let Some(m) = DhcpMsg::parse(payload) else { continue };
                if rng.chance(loss) {
                    continue;
                }
                let is_renewal = m.mtype == 3 && m.ciaddr != [0, 0, 0, 0];
                if is_renewal && silent_renew {
                    continue;
                }
                let lease = *rng.pick(&[0u32, 1, 5, 20, 60, 120, 3600, 0xffff_ffff]);
                let (t1, t2) = match rng.below(5) {
                    0 => (Some(lease / 2), Some(lease / 2)),
                    1 => (Some(lease), Some(lease / 4)),
                    2 => (None, Some(lease / 2)),
                    3 => (Some(lease / 3), None),
                    _ => (None, None),
                };
                let mut reply = DhcpMsg { op: 2, xid: m.xid, yiaddr: [10, 0, 0, 77], chaddr: MY_MAC, mtype: if m.mtype == 1 { 2 } else { 5 }, server_id: Some(SRV_IP),
                    lease: if rng.chance(90) { Some(lease) } else { None }, t1, t2, mask: Some([255, 255, 255, 0]), router: Some([10, 0, 0, 254]), ..Default::default() };
                let delay = rng.range(1, 300) as i64;
                let mut corrupt = false;
                if rng.chance(hostile) {
                    match rng.below(10) {
                        9 => corrupt = true,                          // damaged in transit: the UDP checksum does not verify
                        0 => reply.xid ^= 0x10,                       // stale / foreign transaction id
                        1 => reply.chaddr = [2, 0, 0, 0, 0, 9],       // foreign hardware address
                        2 => reply.server_id = None,                  // no server identifier
                        3 => reply.mask = Some([255, 0, 255, 0]),     // non-contiguous mask
                        4 => reply.mask = None,
                        5 => reply.yiaddr = [255, 255, 255, 255],     // non-unicast address
                        6 => reply.mtype = 6,                         // NAK
                        7 => {
                            // OFFER immediately followed by an ACK in the same burst (before any REQUEST)
                            if m.mtype == 1 {
                                let mut ack = reply.clone();
                                ack.mtype = 5;
                                pending.push((now + delay, server_frame(&reply, None)));
                                pending.push((now + delay, server_frame(&ack, None)));
                                continue;
                            }
                        }
                        _ => reply.mtype = if reply.mtype == 2 { 5 } else { 2 }, // wrong message type for the phase
                    }
                }
                let uni = if rng.chance(30) { cur_addr } else { None };
                let mut fr = server_frame(&reply, uni);
                if corrupt {
                    // one bit of the offered address (inside what the UDP checksum covers)
                    let at = 14 + 20 + 8 + 16 + 3;
                    fr[at] ^= 0x04;
                }
                pending.push((now + delay, fr));
            }
            // unsolicited server traffic
            if rng.chance(3) {
                let m = DhcpMsg { op: 2, xid: rng.next() as u32, yiaddr: [10, 0, 0, 88], chaddr: MY_MAC, mtype: 5, server_id: Some(SRV_IP), lease: Some(1000), mask: Some([255, 255, 255, 0]), ..Default::default() };
                pending.push((now + 5, server_frame(&m, None)));
            }
        }
        t.ev(json!({"ev":"end","now":now,"how":"horizon-reached"}));
    }
    println!("{}", json!({"runs": runs, "events": t.finish()}));
}
