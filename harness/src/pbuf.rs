//! World `pbuf`: storage::PacketBuffer<u32> (header = packet id) driven by TLC schedules or a random driver.
use crate::util::*;
use serde_json::{json, Value};
use smoltcp::storage::{PacketBuffer, PacketMetadata};

pub struct PbufW {
    pub pb: PacketBuffer<'static, u32>,
    pub tok: u32,
    pub hid: u32,
}

impl PbufW {
    pub fn new(m: usize, p: usize) -> PbufW {
        PbufW { pb: PacketBuffer::new(vec![PacketMetadata::EMPTY; m], vec![0u8; p]), tok: 0, hid: 0 }
    }
    fn toks(&self, n: usize) -> Vec<u8> {
        (1..=n as u32).map(|i| ((self.tok + i) % 256) as u8).collect()
    }
    pub fn step(&mut self, op: &str, size: usize, w: usize, decline: bool) -> Value {
        let (tok0, hid0) = (self.tok, self.hid);
        let r = guarded(|| {
            let mut err = "none";
            let mut k = 0usize;
            let mut data: Vec<u8> = vec![];
            let mut h = 0u32;
            let mut hdr = 0u32;
            match op {
                "enqueue" => {
                    hdr = self.hid + 1;
                    let v = self.toks(size);
                    match self.pb.enqueue(size, hdr) {
                        Ok(buf) => {
                            k = buf.len();
                            let n = k.min(size);
                            buf[..n].copy_from_slice(&v[..n]);
                            data = v;
                            self.hid += 1;
                            self.tok += size as u32;
                        }
                        Err(_) => err = "full",
                    }
                }
                "enqueue_inf" => {
                    hdr = self.hid + 1;
                    let v = self.toks(w);
                    let mut offered = 0;
                    match self.pb.enqueue_with_infallible(size, hdr, |buf| {
                        offered = buf.len();
                        let n = w.min(buf.len());
                        buf[..n].copy_from_slice(&v[..n]);
                        n
                    }) {
                        Ok(_n) => {
                            k = offered;
                            data = v;
                            self.hid += 1;
                            self.tok += w as u32;
                        }
                        Err(_) => err = "full",
                    }
                }
                "dequeue" => match self.pb.dequeue() {
                    Ok((hh, buf)) => {
                        h = hh;
                        k = buf.len();
                        data = buf.to_vec();
                    }
                    Err(_) => err = "empty",
                },
                "dequeue_with" => {
                    match self.pb.dequeue_with(|hh, buf| {
                        let r = (*hh, buf.to_vec());
                        if decline {
                            Err(r)
                        } else {
                            Ok(r)
                        }
                    }) {
                        Ok(Ok((hh, d))) | Ok(Err((hh, d))) => {
                            h = hh;
                            k = d.len();
                            data = d;
                        }
                        Err(_) => err = "empty",
                    }
                }
                "peek" => match self.pb.peek() {
                    Ok((hh, buf)) => {
                        h = *hh;
                        k = buf.len();
                        data = buf.to_vec();
                    }
                    Err(_) => err = "empty",
                },
                _ => panic!("harness: unknown pbuf op {op}"),
            }
            json!({"ev":"op","op":op,"size":size,"w":w,"decline":decline,"hdr":hdr,"err":err,"k":k,"data":data,"h":h})
        });
        match r {
            Ok(mut v) => {
                let o = guarded(|| (self.pb.is_empty(), self.pb.is_full(), self.pb.payload_bytes_count()));
                match o {
                    Ok((e, f, b)) => {
                        v["empty"] = json!(e);
                        v["full"] = json!(f);
                        v["pbytes"] = json!(b);
                        v
                    }
                    Err(m) => json!({"ev":"panic","op":op,"size":size,"w":w,"msg":format!("observer: {}", m)}),
                }
            }
            Err(m) => {
                self.tok = tok0;
                self.hid = hid0;
                json!({"ev":"panic","op":op,"size":size,"w":w,"msg":m})
            }
        }
    }
}

pub fn replay(args: &Args) {
    let sched = read_ndjson(&args.str("sched", ""));
    let mut t = Trace::create(&args.str("out", ""));
    let (m, p) = (args.usize("m", 2), args.usize("p", 3));
    for (k, sc) in sched.iter().enumerate() {
        let mut w = PbufW::new(m, p);
        t.ev(json!({"ev":"reset","run":k,"world":"pbuf","M":m,"P":p,"src":"tlc"}));
        for st in sc["steps"].as_array().unwrap() {
            let e = w.step(st["op"].as_str().unwrap(), st["size"].as_u64().unwrap() as usize, st["w"].as_u64().unwrap() as usize, st["decline"].as_bool().unwrap());
            let pn = e["ev"] == "panic";
            t.ev(e);
            if pn {
                break;
            }
        }
    }
    println!("{}", json!({"runs": sched.len(), "events": t.finish()}));
}

pub fn random(args: &Args) {
    let seed = args.u64("seed", 1);
    let mut rng = Rng::new(seed);
    let runs = args.usize("runs", 100);
    let ops = args.usize("ops", 300);
    let mut t = Trace::create(&args.str("out", ""));
    for k in 0..runs {
        let m = rng.range(0, 6) as usize;
        let p = if rng.chance(10) { rng.below(3) } else { rng.range(1, args.u64("maxp", 48)) } as usize;
        let mut w = PbufW::new(m, p);
        t.ev(json!({"ev":"reset","run":k,"world":"pbuf","M":m,"P":p,"src":"random","seed":seed}));
        let big = rng.chance(50);
        for _ in 0..ops {
            let c = rng.below(100);
            let op = if c < 25 { "enqueue" } else if c < 45 { "enqueue_inf" } else if c < 65 { "dequeue" } else if c < 85 { "dequeue_with" } else { "peek" };
            let pm = p as u64;
            let size = if big { rng.range(0, pm + 1) } else { rng.range(0, (pm / 3).max(1)) } as usize;
            let wr = if rng.chance(50) { size } else { rng.range(0, size as u64) as usize };
            let e = w.step(op, size, wr, rng.chance(30) && op == "dequeue_with");
            let pn = e["ev"] == "panic";
            t.ev(e);
            if pn {
                break;
            }
        }
    }
    println!("{}", json!({"runs": runs, "events": t.finish()}));
}
