//! Queue device: frames are handed in/out as byte vectors; tx buffers are pre-filled (real drivers reuse DMA
//! buffers, so the stack must not depend on their previous content); optional tx budget per poll models
//! device back-pressure.
use smoltcp::phy::{ChecksumCapabilities, Device, DeviceCapabilities, Medium, RxToken, TxToken};
use smoltcp::time::Instant;
use std::collections::VecDeque;

pub struct QDev {
    pub rx: VecDeque<Vec<u8>>,
    pub tx: Vec<Vec<u8>>,
    pub medium: Medium,
    pub mtu: usize,
    pub prefill: u8,
    pub tx_budget: Option<usize>,
    pub csum: ChecksumCapabilities,
    pub burst: Option<usize>,
    pub tx_total: u64,
    /// the "hardware" fills in the IPv4 header checksum of what it transmits (for runs whose capabilities say that the
    /// stack need not: Checksum::Rx / Checksum::None for ipv4)
    pub hw_ipv4: bool,
}

impl QDev {
    pub fn new(medium: Medium, mtu: usize) -> QDev {
        QDev { rx: VecDeque::new(), tx: Vec::new(), medium, mtu, prefill: 0xAA, tx_budget: None, csum: ChecksumCapabilities::default(), burst: None, tx_total: 0, hw_ipv4: false }
    }
    pub fn take_tx(&mut self) -> Vec<Vec<u8>> {
        std::mem::take(&mut self.tx)
    }
}

pub struct QRx(Vec<u8>);
pub struct QTx<'a> {
    out: &'a mut Vec<Vec<u8>>,
    prefill: u8,
    total: &'a mut u64,
    hw_ipv4: Option<usize>, // offset of the IP header when the device computes the IPv4 header checksum
}

impl RxToken for QRx {
    fn consume<R, F>(self, f: F) -> R
    where
        F: FnOnce(&[u8]) -> R,
    {
        f(&self.0)
    }
}

impl<'a> TxToken for QTx<'a> {
    fn consume<R, F>(self, len: usize, f: F) -> R
    where
        F: FnOnce(&mut [u8]) -> R,
    {
        let mut buf = vec![self.prefill; len];
        let r = f(&mut buf);
        if let Some(o) = self.hw_ipv4 {
            let is4 = buf.len() >= o + 20 && buf[o] >> 4 == 4 && (o == 0 || (buf[12] == 0x08 && buf[13] == 0x00));
            if is4 {
                let ihl = ((buf[o] & 0x0f) as usize) * 4;
                if ihl >= 20 && buf.len() >= o + ihl {
                    buf[o + 10] = 0;
                    buf[o + 11] = 0;
                    let c = crate::frames::csum(&buf[o..o + ihl]);
                    buf[o + 10..o + 12].copy_from_slice(&c.to_be_bytes());
                }
            }
        }
        self.out.push(buf);
        *self.total += 1;
        r
    }
}

impl Device for QDev {
    type RxToken<'a> = QRx;
    type TxToken<'a> = QTx<'a>;

    fn receive(&mut self, _t: Instant) -> Option<(Self::RxToken<'_>, Self::TxToken<'_>)> {
        if let Some(b) = self.tx_budget {
            if b == 0 {
                return None;
            }
        }
        let f = self.rx.pop_front()?;
        if let Some(b) = self.tx_budget.as_mut() {
            *b -= 1;
        }
        let hw = if self.hw_ipv4 { Some(if self.medium == Medium::Ethernet { 14 } else { 0 }) } else { None };
        Some((QRx(f), QTx { out: &mut self.tx, prefill: self.prefill, total: &mut self.tx_total, hw_ipv4: hw }))
    }

    fn transmit(&mut self, _t: Instant) -> Option<Self::TxToken<'_>> {
        if let Some(b) = self.tx_budget.as_mut() {
            if *b == 0 {
                return None;
            }
            *b -= 1;
        }
        let hw = if self.hw_ipv4 { Some(if self.medium == Medium::Ethernet { 14 } else { 0 }) } else { None };
        Some(QTx { out: &mut self.tx, prefill: self.prefill, total: &mut self.tx_total, hw_ipv4: hw })
    }

    fn capabilities(&self) -> DeviceCapabilities {
        let mut c = DeviceCapabilities::default();
        c.medium = self.medium;
        c.max_transmission_unit = self.mtu;
        c.max_burst_size = self.burst;
        c.checksum = self.csum.clone();
        c
    }
}
