//! Independent frame parser / crafter (does not use smoltcp::wire): Ethernet II, ARP, IPv4 (incl. fragments),
//! IPv6 (fixed header + hop-by-hop/fragment skipping), ICMPv4, ICMPv6, UDP, TCP with options.
//! Internet checksum re-implemented from RFC 1071.  The parser reports structural well-formedness flags
//! (`wf`) used by rule E1 and checksum validity used by K2.
use serde_json::{json, Value};

pub fn csum_add(mut acc: u32, data: &[u8]) -> u32 {
    let mut i = 0;
    while i + 1 < data.len() {
        acc += ((data[i] as u32) << 8) | data[i + 1] as u32;
        i += 2;
    }
    if i < data.len() {
        acc += (data[i] as u32) << 8;
    }
    acc
}
pub fn csum_fold(mut acc: u32) -> u16 {
    while acc >> 16 != 0 {
        acc = (acc & 0xffff) + (acc >> 16);
    }
    !(acc as u16)
}
pub fn csum(data: &[u8]) -> u16 {
    csum_fold(csum_add(0, data))
}
pub fn pseudo4(src: &[u8], dst: &[u8], proto: u8, len: usize) -> u32 {
    let mut a = csum_add(0, src);
    a = csum_add(a, dst);
    a + proto as u32 + len as u32
}
pub fn pseudo6(src: &[u8], dst: &[u8], proto: u8, len: usize) -> u32 {
    let mut a = csum_add(0, src);
    a = csum_add(a, dst);
    a + proto as u32 + (len as u32 >> 16) + (len as u32 & 0xffff)
}

#[derive(Clone, Debug, Default)]
pub struct TcpSeg {
    pub sport: u16,
    pub dport: u16,
    pub seq: u32,
    pub ack: Option<u32>,
    pub syn: bool,
    pub fin: bool,
    pub rst: bool,
    pub psh: bool,
    pub win: u16,
    pub mss: Option<u16>,
    pub wscale: Option<u8>,
    pub sackp: bool,
    pub ts: Option<(u32, u32)>,
    pub nsack: usize,
    pub payload: Vec<u8>,
    pub hdr_len: usize,
    pub opts_ok: bool,
    pub csum_ok: bool,
}

impl TcpSeg {
    pub fn seg_len(&self) -> u32 {
        self.payload.len() as u32 + self.syn as u32 + self.fin as u32
    }
    pub fn emit(&self) -> Vec<u8> {
        let mut opts: Vec<u8> = vec![];
        if let Some(m) = self.mss {
            opts.extend_from_slice(&[2, 4, (m >> 8) as u8, m as u8]);
        }
        if let Some(w) = self.wscale {
            opts.extend_from_slice(&[3, 3, w]);
        }
        if self.sackp {
            opts.extend_from_slice(&[4, 2]);
        }
        if let Some((v, e)) = self.ts {
            opts.extend_from_slice(&[8, 10]);
            opts.extend_from_slice(&v.to_be_bytes());
            opts.extend_from_slice(&e.to_be_bytes());
        }
        while opts.len() % 4 != 0 {
            opts.push(if opts.len() % 4 == 3 { 0 } else { 1 });
        }
        let hl = 20 + opts.len();
        let mut b = vec![0u8; hl];
        b[0..2].copy_from_slice(&self.sport.to_be_bytes());
        b[2..4].copy_from_slice(&self.dport.to_be_bytes());
        b[4..8].copy_from_slice(&self.seq.to_be_bytes());
        b[8..12].copy_from_slice(&self.ack.unwrap_or(0).to_be_bytes());
        b[12] = ((hl / 4) as u8) << 4;
        b[13] = (self.fin as u8) | ((self.syn as u8) << 1) | ((self.rst as u8) << 2) | ((self.psh as u8) << 3) | ((self.ack.is_some() as u8) << 4);
        b[14..16].copy_from_slice(&self.win.to_be_bytes());
        b[20..hl].copy_from_slice(&opts);
        b.extend_from_slice(&self.payload);
        b
    }
}

pub fn ipv4_packet(src: [u8; 4], dst: [u8; 4], proto: u8, ident: u16, ttl: u8, l4: &[u8], fix_l4_csum: bool) -> Vec<u8> {
    let total = 20 + l4.len();
    let mut p = vec![0u8; 20];
    p[0] = 0x45;
    p[2..4].copy_from_slice(&(total as u16).to_be_bytes());
    p[4..6].copy_from_slice(&ident.to_be_bytes());
    p[6] = 0x40;
    p[8] = ttl;
    p[9] = proto;
    p[12..16].copy_from_slice(&src);
    p[16..20].copy_from_slice(&dst);
    let c = csum(&p);
    p[10..12].copy_from_slice(&c.to_be_bytes());
    let mut l4 = l4.to_vec();
    if fix_l4_csum {
        let off = match proto {
            6 => Some(16),
            17 => Some(6),
            _ => None,
        };
        if let Some(off) = off {
            if l4.len() >= off + 2 {
                l4[off] = 0;
                l4[off + 1] = 0;
                let mut c = csum_fold(csum_add(pseudo4(&src, &dst, proto, l4.len()), &l4));
                if proto == 17 && c == 0 {
                    c = 0xffff;
                }
                l4[off..off + 2].copy_from_slice(&c.to_be_bytes());
            }
        } else if proto == 1 && l4.len() >= 4 {
            l4[2] = 0;
            l4[3] = 0;
            let c = csum(&l4);
            l4[2..4].copy_from_slice(&c.to_be_bytes());
        }
    }
    p.extend_from_slice(&l4);
    p
}

pub fn ipv6_packet(src: [u8; 16], dst: [u8; 16], next: u8, hop: u8, l4: &[u8], fix_l4_csum: bool) -> Vec<u8> {
    let mut p = vec![0u8; 40];
    p[0] = 0x60;
    p[4..6].copy_from_slice(&(l4.len() as u16).to_be_bytes());
    p[6] = next;
    p[7] = hop;
    p[8..24].copy_from_slice(&src);
    p[24..40].copy_from_slice(&dst);
    let mut l4 = l4.to_vec();
    if fix_l4_csum {
        let off = match next {
            6 => Some(16),
            17 => Some(6),
            58 => Some(2),
            _ => None,
        };
        if let Some(off) = off {
            if l4.len() >= off + 2 {
                l4[off] = 0;
                l4[off + 1] = 0;
                let mut c = csum_fold(csum_add(pseudo6(&src, &dst, next, l4.len()), &l4));
                if next == 17 && c == 0 {
                    c = 0xffff;
                }
                l4[off..off + 2].copy_from_slice(&c.to_be_bytes());
            }
        }
    }
    p.extend_from_slice(&l4);
    p
}

pub fn udp_datagram(sport: u16, dport: u16, payload: &[u8]) -> Vec<u8> {
    let mut b = vec![0u8; 8];
    b[0..2].copy_from_slice(&sport.to_be_bytes());
    b[2..4].copy_from_slice(&dport.to_be_bytes());
    b[4..6].copy_from_slice(&((8 + payload.len()) as u16).to_be_bytes());
    b.extend_from_slice(payload);
    b
}

pub fn eth_frame(dst: [u8; 6], src: [u8; 6], ethertype: u16, payload: &[u8]) -> Vec<u8> {
    let mut f = vec![];
    f.extend_from_slice(&dst);
    f.extend_from_slice(&src);
    f.extend_from_slice(&ethertype.to_be_bytes());
    f.extend_from_slice(payload);
    f
}

pub fn arp_packet(op: u16, sha: [u8; 6], spa: [u8; 4], tha: [u8; 6], tpa: [u8; 4]) -> Vec<u8> {
    let mut b = vec![0, 1, 8, 0, 6, 4];
    b.extend_from_slice(&op.to_be_bytes());
    b.extend_from_slice(&sha);
    b.extend_from_slice(&spa);
    b.extend_from_slice(&tha);
    b.extend_from_slice(&tpa);
    b
}

#[derive(Clone, Debug)]
pub enum L4 {
    Tcp(TcpSeg),
    Udp { sport: u16, dport: u16, len_field: usize, payload: Vec<u8>, csum_ok: bool, csum_zero: bool },
    Icmp4 { ty: u8, code: u8, csum_ok: bool, body: Vec<u8> },
    Icmp6 { ty: u8, code: u8, csum_ok: bool, body: Vec<u8> },
    Frag,
    Other(u8),
}

#[derive(Clone, Debug)]
pub struct IpPkt {
    pub ver: u8,
    pub src: Vec<u8>,
    pub dst: Vec<u8>,
    pub proto: u8,
    pub hdr_len: usize,
    pub total_len: usize,
    pub ttl: u8,
    pub ident: u32,
    pub mf: bool,
    pub df: bool,
    pub frag_off: usize,
    pub hdr_csum_ok: bool,
    pub wf: bool,
    pub l4: L4,
    pub l4_bytes: Vec<u8>,
}

pub fn parse_tcp(b: &[u8], pseudo: u32) -> Option<TcpSeg> {
    if b.len() < 20 {
        return None;
    }
    let hl = ((b[12] >> 4) as usize) * 4;
    if hl < 20 || hl > b.len() {
        return None;
    }
    let fl = b[13];
    let mut t = TcpSeg {
        sport: u16::from_be_bytes([b[0], b[1]]),
        dport: u16::from_be_bytes([b[2], b[3]]),
        seq: u32::from_be_bytes([b[4], b[5], b[6], b[7]]),
        ack: if fl & 0x10 != 0 { Some(u32::from_be_bytes([b[8], b[9], b[10], b[11]])) } else { None },
        fin: fl & 1 != 0,
        syn: fl & 2 != 0,
        rst: fl & 4 != 0,
        psh: fl & 8 != 0,
        win: u16::from_be_bytes([b[14], b[15]]),
        payload: b[hl..].to_vec(),
        hdr_len: hl,
        opts_ok: true,
        ..Default::default()
    };
    let mut i = 20;
    while i < hl {
        match b[i] {
            0 => {
                // End of list: everything after must be padding zeros
                if b[i..hl].iter().any(|&x| x != 0) {
                    t.opts_ok = false;
                }
                break;
            }
            1 => i += 1,
            k => {
                if i + 1 >= hl {
                    t.opts_ok = false;
                    break;
                }
                let l = b[i + 1] as usize;
                if l < 2 || i + l > hl {
                    t.opts_ok = false;
                    break;
                }
                match (k, l) {
                    (2, 4) => t.mss = Some(u16::from_be_bytes([b[i + 2], b[i + 3]])),
                    (3, 3) => t.wscale = Some(b[i + 2]),
                    (4, 2) => t.sackp = true,
                    (5, _) => {
                        if (l - 2) % 8 != 0 {
                            t.opts_ok = false;
                        }
                        t.nsack = (l - 2) / 8;
                    }
                    (8, 10) => t.ts = Some((u32::from_be_bytes([b[i + 2], b[i + 3], b[i + 4], b[i + 5]]), u32::from_be_bytes([b[i + 6], b[i + 7], b[i + 8], b[i + 9]]))),
                    (2, _) | (3, _) | (4, _) | (8, _) => t.opts_ok = false,
                    _ => {}
                }
                i += l;
            }
        }
    }
    t.csum_ok = csum_fold(csum_add(pseudo, b)) == 0;
    Some(t)
}

fn parse_l4(proto: u8, b: &[u8], p4: Option<u32>, is_v6: bool) -> (L4, bool) {
    match proto {
        6 => match parse_tcp(b, p4.unwrap_or(0)) {
            Some(t) => {
                let ok = t.opts_ok;
                (L4::Tcp(t), ok)
            }
            None => (L4::Other(6), false),
        },
        17 => {
            if b.len() < 8 {
                return (L4::Other(17), false);
            }
            let lf = u16::from_be_bytes([b[4], b[5]]) as usize;
            let cz = b[6] == 0 && b[7] == 0;
            let ok = if cz { !is_v6 } else { csum_fold(csum_add(p4.unwrap_or(0), b)) == 0 };
            (L4::Udp { sport: u16::from_be_bytes([b[0], b[1]]), dport: u16::from_be_bytes([b[2], b[3]]), len_field: lf, payload: b[8..].to_vec(), csum_ok: ok, csum_zero: cz }, lf == b.len())
        }
        1 if !is_v6 => {
            if b.len() < 4 {
                return (L4::Other(1), false);
            }
            (L4::Icmp4 { ty: b[0], code: b[1], csum_ok: csum(b) == 0, body: b[4..].to_vec() }, b.len() >= 8)
        }
        58 if is_v6 => {
            if b.len() < 4 {
                return (L4::Other(58), false);
            }
            (L4::Icmp6 { ty: b[0], code: b[1], csum_ok: csum_fold(csum_add(p4.unwrap_or(0), b)) == 0, body: b[4..].to_vec() }, true)
        }
        p => (L4::Other(p), true),
    }
}

pub fn parse_ip(p: &[u8]) -> Option<IpPkt> {
    if p.is_empty() {
        return None;
    }
    match p[0] >> 4 {
        4 => {
            if p.len() < 20 {
                return None;
            }
            let ihl = ((p[0] & 0xf) as usize) * 4;
            let total = u16::from_be_bytes([p[2], p[3]]) as usize;
            if ihl < 20 || ihl > p.len() {
                return None;
            }
            let mut wf = total == p.len() && total >= ihl;
            let end = total.min(p.len()).max(ihl);
            let fl = u16::from_be_bytes([p[6], p[7]]);
            let frag_off = ((fl & 0x1fff) as usize) * 8;
            let mf = fl & 0x2000 != 0;
            let proto = p[9];
            let body = &p[ihl..end];
            let (l4, l4wf) = if frag_off != 0 || mf {
                (L4::Frag, true)
            } else {
                parse_l4(proto, body, Some(pseudo4(&p[12..16], &p[16..20], proto, body.len())), false)
            };
            wf &= l4wf;
            Some(IpPkt { ver: 4, src: p[12..16].to_vec(), dst: p[16..20].to_vec(), proto, hdr_len: ihl, total_len: total, ttl: p[8], ident: u16::from_be_bytes([p[4], p[5]]) as u32,
                mf, df: fl & 0x4000 != 0, frag_off, hdr_csum_ok: csum(&p[..ihl]) == 0, wf, l4, l4_bytes: body.to_vec() })
        }
        6 => {
            if p.len() < 40 {
                return None;
            }
            let plen = u16::from_be_bytes([p[4], p[5]]) as usize;
            let mut wf = plen + 40 == p.len();
            let end = (40 + plen).min(p.len());
            let mut next = p[6];
            let mut off = 40;
            let mut is_frag = false;
            let mut ident = 0u32;
            let mut mf = false;
            let mut frag_off = 0;
            // skip hop-by-hop (0), routing (43), destination options (60); note fragment header (44)
            loop {
                match next {
                    0 | 43 | 60 => {
                        if off + 8 > end {
                            wf = false;
                            break;
                        }
                        let l = (p[off + 1] as usize + 1) * 8;
                        if off + l > end {
                            wf = false;
                            break;
                        }
                        next = p[off];
                        off += l;
                    }
                    44 => {
                        if off + 8 > end {
                            wf = false;
                            break;
                        }
                        is_frag = true;
                        let fo = u16::from_be_bytes([p[off + 2], p[off + 3]]);
                        frag_off = (fo >> 3) as usize * 8;
                        mf = fo & 1 != 0;
                        ident = u32::from_be_bytes([p[off + 4], p[off + 5], p[off + 6], p[off + 7]]);
                        next = p[off];
                        off += 8;
                    }
                    _ => break,
                }
            }
            let body = &p[off.min(end)..end];
            let (l4, l4wf) = if is_frag { (L4::Frag, true) } else { parse_l4(next, body, Some(pseudo6(&p[8..24], &p[24..40], next, body.len())), true) };
            wf &= l4wf;
            Some(IpPkt { ver: 6, src: p[8..24].to_vec(), dst: p[24..40].to_vec(), proto: next, hdr_len: off, total_len: 40 + plen, ttl: p[7], ident, mf, df: false, frag_off, hdr_csum_ok: true, wf, l4, l4_bytes: body.to_vec() })
        }
        _ => None,
    }
}

pub fn hex(b: &[u8]) -> String {
    b.iter().map(|x| format!("{:02x}", x)).collect()
}
pub fn addr_str(a: &[u8]) -> String {
    if a.len() == 4 {
        format!("{}.{}.{}.{}", a[0], a[1], a[2], a[3])
    } else {
        hex(a)
    }
}

/// Generic projection of an IP packet (used by non-TCP worlds and rules E1..E3, K2).
pub fn ip_json(p: &IpPkt) -> Value {
    let mut v = json!({"ver": p.ver, "src": addr_str(&p.src), "dst": addr_str(&p.dst), "proto": p.proto, "iplen": p.total_len, "ttl": p.ttl,
        "ident": p.ident, "mf": p.mf, "foff": p.frag_off, "hcs": p.hdr_csum_ok, "wf": p.wf});
    match &p.l4 {
        L4::Tcp(t) => {
            v["l4"] = json!("tcp");
            v["sport"] = json!(t.sport);
            v["dport"] = json!(t.dport);
            v["cs"] = json!(t.csum_ok);
            v["rst"] = json!(t.rst);
            v["syn"] = json!(t.syn);
            v["len"] = json!(t.payload.len());
        }
        L4::Udp { sport, dport, payload, csum_ok, csum_zero, .. } => {
            v["l4"] = json!("udp");
            v["sport"] = json!(sport);
            v["dport"] = json!(dport);
            v["cs"] = json!(csum_ok);
            v["cs0"] = json!(csum_zero);
            v["len"] = json!(payload.len());
        }
        L4::Icmp4 { ty, code, csum_ok, .. } => {
            v["l4"] = json!("icmp4");
            v["ty"] = json!(ty);
            v["code"] = json!(code);
            v["cs"] = json!(csum_ok);
        }
        L4::Icmp6 { ty, code, csum_ok, .. } => {
            v["l4"] = json!("icmp6");
            v["ty"] = json!(ty);
            v["code"] = json!(code);
            v["cs"] = json!(csum_ok);
        }
        L4::Frag => {
            v["l4"] = json!("frag");
            v["cs"] = json!(true);
        }
        L4::Other(_) => {
            v["l4"] = json!("other");
            v["cs"] = json!(true);
        }
    }
    v
}

// ------------------------------------------------------------------------------------------------
// DHCPv4 (independent of smoltcp::wire)

#[derive(Clone, Debug, Default)]
pub struct DhcpMsg {
    pub op: u8,
    pub xid: u32,
    pub ciaddr: [u8; 4],
    pub yiaddr: [u8; 4],
    pub chaddr: [u8; 6],
    pub mtype: u8, // 1 discover 2 offer 3 request 5 ack 6 nak
    pub server_id: Option<[u8; 4]>,
    pub lease: Option<u32>,
    pub t1: Option<u32>,
    pub t2: Option<u32>,
    pub mask: Option<[u8; 4]>,
    pub router: Option<[u8; 4]>,
    pub requested: Option<[u8; 4]>,
    pub ok: bool,
}

impl DhcpMsg {
    pub fn emit(&self) -> Vec<u8> {
        let mut b = vec![0u8; 240];
        b[0] = self.op;
        b[1] = 1;
        b[2] = 6;
        b[4..8].copy_from_slice(&self.xid.to_be_bytes());
        b[12..16].copy_from_slice(&self.ciaddr);
        b[16..20].copy_from_slice(&self.yiaddr);
        b[28..34].copy_from_slice(&self.chaddr);
        b[236..240].copy_from_slice(&[99, 130, 83, 99]);
        b.extend_from_slice(&[53, 1, self.mtype]);
        if let Some(s) = self.server_id {
            b.extend_from_slice(&[54, 4]);
            b.extend_from_slice(&s);
        }
        if let Some(l) = self.lease {
            b.extend_from_slice(&[51, 4]);
            b.extend_from_slice(&l.to_be_bytes());
        }
        if let Some(l) = self.t1 {
            b.extend_from_slice(&[58, 4]);
            b.extend_from_slice(&l.to_be_bytes());
        }
        if let Some(l) = self.t2 {
            b.extend_from_slice(&[59, 4]);
            b.extend_from_slice(&l.to_be_bytes());
        }
        if let Some(m) = self.mask {
            b.extend_from_slice(&[1, 4]);
            b.extend_from_slice(&m);
        }
        if let Some(m) = self.router {
            b.extend_from_slice(&[3, 4]);
            b.extend_from_slice(&m);
        }
        b.push(255);
        b
    }
    pub fn parse(b: &[u8]) -> Option<DhcpMsg> {
        if b.len() < 240 || b[236..240] != [99, 130, 83, 99] {
            return None;
        }
        let mut m = DhcpMsg { op: b[0], xid: u32::from_be_bytes([b[4], b[5], b[6], b[7]]), ok: true, ..Default::default() };
        m.ciaddr.copy_from_slice(&b[12..16]);
        m.yiaddr.copy_from_slice(&b[16..20]);
        m.chaddr.copy_from_slice(&b[28..34]);
        let mut i = 240;
        while i < b.len() {
            let k = b[i];
            if k == 255 {
                break;
            }
            if k == 0 {
                i += 1;
                continue;
            }
            if i + 1 >= b.len() {
                m.ok = false;
                break;
            }
            let l = b[i + 1] as usize;
            if i + 2 + l > b.len() {
                m.ok = false;
                break;
            }
            let v = &b[i + 2..i + 2 + l];
            let a4 = |v: &[u8]| -> Option<[u8; 4]> { if v.len() >= 4 { Some([v[0], v[1], v[2], v[3]]) } else { None } };
            let u4 = |v: &[u8]| -> Option<u32> { if v.len() == 4 { Some(u32::from_be_bytes([v[0], v[1], v[2], v[3]])) } else { None } };
            match k {
                53 if l == 1 => m.mtype = v[0],
                54 => m.server_id = a4(v),
                51 => m.lease = u4(v),
                58 => m.t1 = u4(v),
                59 => m.t2 = u4(v),
                1 => m.mask = a4(v),
                3 => m.router = a4(v),
                50 => m.requested = a4(v),
                _ => {}
            }
            i += 2 + l;
        }
        Some(m)
    }
}
