//! World `lowpan` (C20): two real IEEE 802.15.4 interfaces; node A sends what the scenario says (UDP datagrams with
//! chosen address / port / size / hop-limit classes, an ICMPv6 echo, a small TCP transfer), the harness carries the
//! frames to node B in the scenario's order (and B's frames back to A in order); B's sockets are the decoder.
use crate::dev::QDev;
use crate::frag::dgram_payload;
use crate::util::*;
use serde_json::{json, Value};
use smoltcp::iface::{Config, Interface, SocketHandle, SocketSet};
use smoltcp::phy::Medium;
use smoltcp::socket::{icmp, tcp, udp};
use smoltcp::time::Instant;
use smoltcp::wire::{HardwareAddress, Icmpv6Packet, Icmpv6Repr, Ieee802154Address, Ieee802154Pan, IpAddress, IpCidr, IpEndpoint, Ipv6Address};

struct Node {
    iface: Interface,
    dev: QDev,
    sockets: SocketSet<'static>,
    udp: SocketHandle,
    icmp: SocketHandle,
    tcp: SocketHandle,
    addr: Ipv6Address,
}

fn node(idx: u8, aclass: &str, sport: u16, seed: u64) -> Node {
    // (neighbour discovery cannot carry short link addresses, so interfaces always use extended ones; "ll-short" is the
    // 16-bit interface identifier form of RFC 4944 on top of them)
    let hw = Ieee802154Address::Extended([0x02, 0x11, 0x22, 0x33, 0x44, 0x55, 0x66, 0x70 + idx]);
    let mut dev = QDev::new(Medium::Ieee802154, 125);
    let mut c = Config::new(HardwareAddress::Ieee802154(hw));
    c.random_seed = seed;
    c.pan_id = Some(Ieee802154Pan(0xbeef));
    let mut iface = Interface::new(c, &mut dev, Instant::from_millis(0));
    let ll = hw.as_link_local_address().unwrap();
    let addr = match aclass {
        "global" => Ipv6Address::new(0xfd00, 0, 0, 0, 0, 0, 0, 1 + idx as u16),
        "ll-short" => Ipv6Address::new(0xfe80, 0, 0, 0, 0, 0x00ff, 0xfe00, 0x0010 + idx as u16),
        _ => ll,
    };
    iface.update_ip_addrs(|a| {
        // (with two link-local addresses source selection would pick the first; the 16-bit form is the only one then)
        if aclass != "ll-short" {
            a.push(IpCidr::new(IpAddress::Ipv6(ll), 64)).unwrap();
        }
        if addr != ll {
            a.push(IpCidr::new(IpAddress::Ipv6(addr), 64)).unwrap();
        }
    });
    let mut sockets = SocketSet::new(vec![]);
    let mut u = udp::Socket::new(udp::PacketBuffer::new(vec![udp::PacketMetadata::EMPTY; 8], vec![0u8; 8192]), udp::PacketBuffer::new(vec![udp::PacketMetadata::EMPTY; 8], vec![0u8; 8192]));
    u.bind(sport).unwrap();
    let udp_h = sockets.add(u);
    let mut ic = icmp::Socket::new(icmp::PacketBuffer::new(vec![icmp::PacketMetadata::EMPTY; 4], vec![0u8; 4096]), icmp::PacketBuffer::new(vec![icmp::PacketMetadata::EMPTY; 4], vec![0u8; 4096]));
    ic.bind(icmp::Endpoint::Ident(0x77)).unwrap();
    let icmp_h = sockets.add(ic);
    let t = tcp::Socket::new(tcp::SocketBuffer::new(vec![0u8; 2048]), tcp::SocketBuffer::new(vec![0u8; 2048]));
    let tcp_h = sockets.add(t);
    Node { iface, dev, sockets, udp: udp_h, icmp: icmp_h, tcp: tcp_h, addr }
}

fn poll(n: &mut Node, now: i64, frames: Vec<Vec<u8>>) -> Result<Vec<Vec<u8>>, String> {
    for f in frames {
        n.dev.rx.push_back(f);
    }
    let r = guarded(|| {
        n.iface.poll(Instant::from_millis(now), &mut n.dev, &mut n.sockets);
    });
    let out = n.dev.take_tx();
    r.map(|_| out)
}

/// is this 802.15.4 frame a 6LoWPAN fragment (FRAG1 / FRAGN dispatch after the MAC header)?  Returns (is_frag, is_first)
fn frag_kind(f: &[u8]) -> (bool, bool) {
    // MAC header length from the frame control field (independent of smoltcp::wire)
    if f.len() < 3 {
        return (false, false);
    }
    let fc = u16::from_le_bytes([f[0], f[1]]);
    let dam = (fc >> 10) & 3;
    let sam = (fc >> 14) & 3;
    let pidc = (fc >> 6) & 1;
    let mut l = 3;
    if dam != 0 {
        l += 2 + if dam == 2 { 2 } else { 8 };
    }
    if sam != 0 {
        l += (if pidc == 0 { 2 } else { 0 }) + if sam == 2 { 2 } else { 8 };
    }
    if f.len() <= l {
        return (false, false);
    }
    let d = f[l] >> 3;
    (d == 0b11000 || d == 0b11100, d == 0b11000)
}

/// The payload of datagram `did` in scenario `k`: in every fourth scenario (even sizes from 8 octets) the last two
/// octets are chosen so that the UDP checksum over the given addresses and ports computes to 0x0000 -- it then has to
/// travel as 0xffff, also through the compressed UDP header.
fn scn_payload(k: usize, did: u32, size: usize, src: &[u8; 16], dst: &[u8; 16], sport: u16, dport: u16) -> Vec<u8> {
    let mut data = dgram_payload(did, size);
    if k % 4 == 1 && size >= 8 && size % 2 == 0 {
        let n = data.len();
        data[n - 2] = 0;
        data[n - 1] = 0;
        use crate::frames::{csum_add, csum_fold, pseudo6, udp_datagram};
        let dg = udp_datagram(sport, dport, &data);
        let c0 = csum_fold(csum_add(pseudo6(src, dst, 17, dg.len()), &dg));
        data[n - 2..].copy_from_slice(&c0.to_be_bytes());
    }
    data
}

/// Independent reading of a non-fragment 6LoWPAN frame as far as C10 needs it: the length of the 802.15.4 header
/// and of the IPHC header (from the mode bits alone), and -- when the next header is carried inline and says
/// ICMPv6 -- whether the options of a neighbour-discovery message tile it exactly (every length non-zero, the
/// last option ending at the end of the frame).  None: not such a frame.
fn ndisc_options_ok(f: &[u8]) -> Option<bool> {
    if f.len() < 3 {
        return None;
    }
    let fc = u16::from_le_bytes([f[0], f[1]]);
    let dam = (fc >> 10) & 3;
    let sam = (fc >> 14) & 3;
    let pidc = (fc >> 6) & 1;
    let mut l = 3;
    if dam != 0 {
        l += 2 + if dam == 2 { 2 } else { 8 };
    }
    if sam != 0 {
        l += (if pidc == 0 { 2 } else { 0 }) + if sam == 2 { 2 } else { 8 };
    }
    if f.len() < l + 2 || f[l] >> 5 != 0b011 {
        return None; // not IPHC (a fragment, or something else)
    }
    let (b0, b1) = (f[l], f[l + 1]);
    let mut h = l + 2;
    if b1 & 0x80 != 0 {
        h += 1; // context identifier extension
    }
    h += match (b0 >> 3) & 3 {
        0 => 4,
        1 => 3,
        2 => 1,
        _ => 0,
    };
    let nh_inline = b0 & 0x04 == 0;
    let nh_at = h;
    if nh_inline {
        h += 1;
    }
    if b0 & 3 == 0 {
        h += 1; // hop limit inline
    }
    let sac = b1 & 0x40 != 0;
    h += match ((b1 >> 4) & 3, sac) {
        (0, false) => 16,
        (0, true) => 0,
        (1, _) => 8,
        (2, _) => 2,
        _ => 0,
    };
    let m = b1 & 0x08 != 0;
    let dac = b1 & 0x04 != 0;
    h += match (m, dac, b1 & 3) {
        (false, false, 0) => 16,
        (false, _, 1) => 8,
        (false, _, 2) => 2,
        (false, _, 3) => 0,
        (false, true, 0) => 0,
        (true, false, 0) => 16,
        (true, false, 1) => 6,
        (true, false, 2) => 4,
        (true, false, 3) => 1,
        (true, true, 0) => 6,
        _ => return None,
    };
    if !nh_inline || f.len() <= h || f[nh_at] != 58 {
        return None;
    }
    let icmp = &f[h..];
    let first = match icmp[0] {
        133 => 8,
        134 => 16,
        135 | 136 => 24,
        137 => 40,
        _ => return None,
    };
    if icmp.len() < first {
        return Some(false);
    }
    let mut o = first;
    while o < icmp.len() {
        if o + 2 > icmp.len() || icmp[o + 1] == 0 || o + 8 * icmp[o + 1] as usize > icmp.len() {
            return Some(false);
        }
        o += 8 * icmp[o + 1] as usize;
    }
    Some(true)
}

/// (C10) A one-frame UDP datagram over 802.15.4, read with a decoder of its own: MAC header, LOWPAN_IPHC (length from the
/// mode bits), LOWPAN_NHC UDP (ports and checksum from its own mode bits), payload -- the pieces must tile the frame exactly.
/// None: not such a frame (a fragment, another next header).
fn udp_frame_tiles(f: &[u8], payload_len: usize) -> Option<bool> {
    if f.len() < 3 {
        return None;
    }
    let fc = u16::from_le_bytes([f[0], f[1]]);
    let dam = (fc >> 10) & 3;
    let sam = (fc >> 14) & 3;
    let pidc = (fc >> 6) & 1;
    let mut l = 3;
    if dam != 0 {
        l += 2 + if dam == 2 { 2 } else { 8 };
    }
    if sam != 0 {
        l += (if pidc == 0 { 2 } else { 0 }) + if sam == 2 { 2 } else { 8 };
    }
    if f.len() < l + 2 || f[l] >> 5 != 0b011 {
        return None;
    }
    let (b0, b1) = (f[l], f[l + 1]);
    let mut h = l + 2;
    if b1 & 0x80 != 0 {
        h += 1;
    }
    h += match (b0 >> 3) & 3 {
        0 => 4,
        1 => 3,
        2 => 1,
        _ => 0,
    };
    if b0 & 0x04 == 0 {
        // next header carried inline (no LOWPAN_NHC): not read here
        return None;
    }
    if b0 & 3 == 0 {
        h += 1;
    }
    let sac = b1 & 0x40 != 0;
    h += match ((b1 >> 4) & 3, sac) {
        (0, false) => 16,
        (0, true) => 0,
        (1, _) => 8,
        (2, _) => 2,
        _ => 0,
    };
    let m = b1 & 0x08 != 0;
    let dac = b1 & 0x04 != 0;
    h += match (m, dac, b1 & 3) {
        (false, false, 0) => 16,
        (false, _, 1) => 8,
        (false, _, 2) => 2,
        (false, _, 3) => 0,
        (false, true, 0) => 0,
        (true, false, 0) => 16,
        (true, false, 1) => 6,
        (true, false, 2) => 4,
        (true, false, 3) => 1,
        (true, true, 0) => 6,
        _ => return Some(false),
    };
    if f.len() <= h {
        return Some(false);
    }
    let d = f[h];
    if d & 0xf8 != 0xf0 {
        // the IPHC header announces a compressed next header and what follows is no LOWPAN_NHC UDP dispatch
        return if d & 0xf0 == 0xe0 { None } else { Some(false) };
    }
    let ports = [4usize, 3, 3, 1][(d & 3) as usize];
    let ck = if d & 4 == 0 { 2 } else { 0 };
    Some(h + 1 + ports + ck + payload_len == f.len())
}

pub fn replay(args: &Args) {
    let scn = read_ndjson(&args.str("sched", ""));
    let mut t = Trace::create(&args.str("out", ""));
    for (k, s) in scn.iter().enumerate() {
        let s = if s.get("v").is_some() { &s["v"] } else { s };
        if k % 25 == 0 {
            t.ev(json!({"ev":"reset","run":k / 25,"world":"lowpan"}));
        }
        let upper = s["u"].as_str().unwrap();
        if upper == "iphc" {
            t.ev(iphc_case(k, s));
            continue;
        }
        let aclass = s["a"].as_str().unwrap();
        let (sport, dport): (u16, u16) = match s["p"].as_str().unwrap() {
            "both4" => (0xf0b1, 0xf0b7),
            "one8" => (0xf012, 5683),
            "dst8" => (5684, 0xf013),
            _ => (40001, 40002),
        };
        let size = s["z"].as_u64().unwrap() as usize;
        let hop = s["h"].as_u64().unwrap() as u8;
        let order = s["o"].as_str().unwrap();
        let count = s["n"].as_u64().unwrap() as usize;
        let mut a = node(1, aclass, sport, 1000 + k as u64);
        let mut b = node(2, aclass, dport, 2000 + k as u64);
        let mut now = 0i64;
        let mut maxframe = 0usize;
        let mut nd_seen = 0usize;
        let mut nd_bad = 0usize;
        let mut failed: Option<String> = None;
        // every eighth scenario the receiver is a member of a multicast group: the listener report for it is a datagram
        // the stack sends over 802.15.4 like any other (it carries a hop-by-hop header)
        if k % 8 == 5 {
            let r = guarded(|| {
                let _ = b.iface.join_multicast_group(Ipv6Address::new(0xff02, 0, 0, 0, 0, 0, 1, 3));
            });
            if let Err(m) = r {
                failed = Some(m);
            }
        }
        // warm up: neighbor discovery in both directions with a tiny datagram exchange (not part of the scenario)
        {
            let bd = b.addr;
            let _ = a.sockets.get_mut::<udp::Socket>(a.udp).send_slice(b"warmup", IpEndpoint::new(IpAddress::Ipv6(bd), dport));
            let mut fa: Vec<Vec<u8>> = vec![];
            let mut fb: Vec<Vec<u8>> = vec![];
            for _ in 0..12 {
                now += 50;
                match poll(&mut a, now, std::mem::take(&mut fb)) {
                    Ok(o) => fa = o,
                    Err(m) => failed = Some(m),
                }
                match poll(&mut b, now, std::mem::take(&mut fa)) {
                    Ok(o) => fb = o,
                    Err(m) => failed = Some(m),
                }
                // (the neighbour solicitations and advertisements of the warm-up are read for C10)
                for f in fa.iter().chain(fb.iter()) {
                    maxframe = maxframe.max(f.len());
                    if let Some(ok) = ndisc_options_ok(f) {
                        nd_seen += 1;
                        nd_bad += if ok { 0 } else { 1 };
                    }
                }
            }
            while b.sockets.get_mut::<udp::Socket>(b.udp).recv().is_ok() {}
        }
        // (C10) a small datagram to a multicast group -- link scope and wider scopes, group identifiers that fit one octet
        // and ones that do not -- needs no neighbour; the frame it leaves in must tile
        let mut mc_seen = 0usize;
        let mut mc_bad = 0usize;
        if failed.is_none() {
            let g: [u16; 8] = [[0xff05, 0, 0, 0, 0, 0, 0, 2], [0xff01, 0, 0, 0, 0, 0, 0, 1], [0xff0e, 0, 0, 0, 0, 0, 0, 0xfb], [0xff02, 0, 0, 0, 0, 0, 1, 3],
                               [0xff02, 0, 0, 0, 0, 0, 0, 1], [0xff05, 0, 0, 0, 0, 0, 1, 3], [0xff12, 0, 0, 0, 0, 0, 0, 0x42], [0xff08, 0, 0, 0, 0, 0x12, 0x3456, 0x789a]][k % 8];
            let ga = Ipv6Address::new(g[0], g[1], g[2], g[3], g[4], g[5], g[6], g[7]);
            let pl = b"to-the-group";
            let _ = a.sockets.get_mut::<udp::Socket>(a.udp).send_slice(pl, IpEndpoint::new(IpAddress::Ipv6(ga), dport));
            now += 5;
            match poll(&mut a, now, vec![]) {
                Ok(o) => {
                    for f in &o {
                        maxframe = maxframe.max(f.len());
                        if let Some(ok) = udp_frame_tiles(f, pl.len()) {
                            mc_seen += 1;
                            mc_bad += if ok { 0 } else { 1 };
                        }
                    }
                    // (B is not a member: the frames end here)
                }
                Err(m) => failed = Some(m),
            }
        }
        let mut accepted = 0usize;
        let mut got: Vec<Value> = vec![];
        let mut nfrag_first = 0usize;
        if failed.is_none() {
            match upper {
                "udp" => {
                    a.sockets.get_mut::<udp::Socket>(a.udp).set_hop_limit(Some(hop));
                    for d in 0..count {
                        let did = 1 + d as u32;
                        let pl = scn_payload(k, did, size, &a.addr.octets(), &b.addr.octets(), sport, dport);
                        let ok = a.sockets.get_mut::<udp::Socket>(a.udp).send_slice(&pl, IpEndpoint::new(IpAddress::Ipv6(b.addr), dport)).is_ok();
                        if ok {
                            accepted += 1;
                        }
                    }
                }
                "icmp" => {
                    let ident = 0x77;
                    let data = dgram_payload(1, size);
                    let repr = Icmpv6Repr::EchoRequest { ident, seq_no: 1, data: &data };
                    let src = a.addr;
                    let dst = b.addr;
                    let sock = a.sockets.get_mut::<icmp::Socket>(a.icmp);
                    if let Ok(buf) = sock.send(repr.buffer_len(), IpAddress::Ipv6(dst)) {
                        let mut p = Icmpv6Packet::new_unchecked(buf);
                        repr.emit(&src, &dst, &mut p, &smoltcp::phy::ChecksumCapabilities::default());
                        accepted = 1;
                    }
                }
                _ => {
                    b.sockets.get_mut::<tcp::Socket>(b.tcp).listen(dport).unwrap();
                    let bd = b.addr;
                    let cx = a.iface.context();
                    a.sockets.get_mut::<tcp::Socket>(a.tcp).connect(cx, (IpAddress::Ipv6(bd), dport), sport).unwrap();
                    accepted = 1;
                }
            }
            // run: A's frames are collected per poll, reordered per the scenario (fragments of one datagram), delivered to B
            let mut back: Vec<Vec<u8>> = vec![];
            let mut tcp_sent = 0usize;
            let mut tcp_rcvd: Vec<u8> = vec![];
            let mut batch: Vec<Vec<u8>> = vec![];
            for step in 0..400 {
                now += 5;
                if upper == "tcp" {
                    let s = a.sockets.get_mut::<tcp::Socket>(a.tcp);
                    if s.may_send() && tcp_sent < size {
                        let data: Vec<u8> = (tcp_sent..size).map(|i| crate::tcp::content(0, i as i64)).collect();
                        if let Ok(n) = s.send_slice(&data) {
                            tcp_sent += n;
                        }
                    }
                }
                let fromb = std::mem::take(&mut back);
                let out = match poll(&mut a, now, fromb) {
                    Ok(o) => o,
                    Err(m) => {
                        failed = Some(m);
                        break;
                    }
                };
                for f in &out {
                    maxframe = maxframe.max(f.len());
                    if let Some(ok) = ndisc_options_ok(f) {
                        nd_seen += 1;
                        nd_bad += if ok { 0 } else { 1 };
                    }
                }
                // group: fragments accumulate until a non-fragment or an idle poll; then the scenario's order is applied
                let mut deliver: Vec<Vec<u8>> = vec![];
                for f in out {
                    let (isf, first) = frag_kind(&f);
                    if isf {
                        if first && !batch.is_empty() {
                            deliver.extend(reorder(std::mem::take(&mut batch), order, &mut nfrag_first));
                        }
                        batch.push(f);
                    } else {
                        if !batch.is_empty() {
                            deliver.extend(reorder(std::mem::take(&mut batch), order, &mut nfrag_first));
                        }
                        deliver.push(f);
                    }
                }
                let a_idle = a.iface.poll_at(Instant::from_millis(now), &a.sockets).map(|x| x.total_millis() > now).unwrap_or(true);
                if a_idle && !batch.is_empty() {
                    deliver.extend(reorder(std::mem::take(&mut batch), order, &mut nfrag_first));
                }
                match poll(&mut b, now, deliver) {
                    Ok(o) => {
                        for f in &o {
                            maxframe = maxframe.max(f.len());
                            if let Some(ok) = ndisc_options_ok(f) {
                                nd_seen += 1;
                                nd_bad += if ok { 0 } else { 1 };
                            }
                        }
                        back = o;
                    }
                    Err(m) => {
                        failed = Some(m);
                        break;
                    }
                }
                // B's application
                while let Ok((data, meta)) = b.sockets.get_mut::<udp::Socket>(b.udp).recv() {
                    let did = if data.len() >= 4 { u32::from_be_bytes([data[0], data[1], data[2], data[3]]) } else { 1 };
                    let exp = scn_payload(k, if size >= 4 { did } else { 1 }, data.len(), &a.addr.octets(), &b.addr.octets(), sport, dport);
                    let diff = data.iter().zip(exp.iter()).position(|(x, y)| x != y).map(|x| x as i64).unwrap_or(-1);
                    got.push(json!({"size": data.len(), "diff": diff, "sport": meta.endpoint.port, "dport": dport, "src": meta.endpoint.addr.to_string()}));
                }
                if upper == "icmp" {
                    // the echo reply comes back to A's ICMP socket
                    while let Ok((data, addr)) = a.sockets.get_mut::<icmp::Socket>(a.icmp).recv() {
                        let body = if data.len() >= 8 { &data[8..] } else { &data[..0] };
                        let exp = dgram_payload(1, body.len());
                        let diff = body.iter().zip(exp.iter()).position(|(x, y)| x != y).map(|x| x as i64).unwrap_or(-1);
                        got.push(json!({"size": body.len(), "diff": if data.first() == Some(&129) { diff } else { 0 }, "sport": sport, "dport": dport, "src": addr.to_string()}));
                    }
                }
                if upper == "tcp" {
                    let s = b.sockets.get_mut::<tcp::Socket>(b.tcp);
                    let mut buf = [0u8; 4096];
                    if let Ok(n) = s.recv_slice(&mut buf) {
                        tcp_rcvd.extend_from_slice(&buf[..n]);
                    }
                    if tcp_rcvd.len() >= size && got.is_empty() {
                        let diff = tcp_rcvd.iter().enumerate().position(|(i, x)| *x != crate::tcp::content(0, i as i64)).map(|x| x as i64).unwrap_or(-1);
                        got.push(json!({"size": tcp_rcvd.len(), "diff": diff, "sport": sport, "dport": dport, "src": a.addr.to_string()}));
                    }
                }
                if got.len() >= count && step > 20 {
                    break;
                }
            }
        }
        if let Some(m) = failed {
            t.ev(json!({"ev":"panic","k":k,"s":s,"msg":m}));
            continue;
        }
        // for ICMP the reply's source is B; for UDP/TCP the datagram's source is A
        let src = if upper == "icmp" { b.addr.to_string() } else { a.addr.to_string() };
        t.ev(json!({"ev":"scn","k":k,"s":s,"sport":sport,"dport":dport,"src":src,"accepted":accepted,"got":got,"maxframe":maxframe,"nfrag_first":nfrag_first,"nd_seen":nd_seen,"nd_bad":nd_bad,"mc_seen":mc_seen,"mc_bad":mc_bad}));
    }
    println!("{}", json!({"runs": 1, "events": t.finish()}));
}

fn reorder(mut v: Vec<Vec<u8>>, order: &str, nfrag_first: &mut usize) -> Vec<Vec<u8>> {
    if *nfrag_first == 0 {
        *nfrag_first = v.len();
    }
    match order {
        "reverse" => v.reverse(),
        "dup-first" => {
            let f = v[0].clone();
            v.insert(1.min(v.len()), f);
        }
        "swap-tail" => {
            let n = v.len();
            if n >= 2 {
                v.swap(n - 1, n - 2);
            }
        }
        "drop-one" => {
            if v.len() >= 2 {
                v.remove(v.len() / 2);
            }
        }
        _ => {}
    }
    v
}

/// IPHC header round trip at wire level: emit into a dirty buffer, parse with the same link-layer context.
fn iphc_case(k: usize, s: &Value) -> Value {
    use smoltcp::wire::{IpProtocol, SixlowpanIphcPacket, SixlowpanIphcRepr, SixlowpanNextHeader};
    let ext_s = Ieee802154Address::Extended([0x02, 0xa1, 0xa2, 0xa3, 0xa4, 0xa5, 0xa6, 0x01]);
    let ext_d = Ieee802154Address::Extended([0x02, 0xb1, 0xb2, 0xb3, 0xb4, 0xb5, 0xb6, 0x02]);
    let sh_s = Ieee802154Address::Short([0x12, 0x34]);
    let sh_d = Ieee802154Address::Short([0x56, 0x78]);
    let ll = |kind: &str, e: Ieee802154Address, sh: Ieee802154Address| match kind {
        "ext" => Some(e),
        "short" => Some(sh),
        _ => None,
    };
    let ls = ll(s["ls"].as_str().unwrap(), ext_s, sh_s);
    let ld = ll(s["ld"].as_str().unwrap(), ext_d, sh_d);
    let addr = |class: &str, e: Ieee802154Address, sh: [u8; 2], salt: u16| match class {
        "unspec" => Ipv6Address::UNSPECIFIED,
        "ll-from-ext" => e.as_link_local_address().unwrap(),
        "ll-from-short" => Ipv6Address::new(0xfe80, 0, 0, 0, 0, 0x00ff, 0xfe00, u16::from_be_bytes(sh)),
        "ll-short-other" => Ipv6Address::new(0xfe80, 0, 0, 0, 0, 0x00ff, 0xfe00, 0x9a00 + salt),
        "ll-iid64" => Ipv6Address::new(0xfe80, 0, 0, 0, 0x1111, 0x2222, 0x3333, 0x4400 + salt),
        "ll10-ext" => {
            let mut o = e.as_link_local_address().unwrap().octets();
            o[7] = 1;
            Ipv6Address::from_octets(o)
        }
        "global" => Ipv6Address::new(0x2001, 0xdb8, 0x1, 0x2, 0x5555, 0x6666, 0x7777, 0x8800 + salt),
        "mc-8" => Ipv6Address::new(0xff02, 0, 0, 0, 0, 0, 0, 0x00fb),
        "mc-32" => Ipv6Address::new(0xff05, 0, 0, 0, 0, 0, 0x0012, 0x3456),
        "mc-48" => Ipv6Address::new(0xff1e, 0, 0, 0, 0, 0x00ab, 0xcdef, 0x1234),
        // near misses of the short forms: flags set on a link-local group with a one-octet id; one octet too many for the 32-bit form
        "mc-8f" => Ipv6Address::new(0xff12, 0, 0, 0, 0, 0, 0, 0x0042),
        "mc-32f" => Ipv6Address::new(0xff05, 0, 0, 0, 0, 0x00ab, 0x0012, 0x3456),
        _ => Ipv6Address::new(0xff02, 0, 0, 0x1, 0, 0x1, 0xff00, 0x1234),
    };
    let src = addr(s["s"].as_str().unwrap(), ext_s, [0x12, 0x34], 1);
    let dst = addr(s["d"].as_str().unwrap(), ext_d, [0x56, 0x78], 2);
    let nh = match s["nh"].as_str().unwrap() {
        "compressed" => SixlowpanNextHeader::Compressed,
        "udp" => SixlowpanNextHeader::Uncompressed(IpProtocol::Udp),
        "tcp" => SixlowpanNextHeader::Uncompressed(IpProtocol::Tcp),
        "icmp6" => SixlowpanNextHeader::Uncompressed(IpProtocol::Icmpv6),
        _ => SixlowpanNextHeader::Uncompressed(IpProtocol::HopByHop),
    };
    let hop = s["h"].as_u64().unwrap() as u8;
    let repr = SixlowpanIphcRepr { src_addr: src, ll_src_addr: ls, dst_addr: dst, ll_dst_addr: ld, next_header: nh, hop_limit: hop, ecn: None, dscp: None, flow_label: None };
    let r = guarded(|| {
        let len = repr.buffer_len();
        // room for a fully inline header, so that a wrong buffer_len shows as a difference and not as a panic
        let mut buf = vec![0xAAu8; 64];
        repr.emit(&mut SixlowpanIphcPacket::new_unchecked(&mut buf[..]));
        // parse exactly buffer_len octets followed by one payload octet
        let mut wire = buf[..len].to_vec();
        wire.push(0x5a);
        let back = SixlowpanIphcPacket::new_checked(&wire[..]).ok().and_then(|p| {
            let pl = p.payload().len();
            SixlowpanIphcRepr::parse(&p, ls, ld, &[]).ok().map(|r| (r, pl))
        });
        (len, back)
    });
    match r {
        Err(m) => json!({"ev":"panic","k":k,"s":s,"msg":m}),
        Ok((len, None)) => json!({"ev":"iphc","k":k,"s":s,"len":len,"ok":false,"why":"parse-error"}),
        Ok((len, Some((b, pl)))) => {
            let why = if b.src_addr != src {
                "src"
            } else if b.dst_addr != dst {
                "dst"
            } else if b.hop_limit != hop {
                "hop"
            } else if b.next_header != nh {
                "nh"
            } else if pl != 1 {
                "len"
            } else {
                ""
            };
            json!({"ev":"iphc","k":k,"s":s,"len":len,"ok":why.is_empty(),"why":why,"src":b.src_addr.to_string(),"dst":b.dst_addr.to_string()})
        }
    }
}
