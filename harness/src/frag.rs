//! World `frag` (C12): node A sends oversized UDP datagrams (and oversized echo requests) to node B over raw-IP
//! media; the harness is the wire: it collects A's fragments, permutes / duplicates / drops them and feeds them to B.
//! Every frame is parsed independently; fragment payloads are compared with the original datagram's bytes.
use crate::dev::QDev;
use crate::frames::*;
use crate::util::*;
use serde_json::{json, Value};
use smoltcp::iface::{Config, Interface, SocketHandle, SocketSet};
use smoltcp::phy::Medium;
use smoltcp::socket::{icmp, udp};
use smoltcp::time::Instant;
use smoltcp::wire::{HardwareAddress, IpAddress, IpCidr, IpEndpoint};
use std::collections::HashMap;

const A: [u8; 4] = [10, 0, 0, 1];
const B: [u8; 4] = [10, 0, 0, 2];
/// a third station the harness plays itself: its fragments collide with A's identification numbers
const C: [u8; 4] = [10, 0, 0, 3];

pub struct Node {
    pub iface: Interface,
    pub dev: QDev,
    pub sockets: SocketSet<'static>,
    pub udp: Vec<SocketHandle>,
    pub icmp: SocketHandle,
}

pub fn payload_byte(did: u32, i: usize) -> u8 {
    ((did as usize * 37 + i * 11 + 5) % 251) as u8
}
pub fn dgram_payload(did: u32, size: usize) -> Vec<u8> {
    let mut v: Vec<u8> = (0..size).map(|i| payload_byte(did, i)).collect();
    for (i, b) in did.to_be_bytes().iter().enumerate() {
        if i < size {
            v[i] = *b;
        }
    }
    v
}

impl Node {
    pub fn new(addr: [u8; 4], mtu: usize, nudp: usize, seed: u64, eth: bool) -> Node {
        // `mtu` is the IP MTU; on Ethernet the device MTU is 14 octets larger
        let mut dev = if eth { QDev::new(Medium::Ethernet, mtu + 14) } else { QDev::new(Medium::Ip, mtu) };
        let mut c = if eth { Config::new(HardwareAddress::Ethernet(smoltcp::wire::EthernetAddress([2, 0, 0, 0, 0, addr[3]]))) } else { Config::new(HardwareAddress::Ip) };
        c.random_seed = seed;
        let mut iface = Interface::new(c, &mut dev, Instant::from_millis(0));
        iface.update_ip_addrs(|a| {
            a.push(IpCidr::new(IpAddress::v4(addr[0], addr[1], addr[2], addr[3]), 24)).unwrap();
        });
        let mut sockets = SocketSet::new(vec![]);
        let mut udp_h = vec![];
        for k in 0..nudp {
            let mut s = udp::Socket::new(
                udp::PacketBuffer::new(vec![udp::PacketMetadata::EMPTY; 32], vec![0u8; 65536]),
                udp::PacketBuffer::new(vec![udp::PacketMetadata::EMPTY; 32], vec![0u8; 65536]),
            );
            s.bind(7000 + k as u16).unwrap();
            udp_h.push(sockets.add(s));
        }
        let mut ic = icmp::Socket::new(
            icmp::PacketBuffer::new(vec![icmp::PacketMetadata::EMPTY; 16], vec![0u8; 32768]),
            icmp::PacketBuffer::new(vec![icmp::PacketMetadata::EMPTY; 16], vec![0u8; 32768]),
        );
        ic.bind(icmp::Endpoint::Ident(0x4242)).unwrap();
        let icmp_h = sockets.add(ic);
        Node { iface, dev, sockets, udp: udp_h, icmp: icmp_h }
    }
    pub fn poll(&mut self, now: i64, frames: Vec<Vec<u8>>, egress_only: bool) -> Result<Vec<Vec<u8>>, String> {
        for f in frames {
            self.dev.rx.push_back(f);
        }
        let r = guarded(|| {
            if egress_only {
                self.iface.poll_egress(Instant::from_millis(now), &mut self.dev, &mut self.sockets);
            } else {
                self.iface.poll(Instant::from_millis(now), &mut self.dev, &mut self.sockets);
            }
        });
        let out = self.dev.take_tx();
        r.map(|_| out)
    }
    pub fn poll_at(&mut self, now: i64) -> i64 {
        self.iface.poll_at(Instant::from_millis(now), &self.sockets).map(crate::util::ms_ceil).unwrap_or(-1)
    }
}

/// Expected IP payload (UDP header + data) of datagram `did` sent from A:sport to B:dport.
fn expected_udp(did: u32, size: usize, src: [u8; 4], dst: [u8; 4], sport: u16, dport: u16) -> Vec<u8> {
    let p = ipv4_packet(src, dst, 17, 0, 64, &udp_datagram(sport, dport, &dgram_payload(did, size)), true);
    p[20..].to_vec()
}

pub struct Proj {
    pub eth: bool,
    pub ident2did: HashMap<(usize, u32), u32>,
    pub sizes: HashMap<u32, (usize, u16, u16, bool)>, // did -> (size, sport, dport, is_icmp)
}

impl Proj {
    pub fn frame(&mut self, from: usize, f: &[u8]) -> Value {
        let f = if self.eth {
            if f.len() >= 14 && f[12] == 8 && f[13] == 6 {
                return json!({"from": from, "arp": true, "did": -1, "frag": false, "len": f.len()});
            }
            &f[14.min(f.len())..]
        } else {
            f
        };
        let Some(ip) = parse_ip(f) else {
            return json!({"from": from, "unparsed": true, "len": f.len()});
        };
        let plen = ip.l4_bytes.len();
        // the sending station is told by the source address (station C shares the wire with A)
        let from = if ip.src == C { 2 } else if ip.src == A { 0 } else if ip.src == B { 1 } else { from };
        let mut did: i64 = -1;
        if ip.frag_off == 0 && plen >= 12 {
            // UDP: payload starts at 8; ICMP echo: data starts at 8
            let d = u32::from_be_bytes([ip.l4_bytes[8], ip.l4_bytes[9], ip.l4_bytes[10], ip.l4_bytes[11]]);
            if self.sizes.contains_key(&d) {
                did = d as i64;
                // only a first fragment names the datagram of the fragments that follow; whole packets all carry
                // identification 0 and must not claim it
                if ip.mf {
                    self.ident2did.insert((from, ip.ident), d);
                }
            }
        } else if let Some(d) = self.ident2did.get(&(from, ip.ident)) {
            did = *d as i64;
        }
        let mut pd: i64 = -1;
        let mut l4cs = true;
        let mut total: i64 = -1;
        if did >= 0 {
            let (size, sport, dport, is_icmp) = self.sizes[&(did as u32)];
            total = 8 + size as i64;
            if !is_icmp {
                let (s, d) = match from { 0 => (A, B), 2 => (C, B), _ => (B, A) };
                let exp = expected_udp(did as u32, size, s, d, sport, dport);
                for (i, b) in ip.l4_bytes.iter().enumerate() {
                    let k = ip.frag_off + i;
                    if k >= exp.len() || exp[k] != *b {
                        pd = i as i64;
                        break;
                    }
                }
            } else {
                let exp = dgram_payload(did as u32, size);
                // the echo header as the world sent it (type 8 from A, type 0 back from B), checksum over the message
                // (the type octet is in the first fragment only; the octets after the header are the same for both)
                let ty = if ip.frag_off == 0 && ip.l4_bytes.first() == Some(&0) { 0u8 } else { 8u8 };
                let mut hdr = vec![ty, 0, 0, 0, 0x42, 0x42, 0, 1];
                let mut whole = hdr.clone();
                whole.extend_from_slice(&exp);
                let c = csum(&whole);
                hdr[2..4].copy_from_slice(&c.to_be_bytes());
                for (i, b) in ip.l4_bytes.iter().enumerate() {
                    let k = ip.frag_off + i;
                    let want = if k < 8 { Some(hdr[k]) } else { exp.get(k - 8).cloned() };
                    if want != Some(*b) {
                        pd = i as i64;
                        if k == 2 || k == 3 {
                            l4cs = false;
                        }
                        break;
                    }
                }
            }
        }
        json!({"from": from, "ident": ip.ident, "foff": ip.frag_off, "mf": ip.mf, "plen": plen, "iplen": ip.total_len, "proto": ip.proto,
               "did": did, "pd": pd, "l4cs": l4cs, "total": total, "hcs": ip.hdr_csum_ok, "wf": ip.wf, "frag": ip.mf || ip.frag_off > 0,
               "src": addr_str(&ip.src), "dst": addr_str(&ip.dst)})
    }
}

/// Station C's datagram `did` for B, cut into fragments of `per` payload octets by the harness itself.
fn craft_frags(ident: u16, did: u32, size: usize, port: u16, per: usize, eth: bool) -> Vec<Vec<u8>> {
    let whole = ipv4_packet(C, B, 17, ident, 64, &udp_datagram(port, port, &dgram_payload(did, size)), true);
    let l4 = &whole[20..];
    let mut v = vec![];
    let mut off = 0;
    while off < l4.len() {
        let n = per.min(l4.len() - off);
        let last = off + n == l4.len();
        let mut h = whole[..20].to_vec();
        h[2..4].copy_from_slice(&((20 + n) as u16).to_be_bytes());
        let fl = ((off / 8) as u16) | if last { 0 } else { 0x2000 };
        h[6..8].copy_from_slice(&fl.to_be_bytes());
        h[10] = 0;
        h[11] = 0;
        let c = csum(&h);
        h[10..12].copy_from_slice(&c.to_be_bytes());
        h.extend_from_slice(&l4[off..off + n]);
        v.push(if eth { eth_frame([2, 0, 0, 0, 0, B[3]], [2, 0, 0, 0, 0, C[3]], 0x0800, &h) } else { h });
        off += n;
    }
    v
}

/// Station C's oversized echo request `did` for A (the reply has to be fragmented too), cut into fragments.
fn craft_ping_frags(ident: u16, did: u32, size: usize, per: usize) -> Vec<Vec<u8>> {
    let mut m = vec![8u8, 0, 0, 0, 0x42, 0x42, 0, 1];
    m.extend_from_slice(&dgram_payload(did, size));
    let c = csum(&m);
    m[2..4].copy_from_slice(&c.to_be_bytes());
    let whole = ipv4_packet(C, A, 1, ident, 64, &m, false);
    let l4 = &whole[20..];
    let mut v = vec![];
    let mut off = 0;
    while off < l4.len() {
        let n = per.min(l4.len() - off);
        let last = off + n == l4.len();
        let mut h = whole[..20].to_vec();
        h[2..4].copy_from_slice(&((20 + n) as u16).to_be_bytes());
        let fl = ((off / 8) as u16) | if last { 0 } else { 0x2000 };
        h[6..8].copy_from_slice(&fl.to_be_bytes());
        h[10] = 0;
        h[11] = 0;
        let c = csum(&h);
        h[10..12].copy_from_slice(&c.to_be_bytes());
        h.extend_from_slice(&l4[off..off + n]);
        v.push(h);
        off += n;
    }
    v
}

fn build_consts() -> Value {
    // the harness cannot read smoltcp::config (private); the check passes the build constants on the command line
    json!({})
}

struct World {
    a: Node,
    b: Node,
    proj: Proj,
    now: i64,
    mtu: usize,
}

impl World {
    fn new(mtu: usize, seed: u64, eth: bool) -> World {
        World { a: Node::new(A, mtu, 2, seed, eth), b: Node::new(B, mtu, 2, seed + 1, eth), proj: Proj { eth, ident2did: HashMap::new(), sizes: HashMap::new() }, now: 0, mtu }
    }
    fn send_udp(&mut self, sock: usize, did: u32, size: usize, t: &mut Trace) -> bool {
        self.proj.sizes.insert(did, (size, 7000 + sock as u16, 7000 + sock as u16, false));
        let data = dgram_payload(did, size);
        let h = self.a.udp[sock];
        let r = self.a.sockets.get_mut::<udp::Socket>(h).send_slice(&data, IpEndpoint::new(IpAddress::v4(B[0], B[1], B[2], B[3]), 7000 + sock as u16));
        t.ev(json!({"ev":"api","ep":0,"now":self.now,"call":"send","kind":"udp","sock":sock,"did":did,"size":size,"total":8+size,"ok":r.is_ok()}));
        r.is_ok()
    }
    fn send_ping(&mut self, did: u32, size: usize, t: &mut Trace) -> bool {
        // echo request built by hand: type 8, code 0, csum, ident 0x4242, seq
        self.proj.sizes.insert(did, (size, 0, 0, true));
        let mut m = vec![8u8, 0, 0, 0, 0x42, 0x42, 0, 1];
        m.extend_from_slice(&dgram_payload(did, size));
        let c = csum(&m);
        m[2..4].copy_from_slice(&c.to_be_bytes());
        let h = self.a.icmp;
        let r = self.a.sockets.get_mut::<icmp::Socket>(h).send_slice(&m, IpAddress::v4(B[0], B[1], B[2], B[3]));
        t.ev(json!({"ev":"api","ep":0,"now":self.now,"call":"send","kind":"icmp","sock":0,"did":did,"size":size,"total":8+size,"ok":r.is_ok()}));
        r.is_ok()
    }
    /// polls node `e` once (egress pass or full poll); logs; returns emitted frames
    fn poll(&mut self, e: usize, frames: Vec<Vec<u8>>, egress_only: bool, t: &mut Trace) -> Option<Vec<Vec<u8>>> {
        let rxp: Vec<Value> = frames.iter().map(|f| self.proj.frame(1 - e, f)).collect();
        let n = if e == 0 { &mut self.a } else { &mut self.b };
        let bp = n.dev.tx_budget.is_some();
        // frames a back-pressured device kept from the previous poll are received by this one
        let lo = n.dev.rx.len();
        match n.poll(self.now, frames, egress_only) {
            Ok(out) => {
                let pa = n.poll_at(self.now);
                let outs: Vec<Value> = out.iter().map(|o| self.proj.frame(e, o)).collect();
                t.ev(json!({"ev":"poll","ep":e,"now":self.now,"rx":rxp,"out":outs,"pa":pa,"eg":egress_only,"bp":bp,"lo":lo}));
                Some(out)
            }
            Err(m) => {
                t.ev(json!({"ev":"panic","ep":e,"now":self.now,"msg":m}));
                None
            }
        }
    }
    fn drain_recv(&mut self, e: usize, t: &mut Trace) {
        let now = self.now;
        let n = if e == 0 { &mut self.a } else { &mut self.b };
        for (k, h) in n.udp.clone().iter().enumerate() {
            loop {
                let s = n.sockets.get_mut::<udp::Socket>(*h);
                let Ok((data, meta)) = s.recv() else { break };
                let did = if data.len() >= 4 { u32::from_be_bytes([data[0], data[1], data[2], data[3]]) } else { u32::MAX };
                let exp = dgram_payload(did, data.len());
                let diff = data.iter().zip(exp.iter()).position(|(a, b)| a != b).map(|x| x as i64).unwrap_or(-1);
                t.ev(json!({"ev":"api","ep":e,"now":now,"call":"recv","kind":"udp","sock":k,"did":did as i64,"size":data.len(),"diff":diff,
                            "src": meta.endpoint.addr.to_string(), "sport": meta.endpoint.port}));
            }
        }
        let h = n.icmp;
        loop {
            let s = n.sockets.get_mut::<icmp::Socket>(h);
            let Ok((data, _addr)) = s.recv() else { break };
            let did = if data.len() >= 12 { u32::from_be_bytes([data[8], data[9], data[10], data[11]]) } else { u32::MAX };
            let exp = dgram_payload(did, data.len().saturating_sub(8));
            let diff = data.iter().skip(8).zip(exp.iter()).position(|(a, b)| a != b).map(|x| x as i64).unwrap_or(-1);
            t.ev(json!({"ev":"api","ep":e,"now":now,"call":"recv","kind":"icmp","sock":0,"did":did as i64,"size":data.len().saturating_sub(8),"diff":diff,"ty":data.first().cloned().unwrap_or(255)}));
        }
    }
}

fn reset_ev(t: &mut Trace, run: usize, src: &str, seed: u64, mtu: usize, args: &Args) {
    let _ = build_consts();
    t.ev(json!({"ev":"reset","run":run,"world":"frag","src":src,"seed":seed,
        "cfg":{"mtu":mtu,"fragbuf":args.usize("fragbuf",1500),"asmN":args.usize("asmn",4),"slots":args.usize("slots",1),"rsize":args.usize("rsize",1500)}}));
}

/// Replays TLC arrival schedules: NDgrams datagrams x NFrags fragments, arrival order [[id, idx, dup], ...].
pub fn replay(args: &Args) {
    let sched = read_ndjson(&args.str("sched", ""));
    let mut t = Trace::create(&args.str("out", ""));
    let nfrags = args.usize("nfrags", 3);
    let ndgrams = args.usize("ndgrams", 2);
    let mtu = if nfrags <= 3 { 576 } else { 420 };
    let per = (mtu - 20) & !7;
    for (k, sc) in sched.iter().enumerate() {
        let mut w = World::new(mtu, 100 + k as u64, false);
        reset_ev(&mut t, k, "tlc", 0, mtu, args);
        // datagram sizes giving exactly nfrags fragments, different last-fragment lengths per datagram
        let mut ok = true;
        for d in 1..=ndgrams {
            let ip_payload = per * (nfrags - 1) + 8 * (3 + d);
            ok &= w.send_udp(d % 2, d as u32, ip_payload - 8, &mut t);
        }
        // sender: egress passes until nothing is pending
        let mut pool: HashMap<(u32, usize), Vec<u8>> = HashMap::new();
        for _ in 0..200 {
            w.now += 1;
            let Some(out) = w.poll(0, vec![], true, &mut t) else { ok = false; break };
            for f in &out {
                let p = w.proj.frame(0, f);
                if p["did"].as_i64().unwrap_or(-1) >= 0 {
                    pool.insert((p["did"].as_i64().unwrap() as u32, p["foff"].as_u64().unwrap() as usize / per + 1), f.clone());
                }
            }
            if out.is_empty() && w.a.poll_at(w.now) != 0 {
                break;
            }
        }
        t.ev(json!({"ev":"sent","now":w.now,"nfrag_seen":pool.len()}));
        if !ok {
            continue;
        }
        for a in sc["arr"].as_array().unwrap() {
            let key = (a[0].as_u64().unwrap() as u32, a[1].as_u64().unwrap() as usize);
            if let Some(f) = pool.get(&key).cloned() {
                w.now += 1;
                if w.poll(1, vec![f], false, &mut t).is_none() {
                    break;
                }
                w.drain_recv(1, &mut t);
            } else {
                t.ev(json!({"ev":"missing","did":key.0,"idx":key.1}));
            }
        }
        t.ev(json!({"ev":"end","now":w.now,"how":"quiescent","model_delivered":sc["delivered"].clone()}));
    }
    println!("{}", json!({"runs": sched.len(), "events": t.finish()}));
}

pub fn random(args: &Args) {
    let seed0 = args.u64("seed", 1);
    let runs = args.usize("runs", 50);
    let fragbuf = args.usize("fragbuf", 1500);
    let mut t = Trace::create(&args.str("out", ""));
    for run in 0..runs {
        let mut rng = Rng::new(seed0.wrapping_mul(9_000_011).wrapping_add(run as u64));
        let mtu = *rng.pick(&[68usize, 100, 296, 576, 576, 1006, 1500]);
        let eth = rng.chance(40);
        let mut w = World::new(mtu, rng.next(), eth);
        reset_ev(&mut t, run, "random", seed0, mtu, args);
        // timeout case: the first datagram loses a fragment, the world then waits beyond the reassembly timeout and
        // sends the others, which have to be reassembled in the slot the first one held
        let tcase = mtu >= 100 && mtu < 1400 && rng.chance(25);
        let mut paused = !tcase;
        let mut forced_drop = !tcase;
        let ndg = if tcase { rng.range(2, 5) as u32 } else { rng.range(1, 6) as u32 };
        let budget = if rng.chance(40) { Some(rng.range(1, 3) as usize) } else { None };
        let mut inflight: Vec<(i64, Vec<u8>)> = vec![]; // (arrival time, frame) towards B
        let mut back: Vec<Vec<u8>> = vec![]; // frames from B to A (echo replies), delivered in order
        let mut next_did = 1u32;
        let dup_pct = *rng.pick(&[0u64, 0, 10, 30]);
        let drop_pct = *rng.pick(&[0u64, 0, 0, 10]);
        let reorder = rng.chance(60);
        // station C: once per run, a datagram of its own whose fragments carry the identification A is using right
        // now and travel interleaved with A's (same destination, same protocol, different source)
        let mut twin = mtu >= 100 && rng.chance(35);
        let mut cping = mtu >= 100 && mtu < 1400 && rng.chance(40);
        let mut steps = 0;
        loop {
            steps += 1;
            if steps > 3000 {
                t.ev(json!({"ev":"end","now":w.now,"how":"steplimit"}));
                break;
            }
            w.now += rng.range(0, 3) as i64;
            if inflight.is_empty() && back.is_empty() && w.a.poll_at(w.now) != 0 && w.b.poll_at(w.now) != 0 && rng.chance(4) {
                // longer than the 60 s reassembly timeout: slots holding incomplete datagrams are given up
                w.now += rng.range(61_000, 70_000) as i64;
            }
            // application: send another datagram now and then (several back to back)
            if !paused && next_did > 1 && inflight.is_empty() && back.is_empty() && w.a.poll_at(w.now) != 0 && w.b.poll_at(w.now) != 0 {
                w.now += rng.range(61_000, 70_000) as i64;
                paused = true;
            }
            if next_did <= ndg && rng.chance(50) && (paused || next_did == 1) {
                let burst = if paused { rng.range(1, 3) } else { 1 };
                for _ in 0..burst {
                    if next_did > ndg {
                        break;
                    }
                    let maxp = fragbuf - 20 - 8;
                    let size = match rng.below(5) {
                        // IP length within a few octets of the IP MTU (and of the link MTU on Ethernet)
                        4 if mtu >= 100 => (mtu - 28 - 2 + rng.below(19) as usize).min(maxp),
                        0 => rng.range(4, (mtu as u64).saturating_sub(28).max(4)) as usize,
                        1 => maxp,
                        2 => rng.range(mtu as u64, maxp as u64) as usize,
                        _ => rng.range(4, maxp as u64 + 40) as usize,
                    };
                    let size = if tcase && next_did == 1 { rng.range(mtu as u64, maxp as u64) as usize } else { size };
                    if rng.chance(25) && !(tcase && next_did == 1) {
                        w.send_ping(next_did, size.min(maxp), &mut t);
                    } else {
                        w.send_udp(rng.below(2) as usize, next_did, size, &mut t);
                    }
                    next_did += 1;
                }
            }
            // A polls (with optional device back-pressure)
            w.a.dev.tx_budget = budget;
            let eg = rng.chance(50);
            let ba = std::mem::take(&mut back);
            let Some(out) = w.poll(0, ba, eg && false, &mut t) else { break };
            w.a.dev.tx_budget = None;
            w.drain_recv(0, &mut t);
            // station C: an oversized echo request for A arriving while A still has fragments of its own to send; the reply
            // needs fragmenting as well (on Ethernet C introduces itself with an ARP request first, or A could not answer)
            if cping && w.a.poll_at(w.now) == 0 {
                cping = false;
                let did = 950_000 + run as u32;
                let per = (mtu - 20) & !7;
                let size = rng.range(mtu as u64, (fragbuf - 28) as u64) as usize;
                w.proj.sizes.insert(did, (size, 0, 0, true));
                let fr = craft_ping_frags(0x7000 + run as u16, did, size, per);
                let fr: Vec<Vec<u8>> = if eth {
                    let (ma, mc) = ([2, 0, 0, 0, 0, A[3]], [2, 0, 0, 0, 0, C[3]]);
                    back.push(eth_frame([0xff; 6], mc, 0x0806, &arp_packet(1, mc, C, [0; 6], A)));
                    fr.iter().map(|h| eth_frame(ma, mc, 0x0800, h)).collect()
                } else {
                    fr
                };
                let outs: Vec<Value> = fr.iter().map(|x| w.proj.frame(2, x)).collect();
                t.ev(json!({"ev":"api","ep":2,"now":w.now,"call":"send","kind":"icmp","sock":0,"did":did,"size":size,"total":8+size,"ok":true}));
                t.ev(json!({"ev":"poll","ep":2,"now":w.now,"rx":[],"out":outs,"pa":-1,"eg":true}));
                back.extend(fr);
            }
            for f in out {
                // frames for station C end there
                // (told by the IP destination, or for ARP by the hardware destination: an IP frame for B that carries C's
                //  hardware address still reaches B's device, which is where it shows as a datagram B never delivers)
                if (!eth && f.len() >= 20 && f[16..20] == C)
                    || (eth && f.len() >= 34 && f[12] == 8 && f[13] == 0 && f[30..34] == C)
                    || (eth && f.len() >= 14 && f[12] == 8 && f[13] == 6 && f[..6] == [2, 0, 0, 0, 0, C[3]])
                {
                    continue;
                }
                let is_arp = eth && f.len() >= 14 && f[12] == 8 && f[13] == 6;
                let c = if is_arp { 100 } else { rng.below(100) };
                let is_frag = { let o = if eth { 14 } else { 0 }; f.len() > o + 8 && (u16::from_be_bytes([f[o + 6], f[o + 7]]) & 0x3fff) != 0 };
                if !forced_drop && is_frag && !is_arp {
                    forced_drop = true;
                    t.ev(json!({"ev":"net","fate":"drop"}));
                    continue;
                }
                if c < drop_pct {
                    t.ev(json!({"ev":"net","fate":"drop"}));
                    continue;
                }
                if twin && is_frag && !is_arp {
                    twin = false;
                    let o = if eth { 14 } else { 0 };
                    let ident = u16::from_be_bytes([f[o + 4], f[o + 5]]);
                    let did = 900_000 + run as u32;
                    let per = (mtu - 20) & !7;
                    let size = rng.range(per as u64, (fragbuf - 28) as u64) as usize;
                    w.proj.sizes.insert(did, (size, 7001, 7001, false));
                    let fr = craft_frags(ident, did, size, 7001, per, eth);
                    let outs: Vec<Value> = fr.iter().map(|x| w.proj.frame(2, x)).collect();
                    t.ev(json!({"ev":"api","ep":2,"now":w.now,"call":"send","kind":"udp","sock":1,"did":did,"size":size,"total":8+size,"ok":true}));
                    t.ev(json!({"ev":"poll","ep":2,"now":w.now,"rx":[],"out":outs,"pa":-1,"eg":true}));
                    for x in fr {
                        inflight.push((w.now + rng.range(1, 40) as i64, x));
                    }
                }
                let d = if reorder { rng.range(1, 40) as i64 } else { 5 };
                if c < drop_pct + dup_pct {
                    inflight.push((w.now + d + rng.range(0, 20) as i64, f.clone()));
                }
                inflight.push((w.now + d, f));
            }
            // deliveries to B that are due
            inflight.sort_by_key(|x| x.0);
            while !inflight.is_empty() && inflight[0].0 <= w.now {
                let (_, f) = inflight.remove(0);
                let Some(out) = w.poll(1, vec![f], false, &mut t) else { break };
                w.drain_recv(1, &mut t);
                back.extend(out);
            }
            // B may still have reply fragments pending
            if w.b.poll_at(w.now) == 0 {
                if let Some(out) = w.poll(1, vec![], false, &mut t) {
                    back.extend(out);
                }
            }
            let idle = next_did > ndg && inflight.is_empty() && back.is_empty() && w.a.poll_at(w.now) != 0 && w.b.poll_at(w.now) != 0;
            if idle {
                // one last look
                w.drain_recv(0, &mut t);
                w.drain_recv(1, &mut t);
                t.ev(json!({"ev":"end","now":w.now,"how":"quiescent"}));
                break;
            }
            if inflight.iter().all(|x| x.0 > w.now) && !inflight.is_empty() && next_did > ndg && back.is_empty() && w.a.poll_at(w.now) != 0 {
                w.now = inflight.iter().map(|x| x.0).min().unwrap();
            }
        }
    }
    println!("{}", json!({"runs": runs, "events": t.finish()}));
}
