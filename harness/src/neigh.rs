//! World `neigh` (C16, C09, C10, C13): one real interface on Ethernet; the harness plays every other station:
//! on-link hosts, a gateway, a host that never answers, spoofers.  UDP sockets with tiny ring capacities send
//! position-coded datagrams to on-link and off-link destinations; ARP replies are timely, late, absent,
//! unsolicited, spoofed (off-link sender) or non-unicast; time jumps across the 1 s and 60 s boundaries; routes
//! change and expire; the device exerts back-pressure.  Inbound datagrams exercise delivery and truncation.
use crate::dev::QDev;
use crate::frag::dgram_payload;
use crate::frames::*;
use crate::util::*;
use serde_json::{json, Value};
use smoltcp::iface::{Config, Interface, Route, SocketHandle, SocketSet};
use smoltcp::phy::Medium;
use smoltcp::socket::{icmp, raw, udp};
use smoltcp::time::Instant;
use smoltcp::wire::{EthernetAddress, HardwareAddress, IpAddress, IpCidr, IpEndpoint, IpProtocol, IpVersion, Ipv4Address, Ipv4Cidr, Ipv6Address, Ipv6Cidr};
use std::collections::HashMap;

const MY_IP: [u8; 4] = [10, 0, 0, 1];
const MY_MAC: [u8; 6] = [2, 0, 0, 0, 0, 1];
const GW: [u8; 4] = [10, 0, 0, 254];

fn mac_of(ip: [u8; 4]) -> [u8; 6] {
    [2, 0, 0, 0, 1 + ip[2], ip[3]]
}
fn mac_s(m: &[u8]) -> String {
    m.iter().map(|b| format!("{:02x}", b)).collect::<Vec<_>>().join(":")
}
/// Addresses appear in the trace as 4-tuples.  In IPv6 runs the world uses fd00:0:0:P:A:B:C:D for the tuple (A,B,C,D)
/// (P = 0 on-link, else another /64), so one monitor serves both families: multicast maps into 224/4, :: to 0.0.0.0.
fn ipj(a: &[u8]) -> Value {
    if a.len() == 16 {
        if a[0] == 0xff {
            return json!([224, 0, 0, a[15] as u64]);
        }
        if a.iter().all(|x| *x == 0) {
            return json!([0, 0, 0, 0]);
        }
        return json!([a[9] as u64, a[11] as u64, a[13] as u64, a[15] as u64]);
    }
    json!(a.iter().map(|x| *x as u64).collect::<Vec<u64>>())
}
fn a6(t: [u8; 4]) -> [u8; 16] {
    let p = match t[0] {
        10 => 0u8,
        192 => 1,
        _ => 2,
    };
    [0xfd, 0, 0, 0, 0, 0, 0, p, 0, t[0], 0, t[1], 0, t[2], 0, t[3]]
}
fn ip_of(t: [u8; 4], v6: bool) -> IpAddress {
    if v6 {
        IpAddress::Ipv6(Ipv6Address::from_octets(a6(t)))
    } else {
        IpAddress::v4(t[0], t[1], t[2], t[3])
    }
}
fn icmp6(src: [u8; 16], dst: [u8; 16], body: Vec<u8>) -> Vec<u8> {
    ipv6_packet(src, dst, 58, 255, &body, true)
}
/// a neighbour advertisement that has crossed a router (hop limit below 255): spoofed from off-link, it teaches nothing
fn nd_adv_routed(sha: [u8; 6], spa: [u8; 4], hop: u8) -> Vec<u8> {
    let mut b = vec![136u8, 0, 0, 0, 0x60, 0, 0, 0];
    b.extend_from_slice(&a6(spa));
    b.extend_from_slice(&[2, 1]);
    b.extend_from_slice(&sha);
    eth_frame(MY_MAC, sha, 0x86dd, &ipv6_packet(a6(spa), a6(MY_IP), 58, hop, &b, true))
}
/// neighbour advertisement (op 2) / solicitation (op 1) from a station, the IPv6 counterpart of `arp_reply`
fn nd_msg(sha: [u8; 6], spa: [u8; 4], op: u16, dst_mac: [u8; 6]) -> Vec<u8> {
    let me = a6(MY_IP);
    if op == 2 {
        let mut b = vec![136u8, 0, 0, 0, 0x60, 0, 0, 0];
        b.extend_from_slice(&a6(spa));
        b.extend_from_slice(&[2, 1]);
        b.extend_from_slice(&sha);
        eth_frame(dst_mac, if sha[0] & 1 == 0 { sha } else { mac_of(spa) }, 0x86dd, &icmp6(a6(spa), me, b))
    } else {
        let mut b = vec![135u8, 0, 0, 0, 0, 0, 0, 0];
        b.extend_from_slice(&me);
        b.extend_from_slice(&[1, 1]);
        b.extend_from_slice(&sha);
        // to our solicited-node group
        let sn = [0xff, 2, 0, 0, 0, 0, 0, 0, 0, 0, 0, 1, 0xff, me[13], me[14], me[15]];
        eth_frame([0x33, 0x33, 0xff, me[13], me[14], me[15]], sha, 0x86dd, &icmp6(a6(spa), sn, b))
    }
}

const IDENT: u16 = 0x4242;
const RAW_PROTO: u8 = 253;

struct SockCfg {
    h: SocketHandle,
    kind: u8, // 0 UDP, 1 ICMP (bound to IDENT), 2 raw (protocol RAW_PROTO)
    port: u16,
    rxm: usize,
    rxp: usize,
    txm: usize,
    txp: usize,
}

struct W {
    iface: Interface,
    dev: QDev,
    sockets: SocketSet<'static>,
    socks: Vec<SockCfg>,
    now: i64,
    sizes: HashMap<u32, usize>,
    v6: bool,
    /// the ICMP socket is bound to UDP port 6000 (errors about datagrams sent from that port) instead of the echo identifier
    icmp_udp: bool,
    /// datagrams whose last two payload octets were chosen so that the UDP checksum computes to 0x0000 (it must then be
    /// transmitted as 0xffff): datagram id -> the two octets
    patch: HashMap<u32, [u8; 2]>,
    /// a host (last octet) whose IP datagrams arrive from another station's hardware address than the one its ARP /
    /// neighbour-discovery answers give: such traffic does not confirm the learned address
    impostor: Option<u8>,
}

impl W {
    fn src_mac(&self, src: [u8; 4]) -> [u8; 6] {
        if src[2] == 0 && self.impostor == Some(src[3]) { [2, 0, 0, 0, 9, src[3]] } else { mac_of(src) }
    }

    /// which socket a datagram on the wire belongs to (`sk`), its size as the socket counts it, its identity and
    /// the position of the first octet that differs from what the application wrote
    fn dgram(&self, v: &mut Value, ip: &IpPkt, from_me: bool) {
        let mark = |v: &mut Value, sk: usize, size: usize, payload: &[u8], hdr_ok: bool, sport: u16, dport: u16, cs: bool| {
            v["sk"] = json!(sk);
            v["size"] = json!(size);
            v["sport"] = json!(sport);
            v["dport"] = json!(dport);
            v["cs"] = json!(cs);
            if payload.len() >= 4 {
                let did = u32::from_be_bytes([payload[0], payload[1], payload[2], payload[3]]);
                if self.sizes.contains_key(&did) {
                    let mut exp = dgram_payload(did, payload.len());
                    if let Some(pw) = self.patch.get(&did) {
                        let n = exp.len();
                        if n >= 2 {
                            exp[n - 2..].copy_from_slice(pw);
                        }
                    }
                    let pd = payload.iter().zip(exp.iter()).position(|(a, b)| a != b).map(|x| x as i64).unwrap_or(-1);
                    v["did"] = json!(did);
                    v["pd"] = json!(if hdr_ok { pd } else { 0 });
                    v["osize"] = json!(self.sizes[&did]);
                }
            }
        };
        match &ip.l4 {
            L4::Udp { sport, dport, payload, csum_ok, .. } => {
                let mine = if from_me { *sport } else { *dport };
                if mine == 6000 || mine == 6001 {
                    mark(v, (mine - 6000) as usize, payload.len(), payload, true, *sport, *dport, *csum_ok);
                }
            }
            L4::Icmp4 { ty, body, csum_ok, .. } | L4::Icmp6 { ty, body, csum_ok, .. } => {
                // echo request from us / echo reply to us carrying the socket's identifier
                let want = if from_me { if ip.ver == 4 { 8 } else { 128 } } else if ip.ver == 4 { 0 } else { 129 };
                let is_err = if ip.ver == 4 { *ty == 3 || *ty == 11 } else { *ty == 1 || *ty == 3 };
                if self.icmp_udp && !from_me && is_err && body.len() > 4 {
                    // an error message quoting a UDP datagram we sent from the port the ICMP socket is bound to
                    if let Some(q) = parse_ip(&body[4..]) {
                        if let L4::Udp { sport, payload, .. } = &q.l4 {
                            let mine = if q.ver == 4 { q.src == MY_IP.to_vec() } else { q.src == a6(MY_IP).to_vec() };
                            if *sport == 6000 && mine && q.wf {
                                mark(v, 2, 4 + body.len(), payload, true, 0, 0, *csum_ok);
                            }
                        }
                    }
                } else if (from_me || !self.icmp_udp) && *ty == want && body.len() >= 4 && u16::from_be_bytes([body[0], body[1]]) == IDENT {
                    let seq = u16::from_be_bytes([body[2], body[3]]);
                    let pl = &body[4..];
                    let did_lo = if pl.len() >= 4 { u16::from_be_bytes([pl[2], pl[3]]) } else { seq };
                    mark(v, 2, 8 + pl.len(), pl, seq == did_lo, 0, 0, *csum_ok);
                }
            }
            L4::Other(p) if *p == RAW_PROTO => {
                let fam = if self.v6 { 6 } else { 4 };
                mark(v, if ip.ver == fam { 3 } else { 4 }, ip.total_len, &ip.l4_bytes, true, 0, 0, true);
            }
            _ => {}
        }
    }
    /// Independent projection of an Ethernet frame.
    fn proj(&self, f: &[u8], from_me: bool) -> Value {
        if f.len() < 14 {
            return json!({"unparsed": true, "len": f.len()});
        }
        let et = u16::from_be_bytes([f[12], f[13]]);
        let mut v = json!({"dmac": mac_s(&f[0..6]), "smac": mac_s(&f[6..12]), "len": f.len(), "me": from_me, "dmu": f[0] & 1 == 0});
        match et {
            0x0806 => {
                let a = &f[14..];
                if a.len() < 28 || a[0..6] != [0, 1, 8, 0, 6, 4] {
                    v["et"] = json!("arp-bad");
                    return v;
                }
                v["et"] = json!("arp");
                v["op"] = json!(u16::from_be_bytes([a[6], a[7]]));
                v["sha"] = json!(mac_s(&a[8..14]));
                v["spa"] = ipj(&a[14..18]);
                v["tha"] = json!(mac_s(&a[18..24]));
                v["tpa"] = ipj(&a[24..28]);
                v["shau"] = json!(a[8] & 1 == 0);
            }
            0x0800 => {
                v["et"] = json!("ip4");
                match parse_ip(&f[14..]) {
                    Some(ip) => {
                        v["src"] = ipj(&ip.src);
                        v["dst"] = ipj(&ip.dst);
                        v["proto"] = json!(ip.proto);
                        v["iplen"] = json!(ip.total_len);
                        v["wf"] = json!(ip.wf && ip.hdr_csum_ok);
                        v["frag"] = json!(ip.mf || ip.frag_off > 0);
                        v["did"] = json!(-1);
                        if let L4::Udp { sport, dport, payload, csum_ok, csum_zero, .. } = &ip.l4 {
                            v["l4"] = json!("udp");
                            v["sport"] = json!(sport);
                            v["dport"] = json!(dport);
                            v["cs"] = json!(csum_ok);
                            v["cs0"] = json!(csum_zero);
                            v["size"] = json!(payload.len());
                        } else if let L4::Icmp4 { ty, code, csum_ok, .. } = &ip.l4 {
                            v["l4"] = json!("icmp");
                            v["ty"] = json!(ty);
                            v["code"] = json!(code);
                            v["cs"] = json!(csum_ok);
                        } else {
                            v["l4"] = json!("other");
                        }
                        self.dgram(&mut v, &ip, from_me);
                    }
                    None => {
                        v["et"] = json!("ip4-bad");
                    }
                }
            }
            0x86dd => {
                v["et"] = json!("ip6");
                if let Some(ip) = parse_ip(&f[14..]) {
                    if let L4::Icmp6 { ty, body, csum_ok, .. } = &ip.l4 {
                        if (*ty == 135 || *ty == 136) && body.len() >= 20 {
                            // discovery: same abstract shape as ARP (op 1 request / op 2 reply)
                            let mut lla: Option<Vec<u8>> = None;
                            let mut o = 20;
                            while o + 8 <= body.len() {
                                let l = (body[o + 1] as usize) * 8;
                                if l == 0 {
                                    break;
                                }
                                if (body[o] == 1 || body[o] == 2) && l == 8 {
                                    lla = Some(body[o + 2..o + 8].to_vec());
                                }
                                o += l;
                            }
                            v["et"] = json!("arp");
                            v["op"] = json!(if *ty == 135 { 1 } else { 2 });
                            v["sha"] = json!(lla.as_ref().map(|m| mac_s(m)).unwrap_or_else(|| "none".to_string()));
                            v["shau"] = json!(lla.as_ref().map(|m| m[0] & 1 == 0).unwrap_or(false));
                            v["spa"] = ipj(&ip.src);
                            v["tha"] = json!("00:00:00:00:00:00");
                            if *ty == 135 {
                                v["tpa"] = ipj(&body[4..20]);
                            } else {
                                v["tpa"] = ipj(&ip.dst);
                                v["spa2"] = ipj(&body[4..20]);
                            }
                            // (a discovery message is only valid with hop limit 255: it has not crossed a router)
                            v["cs"] = json!(*csum_ok && ip.ttl == 255);
                            return v;
                        }
                    }
                    v["et"] = json!("ip4");
                    v["src"] = ipj(&ip.src);
                    v["dst"] = ipj(&ip.dst);
                    v["proto"] = json!(ip.proto);
                    v["iplen"] = json!(ip.total_len);
                    v["wf"] = json!(ip.wf);
                    v["frag"] = json!(ip.mf || ip.frag_off > 0);
                    v["did"] = json!(-1);
                    if let L4::Udp { sport, dport, payload, csum_ok, csum_zero, .. } = &ip.l4 {
                        v["l4"] = json!("udp");
                        v["sport"] = json!(sport);
                        v["dport"] = json!(dport);
                        v["cs"] = json!(csum_ok);
                        v["cs0"] = json!(csum_zero);
                        v["size"] = json!(payload.len());
                    } else if let L4::Icmp6 { ty, code, csum_ok, .. } = &ip.l4 {
                        v["l4"] = json!("icmp");
                        v["ty"] = json!(ty);
                        v["code"] = json!(code);
                        v["cs"] = json!(csum_ok);
                        // multicast listener reports may carry the unspecified source (exempt in C10's statement)
                        if (130..=132).contains(ty) || *ty == 143 {
                            v["exempt"] = json!(true);
                        }
                    } else {
                        v["l4"] = json!("other");
                    }
                    self.dgram(&mut v, &ip, from_me);
                } else {
                    v["et"] = json!("ip4-bad");
                }
            }
            _ => {
                v["et"] = json!("other");
            }
        }
        v
    }
    fn poll(&mut self, frames: Vec<Vec<u8>>, budget: Option<usize>, t: &mut Trace) -> Option<Vec<Vec<u8>>> {
        for f in frames {
            self.dev.rx.push_back(f);
        }
        // frames the device will hand over in this poll = those that leave the queue
        let before: Vec<Vec<u8>> = self.dev.rx.iter().cloned().collect();
        self.dev.tx_budget = budget;
        let now = self.now;
        let r = guarded(|| {
            self.iface.poll(Instant::from_millis(now), &mut self.dev, &mut self.sockets);
        });
        let left = self.dev.rx.len();
        let consumed = before.len() - left;
        let rxp: Vec<Value> = before[..consumed].iter().map(|f| self.proj(f, false)).collect();
        let exhausted = self.dev.tx_budget == Some(0);
        self.dev.tx_budget = None;
        let out = self.dev.take_tx();
        match r {
            Ok(()) => {
                let pa = self.iface.poll_at(Instant::from_millis(now), &self.sockets).map(crate::util::ms_ceil).unwrap_or(-1);
                let outs: Vec<Value> = out.iter().map(|o| self.proj(o, true)).collect();
                let q: Vec<Value> = self.socks.iter().map(|s| match s.kind {
                    0 => {
                        let so = self.sockets.get::<udp::Socket>(s.h);
                        json!({"cs": so.can_send(), "cr": so.can_recv()})
                    }
                    1 => {
                        let so = self.sockets.get::<icmp::Socket>(s.h);
                        json!({"cs": so.can_send(), "cr": so.can_recv()})
                    }
                    _ => {
                        let so = self.sockets.get::<raw::Socket>(s.h);
                        json!({"cs": so.can_send(), "cr": so.can_recv()})
                    }
                }).collect();
                t.ev(json!({"ev":"poll","now":now,"rx":rxp,"out":outs,"pa":pa,"budget":budget.map(|x| x as i64).unwrap_or(-1),"rxleft":left,"exhausted":exhausted,"q":q}));
                Some(out)
            }
            Err(m) => {
                t.ev(json!({"ev":"panic","now":now,"msg":m}));
                None
            }
        }
    }
}

fn arp_reply(sha: [u8; 6], spa: [u8; 4], op: u16, dst_mac: [u8; 6]) -> Vec<u8> {
    eth_frame(dst_mac, sha, 0x0806, &arp_packet(op, sha, spa, MY_MAC, MY_IP))
}
/// our second IPv4 address in some runs: one end of a /31 point-to-point subnet (which has no broadcast address)
const P2P_ME: [u8; 4] = [10, 0, 1, 2];
const P2P_PEER: [u8; 4] = [10, 0, 1, 3];

pub fn random(args: &Args) {
    let seed0 = args.u64("seed", 1);
    let runs = args.usize("runs", 20);
    let cache = args.usize("cache", 8);
    let mut t = Trace::create(&args.str("out", ""));
    for run in 0..runs {
        let mut rng = Rng::new(seed0.wrapping_mul(5_000_011).wrapping_add(run as u64));
        let mut dev = QDev::new(Medium::Ethernet, 1514);
        // every eighth run: a device that verifies IPv4 header checksums on receive and computes them itself on transmit
        // (the stack leaves the field to it) -- what the sockets hand over must leave all the same
        let offload = run % 8 == 3;
        if offload {
            dev.csum.ipv4 = smoltcp::phy::Checksum::Rx;
            dev.hw_ipv4 = true;
        }
        // another eighth: a device that verifies ICMPv6 / UDP checksums on receive itself and leaves computing them on
        // transmit to the stack (Checksum::Tx): everything the interface emits still has to verify
        if run % 8 == 7 {
            dev.csum.icmpv6 = smoltcp::phy::Checksum::Tx;
            dev.csum.udp = smoltcp::phy::Checksum::Tx;
            dev.csum.icmpv4 = smoltcp::phy::Checksum::Tx;
        }
        let mut c = Config::new(HardwareAddress::Ethernet(EthernetAddress(MY_MAC)));
        c.random_seed = rng.next();
        let mut iface = Interface::new(c, &mut dev, Instant::from_millis(0));
        // address family of the run: the same world over IPv4 / ARP or IPv6 / neighbour discovery
        let v6 = rng.chance(50);
        // the interface is dual-stack in every run; the run's family is the one the sockets talk
        iface.update_ip_addrs(|a| {
            a.push(IpCidr::new(IpAddress::v4(10, 0, 0, 1), 24)).unwrap();
            a.push(IpCidr::new(ip_of(MY_IP, true), 64)).unwrap();
        });
        let p2p = !v6 && rng.chance(40);
        if p2p {
            // (the address table holds two entries: the point-to-point address takes the place of the IPv6 one, and
            //  the raw socket of the other family stays silent in these runs)
            iface.update_ip_addrs(|a| {
                a.pop();
                a.push(IpCidr::new(IpAddress::v4(P2P_ME[0], P2P_ME[1], P2P_ME[2], P2P_ME[3]), 31)).unwrap();
            });
        }
        if v6 {
            iface.routes_mut().add_default_ipv6_route(Ipv6Address::from_octets(a6(GW))).unwrap();
        } else {
            iface.routes_mut().add_default_ipv4_route(Ipv4Address::new(10, 0, 0, 254)).unwrap();
        }
        let icmp_udp = rng.chance(35);
        let mut sockets = SocketSet::new(vec![]);
        let mut socks = vec![];
        let mut scfg = vec![];
        for k in 0..2usize {
            let (rxm, txm) = (rng.range(1, 4) as usize, rng.range(1, 4) as usize);
            let (rxp, txp) = (*rng.pick(&[24usize, 64, 200, 600]), *rng.pick(&[24usize, 64, 200, 600, 2048]));
            let mut s = udp::Socket::new(
                udp::PacketBuffer::new(vec![udp::PacketMetadata::EMPTY; rxm], vec![0u8; rxp]),
                udp::PacketBuffer::new(vec![udp::PacketMetadata::EMPTY; txm], vec![0u8; txp]),
            );
            // the second UDP socket is sometimes bound to our address rather than to the port alone
            let baddr = k == 1 && rng.chance(50);
            if baddr {
                s.bind((ip_of(MY_IP, v6), 6000 + k as u16)).unwrap();
            } else {
                s.bind(6000 + k as u16).unwrap();
            }
            let h = sockets.add(s);
            scfg.push(json!({"port": 6000 + k, "rxm": rxm, "rxp": rxp, "txm": txm, "txp": txp, "baddr": baddr}));
            socks.push(SockCfg { h, kind: 0, port: 6000 + k as u16, rxm, rxp, txm, txp });
        }
        for k in 2..4usize {
            let (rxm, txm) = (rng.range(1, 4) as usize, rng.range(1, 4) as usize);
            let (rxp, txp) = (*rng.pick(&[64usize, 200, 600]), *rng.pick(&[64usize, 200, 600]));
            let h = if k == 2 {
                let mut s = icmp::Socket::new(
                    icmp::PacketBuffer::new(vec![icmp::PacketMetadata::EMPTY; rxm], vec![0u8; rxp]),
                    icmp::PacketBuffer::new(vec![icmp::PacketMetadata::EMPTY; txm], vec![0u8; txp]),
                );
                if icmp_udp {
                    s.bind(icmp::Endpoint::Udp(smoltcp::wire::IpListenEndpoint::from(6000u16))).unwrap();
                } else {
                    s.bind(icmp::Endpoint::Ident(IDENT)).unwrap();
                }
                sockets.add(s)
            } else {
                sockets.add(raw::Socket::new(
                    Some(if v6 { IpVersion::Ipv6 } else { IpVersion::Ipv4 }),
                    Some(IpProtocol::Unknown(RAW_PROTO)),
                    raw::PacketBuffer::new(vec![raw::PacketMetadata::EMPTY; rxm], vec![0u8; rxp]),
                    raw::PacketBuffer::new(vec![raw::PacketMetadata::EMPTY; txm], vec![0u8; txp]),
                ))
            };
            scfg.push(json!({"port": 6000 + k, "rxm": rxm, "rxp": rxp, "txm": txm, "txp": txp}));
            socks.push(SockCfg { h, kind: (k - 1) as u8, port: 6000 + k as u16, rxm, rxp, txm, txp });
        }
        {
            // a receive-only raw socket for the same protocol in the OTHER address family: each raw socket must only
            // be handed packets of its own IP version
            let (rxm, rxp) = (rng.range(1, 4) as usize, *rng.pick(&[200usize, 600]));
            let h = sockets.add(raw::Socket::new(
                Some(if v6 { IpVersion::Ipv4 } else { IpVersion::Ipv6 }),
                Some(IpProtocol::Unknown(RAW_PROTO)),
                raw::PacketBuffer::new(vec![raw::PacketMetadata::EMPTY; rxm], vec![0u8; rxp]),
                raw::PacketBuffer::new(vec![raw::PacketMetadata::EMPTY; 1], vec![0u8; 64]),
            ));
            scfg.push(json!({"port": 6004, "rxm": rxm, "rxp": rxp, "txm": 1, "txp": 64}));
            socks.push(SockCfg { h, kind: 3, port: 6004, rxm, rxp, txm: 1, txp: 64 });
        }
        let mut w = W { iface, dev, sockets, socks, now: 0, sizes: HashMap::new(), v6, icmp_udp, patch: HashMap::new(), impostor: if run % 4 == 1 { Some(2 + (run as u8 / 4) % 3) } else { None } };
        // behaviour of the virtual stations
        // (ordered map: iteration order feeds random picks, and runs must be reproducible from (seed, run))
        let mut arp_delay: std::collections::BTreeMap<u8, i64> = std::collections::BTreeMap::new(); // last octet -> delay in ms (-1: never answers)
        let nhosts = rng.range(2, (cache as u64 + 3).min(12)) as u8;
        // hosts that never answer appear in a minority of runs: an unanswered target monopolises the single global
        // discovery slot (known finding C09-discovery-starvation) and would hide everything else in the run
        let dead_ok = rng.chance(25);
        for h in 2..(2 + nhosts) {
            let d = *rng.pick(&[1i64, 5, 30, 30, 400, 2500, -1]);
            arp_delay.insert(h, if d < 0 && !dead_ok { 30 } else { d });
        }
        arp_delay.insert(254, *rng.pick(&[1i64, 20, 1500]));
        let extra_route = rng.chance(50);
        let route_exp: i64 = if rng.chance(50) { rng.range(2000, 40000) as i64 } else { -1 };
        if extra_route {
            // 192.168.7.0/24 via on-link host 10.0.0.3 (possibly expiring)
            w.iface.routes_mut().update(|r| {
                let _ = r.push(Route {
                    cidr: if v6 { IpCidr::Ipv6(Ipv6Cidr::new(Ipv6Address::from_octets(a6([192, 168, 7, 0])), 112)) } else { IpCidr::Ipv4(Ipv4Cidr::new(Ipv4Address::new(192, 168, 7, 0), 24)) },
                    via_router: ip_of([10, 0, 0, 3], v6),
                    preferred_until: None,
                    expires_at: if route_exp >= 0 { Some(Instant::from_millis(route_exp)) } else { None },
                });
            });
        }
        let routes = if extra_route {
            json!([{"p":[0,0,0,0],"plen":0,"gw":[10,0,0,254],"exp":-1},{"p":[192,168,7,0],"plen":24,"gw":[10,0,0,3],"exp":route_exp}])
        } else {
            json!([{"p":[0,0,0,0],"plen":0,"gw":[10,0,0,254],"exp":-1}])
        };
        t.ev(json!({"ev":"reset","run":run,"world":"neigh","seed":seed0,"cfg":{"cache":cache,"v6":v6,"offload":offload,"mtu":1500,"my_ip":[10,0,0,1],"p2p":if p2p { json!([P2P_ME, P2P_PEER]) } else { json!([]) },"my_mac":mac_s(&MY_MAC),"net":[10,0,0],"socks":scfg,
            "icmp_udp":icmp_udp,"routes":routes,"arp_delay":arp_delay.iter().map(|(k,v)| json!([k,v])).collect::<Vec<_>>()}}));
        let mut pending: Vec<(i64, Vec<u8>)> = vec![]; // frames to deliver to the interface at a given time
        let mut next_did = 1u32;
        let total_dg = rng.range(3, 25) as u32;
        let mut last_send = 0i64;
        let mut steps = 0;
        let horizon = 75_000i64;
        loop {
            steps += 1;
            if steps > 4000 {
                t.ev(json!({"ev":"end","now":w.now,"how":"steplimit"}));
                break;
            }
            // time advance: small steps, sometimes jumps across the 1 s / 60 s boundaries
            let dt = match rng.below(20) {
                0 => rng.range(990, 1010) as i64,
                1 => rng.range(59_900, 60_100) as i64,
                2 => rng.range(2000, 5000) as i64,
                _ => rng.range(0, 60) as i64,
            };
            let mut tn = w.now + dt;
            // never jump over a pending delivery or the interface's own deadline
            pending.sort_by_key(|x| x.0);
            if let Some(p) = pending.first() {
                tn = tn.min(p.0.max(w.now));
            }
            let pa = w.iface.poll_at(Instant::from_millis(w.now), &w.sockets).map(crate::util::ms_ceil).unwrap_or(-1);
            if pa >= 0 {
                tn = tn.min(pa.max(w.now));
            }
            w.now = tn;
            // now and then the application touches the address list (the neighbour cache is flushed: every next hop has to be
            // resolved again, and the rate limit on discovery requests keeps counting), or closes a UDP socket with whatever
            // is queued in it and binds it again (what was queued is gone and must not resurface)
            if rng.chance(2) {
                w.iface.update_ip_addrs(|_| {});
                t.ev(json!({"ev":"api","now":w.now,"call":"addrs"}));
            }
            if rng.chance(2) {
                let k = rng.below(2) as usize;
                let h = w.socks[k].h;
                let baddr = scfg[k]["baddr"].as_bool().unwrap_or(false);
                let s = w.sockets.get_mut::<udp::Socket>(h);
                s.close();
                if baddr {
                    s.bind((ip_of(MY_IP, v6), 6000 + k as u16)).unwrap();
                } else {
                    s.bind(6000 + k as u16).unwrap();
                }
                t.ev(json!({"ev":"api","now":w.now,"call":"close","sock":k}));
            }
            // application sends
            if next_did <= total_dg && rng.chance(35) {
                let k = rng.below(4) as usize;
                let hdr = if v6 { 40 } else { 20 };
                // `size` is what the socket counts: UDP payload, ICMP message, whole IP packet
                let over = match w.socks[k].kind {
                    0 => 0,
                    1 => 8,
                    _ => hdr,
                };
                let size = rng.range(4 + over as u64, (w.socks[k].txp as u64 + 8).min(1400).max(5 + over as u64)) as usize;
                // IPv6 cannot be fragmented by the sender's stack: datagrams whose IP length lies within a few octets of
                // the IP MTU (1500; the Ethernet frame may be 14 octets longer) either fit or are dropped, never sent longer
                let size = if v6 && w.socks[k].kind == 0 && w.socks[k].txp >= 1600 && rng.chance(40) { rng.range(1495 - 48, 1520 - 48) as usize } else { size };
                let last = *rng.pick(&arp_delay.keys().cloned().collect::<Vec<u8>>());
                let dst: [u8; 4] = match rng.below(10) {
                    0 | 1 => [192, 168, 7, rng.range(1, 200) as u8],
                    2 => [172, 16, 3, 9],
                    3 | 4 if p2p => P2P_PEER,
                    _ => [10, 0, 0, last],
                };
                let did = next_did;
                w.sizes.insert(did, size);
                let mut data = dgram_payload(did, size - over);
                // now and then a UDP datagram whose checksum computes to zero: the field must then carry 0xffff
                if w.socks[k].kind == 0 && data.len() >= 6 && data.len() % 2 == 0 && rng.chance(12) {
                    let n = data.len();
                    data[n - 2] = 0;
                    data[n - 1] = 0;
                    let dg = udp_datagram(6000 + k as u16, 9000 + k as u16, &data);
                    let mut hdr0 = dg.clone();
                    hdr0[6] = 0;
                    hdr0[7] = 0;
                    let ps = if v6 {
                        pseudo6(&a6(MY_IP), &a6(dst), 17, hdr0.len())
                    } else {
                        let me = if p2p && dst == P2P_PEER { P2P_ME } else { MY_IP };
                        pseudo4(&me, &dst, 17, hdr0.len())
                    };
                    // the one's complement sum without the free word is s: the word !s makes the total 0xffff, the checksum 0
                    let s0 = !csum_fold(csum_add(ps, &hdr0));
                    let wd = (!s0).to_be_bytes();
                    data[n - 2] = wd[0];
                    data[n - 1] = wd[1];
                    w.patch.insert(did, wd);
                }
                let h = w.socks[k].h;
                let (err, dport) = match w.socks[k].kind {
                    0 => {
                        // (a quarter of the datagrams through `send_with`, reserving more room than the closure then fills)
                        let r = if did % 4 == 3 {
                            let slack = 1 + (did as usize % 7);
                            w.sockets.get_mut::<udp::Socket>(h).send_with(data.len() + slack, IpEndpoint::new(ip_of(dst, v6), 9000 + k as u16), |buf| {
                                buf[..data.len()].copy_from_slice(&data);
                                data.len()
                            }).map(|_| ())
                        } else {
                            w.sockets.get_mut::<udp::Socket>(h).send_slice(&data, IpEndpoint::new(ip_of(dst, v6), 9000 + k as u16))
                        };
                        (match r {
                            Ok(()) => "none",
                            Err(udp::SendError::BufferFull) => "full",
                            Err(udp::SendError::Unaddressable) => "unaddressable",
                        }, 9000 + k as u16)
                    }
                    1 => {
                        // echo request: type, code, checksum (left to the stack), identifier, sequence number = low half of the id
                        let mut m = vec![if v6 { 128 } else { 8 }, 0, 0, 0];
                        m.extend_from_slice(&IDENT.to_be_bytes());
                        m.extend_from_slice(&(did as u16).to_be_bytes());
                        m.extend_from_slice(&data);
                        if !v6 {
                            let c = csum(&m);
                            m[2..4].copy_from_slice(&c.to_be_bytes());
                        } else {
                            let c = csum_fold(csum_add(pseudo6(&a6(MY_IP), &a6(dst), 58, m.len()), &m));
                            m[2..4].copy_from_slice(&c.to_be_bytes());
                        }
                        let r = w.sockets.get_mut::<icmp::Socket>(h).send_slice(&m, ip_of(dst, v6));
                        (match r {
                            Ok(()) => "none",
                            Err(icmp::SendError::BufferFull) => "full",
                            Err(icmp::SendError::Unaddressable) => "unaddressable",
                        }, 0)
                    }
                    _ => {
                        let pkt = if v6 { ipv6_packet(a6(MY_IP), a6(dst), RAW_PROTO, 64, &data, false) } else { ipv4_packet(MY_IP, dst, RAW_PROTO, did as u16, 64, &data, false) };
                        let r = w.sockets.get_mut::<raw::Socket>(h).send_slice(&pkt);
                        (match r {
                            Ok(()) => "none",
                            Err(raw::SendError::BufferFull) => "full",
                        }, 0)
                    }
                };
                let iplen = match w.socks[k].kind {
                    0 => hdr + 8 + size,
                    1 => hdr + size,
                    _ => size,
                };
                t.ev(json!({"ev":"api","now":w.now,"call":"send","sock":k,"did":did,"size":size,"iplen":iplen,"dst":ipj(&dst),"dport":dport,"err":err}));
                next_did += 1;
                last_send = w.now;
            }
            // frames due for delivery (ARP replies, unsolicited traffic, inbound datagrams)
            let mut due: Vec<Vec<u8>> = vec![];
            while !pending.is_empty() && pending[0].0 <= w.now {
                due.push(pending.remove(0).1);
            }
            // unsolicited / hostile traffic now and then
            if rng.chance(8) {
                let h = rng.range(2, 12) as u8;
                let disc = |sha: [u8; 6], spa: [u8; 4], op: u16, dm: [u8; 6]| if v6 { nd_msg(sha, spa, op, dm) } else { arp_reply(sha, spa, op, dm) };
                let f = match rng.below(5) {
                    0 => disc(mac_of([10, 0, 0, h]), [10, 0, 0, h], 2, MY_MAC),                 // gratuitous but well-formed reply
                    1 if v6 && steps % 2 == 0 => nd_adv_routed([2, 0, 0, 0, 0xee, h], [10, 0, 0, h], *rng.pick(&[64u8, 254, 61, 1])), // spoofed from off-link
                    1 => disc([2, 0, 0, 0, 9, 9], [192, 168, 1, 77], 2, MY_MAC),                   // spoofed: off-link sender
                    2 => disc([0xff; 6], [10, 0, 0, h], 2, MY_MAC),                                 // non-unicast hardware address
                    3 => disc(mac_of([10, 0, 0, h]), [10, 0, 0, h], 1, [0xff; 6]),                  // request for our address
                    _ => {
                        // inbound datagram for one of the sockets (or a closed port / foreign identifier)
                        let did = 100_000 + steps as u32;
                        let size = rng.range(4, 300) as usize;
                        let port = *rng.pick(&[6000u16, 6001, 6001, 6009, 6002, 6003, 6012, 6004]);
                        let port = if p2p && port == 6004 { 6003 } else { port };
                        let port = if w.icmp_udp && port == 6002 { 6022 } else { port };
                        inbound_to(&mut w, v6, h, did, size, port, steps as u16, *rng.pick(&[0u8, 0, 0, 1, 2]))
                    }
                };
                due.push(f);
            }
            // bursts of inbound datagrams sized to make the receive rings wrap (padding records) and overflow
            if rng.chance(12) {
                for b in 0..rng.range(1, 4) {
                    let h = rng.range(2, 12) as u8;
                    let k = rng.below(if p2p { 4 } else { 5 }) as usize;
                    let did = 200_000 + steps as u32 * 8 + b as u32;
                    let size = rng.range(4, (w.socks[k].rxp as u64 * 2 / 3).max(5)) as usize;
                    let dk = *rng.pick(&[0u8, 0, 0, 1, 2]);
                    let port = if w.icmp_udp && k == 2 { 6022 } else { 6000 + k as u16 };
                    due.push(inbound_to(&mut w, v6, h, did, size, port, steps as u16, dk));
                }
            }
            let budget = if rng.chance(25) { Some(rng.range(0, 2) as usize) } else { None };
            let Some(out) = w.poll(due, budget, &mut t) else { break };
            // the virtual stations react
            for f in &out {
                if v6 && f.len() >= 14 + 40 + 24 && f[12] == 0x86 && f[13] == 0xdd && f[20] == 58 && f[54] == 135 {
                    let tg = &f[62..78];
                    if tg[..9] == [0xfd, 0, 0, 0, 0, 0, 0, 0, 0] && tg[9] == 10 && tg[11] == 0 && tg[13] == 0 {
                        let tpa = [10, 0, 0, tg[15]];
                        if let Some(d) = arp_delay.get(&tpa[3]) {
                            if *d >= 0 {
                                pending.push((w.now + *d, nd_msg(mac_of(tpa), tpa, 2, MY_MAC)));
                            }
                        }
                    }
                }
                if f.len() >= 42 && f[12] == 8 && f[13] == 6 && f[21] == 1 {
                    let tpa = [f[38], f[39], f[40], f[41]];
                    if tpa[0] == 10 && tpa[1] == 0 && tpa[2] == 0 {
                        if let Some(d) = arp_delay.get(&tpa[3]) {
                            if *d >= 0 {
                                pending.push((w.now + *d, arp_reply(mac_of(tpa), tpa, 2, MY_MAC)));
                            }
                        }
                    }
                    if p2p && tpa == P2P_PEER {
                        // the point-to-point peer behaves like station 3, and answers the address that asked
                        if let Some(d) = arp_delay.get(&3) {
                            if *d >= 0 {
                                let spa = [f[28], f[29], f[30], f[31]];
                                pending.push((w.now + *d, eth_frame(MY_MAC, mac_of(tpa), 0x0806, &arp_packet(2, mac_of(tpa), tpa, MY_MAC, spa))));
                            }
                        }
                    }
                }
            }
            // application receives (sometimes with a buffer that is too small)
            if rng.chance(30) {
                for k in 0..5 {
                    let cap = *rng.pick(&[8usize, 64, 2048, 2048]);
                    let peek = rng.chance(50);
                    app_recv(&mut w, k, cap, peek, v6, &mut t);
                }
            }
            if next_did > total_dg && w.now > last_send + horizon && pending.is_empty() {
                // final drain of the receive queues
                for k in 0..5 {
                    while app_recv(&mut w, k, 2048, false, v6, &mut t) {}
                }
                t.ev(json!({"ev":"end","now":w.now,"how":"quiescent","drained":true}));
                break;
            }
        }
    }
    println!("{}", json!({"runs": runs, "events": t.finish()}));
}

/// a datagram from station `h` for the socket with (virtual) port `port`: 6000 / 6001 UDP, 6002 echo reply with our
/// identifier, 6003 raw protocol; other ports: closed UDP port (6009) or an echo reply with a foreign identifier
fn inbound(w: &mut W, v6: bool, h: u8, did: u32, size: usize, port: u16, ident: u16) -> Vec<u8> {
    inbound_to(w, v6, h, did, size, port, ident, 0)
}

/// `dk` chooses the destination of a UDP datagram: 0 our address, 1 the subnet broadcast (IPv6: all-nodes multicast),
/// 2 the limited broadcast (IPv6: all-nodes multicast); sockets bound to our address accept those too, and the
/// metadata must still name the destination the datagram really had.
fn inbound_to(w: &mut W, v6: bool, h: u8, did: u32, size: usize, port: u16, ident: u16, dk: u8) -> Vec<u8> {
    let src = [10, 0, 0, h];
    let hdr = if v6 { 40 } else { 20 };
    let (proto, body, socksize) = match port {
        6002 | 6012 => {
            let pl = size.max(4);
            let mut m = vec![if v6 { 129 } else { 0 }, 0, 0, 0];
            m.extend_from_slice(&(if port == 6002 { IDENT } else if did % 2 == 0 { IDENT + 1 } else { 0x1111 }).to_be_bytes());
            m.extend_from_slice(&(did as u16).to_be_bytes());
            m.extend_from_slice(&dgram_payload(did, pl));
            if !v6 {
                let c = csum(&m);
                m[2..4].copy_from_slice(&c.to_be_bytes());
            }
            let l = m.len();
            (if v6 { 58 } else { 1 }, m, l)
        }
        6022 => {
            // an ICMP error quoting a UDP datagram of ours: from its destination (port unreachable), from the router about
            // an off-link destination (time exceeded), or about a datagram from another source port (not for the socket)
            let pl = size.max(4);
            let (qdst, esrc, sport): ([u8; 4], [u8; 4], u16) = match did % 3 {
                0 => (src, src, 6000),
                1 => ([172, 16, 3, 9], GW, 6000),
                _ => (src, src, 6001),
            };
            let quoted = if v6 {
                ipv6_packet(a6(MY_IP), a6(qdst), 17, 63, &udp_datagram(sport, 9000, &dgram_payload(did, pl)), true)
            } else {
                ipv4_packet(MY_IP, qdst, 17, ident, 63, &udp_datagram(sport, 9000, &dgram_payload(did, pl)), true)
            };
            let (ty, code) = match (v6, did % 3 == 1) {
                (false, false) => (3u8, 3u8),
                (false, true) => (11, 0),
                (true, false) => (1, 4),
                (true, true) => (3, 0),
            };
            let mut m = vec![ty, code, 0, 0, 0, 0, 0, 0];
            m.extend_from_slice(&quoted);
            if !v6 {
                let c = csum(&m);
                m[2..4].copy_from_slice(&c.to_be_bytes());
            }
            let l = m.len();
            w.sizes.insert(did, l);
            return if v6 {
                eth_frame(MY_MAC, mac_of(esrc), 0x86dd, &ipv6_packet(a6(esrc), a6(MY_IP), 58, 64, &m, true))
            } else {
                eth_frame(MY_MAC, mac_of(esrc), 0x0800, &ipv4_packet(esrc, MY_IP, 1, ident, 64, &m, true))
            };
        }
        6003 | 6004 => (RAW_PROTO, dgram_payload(did, size.max(4)), (if (port == 6004) != v6 { 40 } else { 20 }) + size.max(4)),
        _ => (17, udp_datagram(5000 + h as u16, port, &dgram_payload(did, size)), size),
    };
    let v6 = if port == 6004 { !v6 } else { v6 };
    // IPv6: every fourth UDP / raw datagram carries a hop-by-hop options header (padding only) in front of its payload;
    // a raw socket is handed the packet as it arrived, that header included
    let hbh = v6 && did % 4 == 3 && (proto == 17 || proto == RAW_PROTO);
    let socksize = if hbh && proto == RAW_PROTO { socksize + 8 } else { socksize };
    w.sizes.insert(did, socksize);
    let dk = if proto == 17 { dk } else { 0 };
    if v6 && hbh {
        let mut all_nodes = [0u8; 16];
        all_nodes[0] = 0xff;
        all_nodes[1] = 0x02;
        all_nodes[15] = 1;
        let (dm, da) = if dk == 0 { (MY_MAC, a6(MY_IP)) } else { ([0x33, 0x33, 0, 0, 0, 1], all_nodes) };
        let inner = ipv6_packet(a6(src), da, proto, 64, &body, true);
        let mut p = inner[..40].to_vec();
        let plen = (inner.len() - 40 + 8) as u16;
        p[4..6].copy_from_slice(&plen.to_be_bytes());
        p[6] = 0;
        p.extend_from_slice(&[proto, 0, 1, 4, 0, 0, 0, 0]);
        p.extend_from_slice(&inner[40..]);
        return eth_frame(dm, w.src_mac(src), 0x86dd, &p);
    }
    if v6 {
        let mut all_nodes = [0u8; 16];
        all_nodes[0] = 0xff;
        all_nodes[1] = 0x02;
        all_nodes[15] = 1;
        let (dm, da) = if dk == 0 { (MY_MAC, a6(MY_IP)) } else { ([0x33, 0x33, 0, 0, 0, 1], all_nodes) };
        eth_frame(dm, w.src_mac(src), 0x86dd, &ipv6_packet(a6(src), da, proto, 64, &body, true))
    } else {
        let (dm, da) = match dk {
            0 => (MY_MAC, MY_IP),
            1 => ([0xff; 6], [10, 0, 0, 255]),
            _ => ([0xff; 6], [255, 255, 255, 255]),
        };
        eth_frame(dm, w.src_mac(src), 0x0800, &ipv4_packet(src, da, proto, ident, 64, &body, true))
    }
}

/// one receive call on socket k (optionally preceded by a peek on UDP); returns false when the queue was empty
fn app_recv(w: &mut W, k: usize, cap: usize, peek: bool, v6: bool, t: &mut Trace) -> bool {
    let h = w.socks[k].h;
    let kind = w.socks[k].kind;
    let v6 = if kind == 3 { !v6 } else { v6 };
    let hdr = match kind {
        0 => 0,
        1 => 8,
        _ => if v6 { 40 } else { 20 },
    };
    let now = w.now;
    let ident = |data: &[u8]| -> (i64, i64) {
        // an ICMP error: the datagram id sits in the quoted UDP payload
        let is_err = kind == 1 && !data.is_empty() && (if v6 { data[0] == 1 || data[0] == 3 } else { data[0] == 3 || data[0] == 11 });
        let hdr = if is_err { 8 + (if v6 { 40 } else { 20 }) + 8 } else { hdr };
        // a raw IPv6 packet with a hop-by-hop header: the payload starts behind it
        let hdr = if kind >= 2 && v6 && data.len() >= 48 && data[6] == 0 { 40 + 8 * (1 + data[41] as usize) } else { hdr };
        // (datagram id, position of the first octet that differs from what the sender wrote)
        if data.len() < hdr + 4 {
            return (u32::MAX as i64, 0);
        }
        let pl = &data[hdr..];
        let did = u32::from_be_bytes([pl[0], pl[1], pl[2], pl[3]]);
        let exp = dgram_payload(did, pl.len());
        (did as i64, pl.iter().zip(exp.iter()).position(|(a, b)| a != b).map(|x| x as i64).unwrap_or(-1))
    };
    if kind == 0 {
        let s = w.sockets.get_mut::<udp::Socket>(h);
        if !s.can_recv() {
            return false;
        }
        // look before taking: peek must show exactly what recv will hand out next
        if peek {
            if let Ok((data, meta)) = s.peek() {
                let (did, diff) = ident(data);
                let ev = json!({"ev":"api","now":now,"call":"peek","sock":k,"err":"none","did":did,"size":data.len(),"diff":diff,"sport":meta.endpoint.port});
                t.ev(ev);
            }
        }
    }
    let mut buf = vec![0xEEu8; cap];
    // (length, source port, source address, local address) or the error
    let r: std::result::Result<(usize, u16, String, Option<String>), &'static str> = match kind {
        0 => match w.sockets.get_mut::<udp::Socket>(h).recv_slice(&mut buf) {
            Ok((n, meta)) => Ok((n, meta.endpoint.port, meta.endpoint.addr.to_string(), meta.local_address.map(|a| a.to_string()))),
            Err(udp::RecvError::Truncated) => Err("truncated"),
            Err(udp::RecvError::Exhausted) => Err("exhausted"),
        },
        1 => match w.sockets.get_mut::<icmp::Socket>(h).recv_slice(&mut buf) {
            Ok((n, addr)) => Ok((n, 0, addr.to_string(), None)),
            Err(icmp::RecvError::Truncated) => Err("truncated"),
            Err(icmp::RecvError::Exhausted) => Err("exhausted"),
        },
        _ => match w.sockets.get_mut::<raw::Socket>(h).recv_slice(&mut buf) {
            Ok(n) => Ok((n, 0, String::new(), None)),
            Err(raw::RecvError::Truncated) => Err("truncated"),
            Err(raw::RecvError::Exhausted) => Err("exhausted"),
        },
    };
    match r {
        Ok((n, sport, src, local)) => {
            let (did, diff) = ident(&buf[..n]);
            // the source address as the abstract tuple, from the socket's metadata (UDP, ICMP) or the packet itself (raw)
            let srct: Value = if kind >= 2 {
                if v6 && n >= 40 { ipj(&buf[8..24]) } else if !v6 && n >= 20 { ipj(&buf[12..16]) } else { json!([]) }
            } else {
                match src.parse::<std::net::IpAddr>() {
                    Ok(std::net::IpAddr::V4(a)) => ipj(&a.octets()),
                    Ok(std::net::IpAddr::V6(a)) => ipj(&a.octets()),
                    Err(_) => json!([]),
                }
            };
            t.ev(json!({"ev":"api","now":now,"call":"recv","sock":k,"cap":cap,"err":"none","did":did,"size":n,"diff":diff,"osize":w.sizes.get(&(did as u32)).cloned().map(|x| x as i64).unwrap_or(-1),
                        "src":src,"srct":srct,"sport":sport,"local":local.clone().unwrap_or_default(),
                        "localt": match local.as_deref().map(|x| x.parse::<std::net::IpAddr>()) {
                            Some(Ok(std::net::IpAddr::V4(a))) => ipj(&a.octets()),
                            Some(Ok(std::net::IpAddr::V6(a))) => ipj(&a.octets()),
                            _ => json!([]),
                        }}));
            true
        }
        Err("truncated") => {
            let touched = buf.iter().any(|b| *b != 0xEE);
            t.ev(json!({"ev":"api","now":now,"call":"recv","sock":k,"cap":cap,"err":"truncated","did":-1,"size":0,"diff":-1,"touched":touched}));
            true
        }
        Err(_) => false,
    }
}
