//! TCP worlds.
//!  * `tcp-pair`: two real smoltcp interfaces (Medium::Ip) joined by an adversarial link
//!    (deliver / drop / duplicate / delay-by-d / bit-flip per frame), seeded application behaviour,
//!    optional poll_at-driven scheduling (an endpoint is polled only when a frame arrives for it, after an
//!    API call, or when the clock reaches the instant its last poll_at returned).
//!  * `tcp-peer`: one real socket against a scripted peer (TLC schedule or seeded hostile peer).
//! Every step logs the stimulus, every frame emitted (independently parsed, sequence numbers relative to the
//! ISNs seen in the SYNs) and the socket's observable state afterwards.
use crate::dev::QDev;
use crate::frames::*;
use crate::util::*;
use serde_json::{json, Value};
use smoltcp::iface::{Config, Interface, SocketHandle, SocketSet};
use smoltcp::phy::Medium;
use smoltcp::socket::tcp;
use smoltcp::time::{Duration, Instant};
use smoltcp::wire::{HardwareAddress, IpAddress, IpCidr, Ipv6Address};

pub const ADDR: [[u8; 4]; 2] = [[10, 0, 0, 1], [10, 0, 0, 2]];
pub const ADDR6: [[u8; 16]; 2] = [[0xfd, 0, 0, 0, 0, 0, 0, 0, 0, 0, 0, 0, 0, 0, 0, 1], [0xfd, 0, 0, 0, 0, 0, 0, 0, 0, 0, 0, 0, 0, 0, 0, 2]];
pub fn ep_addr(idx: usize, v6: bool) -> IpAddress {
    if v6 {
        IpAddress::Ipv6(Ipv6Address::from_octets(ADDR6[idx]))
    } else {
        IpAddress::v4(ADDR[idx][0], ADDR[idx][1], ADDR[idx][2], ADDR[idx][3])
    }
}
pub const PORT: [u16; 2] = [40001, 80];

pub fn content(stream: usize, k: i64) -> u8 {
    ((k * 131 + 7 + 17 * stream as i64).rem_euclid(256)) as u8
}

fn ts_gen() -> u32 {
    0x1234_5678
}

#[derive(Clone, Debug)]
pub struct EpCfg {
    pub rx: usize,
    pub tx: usize,
    pub mtu: usize,
    pub cc: u8, // 0 none, 1 reno, 2 cubic
    pub ack_delay: Option<u64>,
    pub nagle: bool,
    pub ts: bool,
    pub keep_alive: Option<u64>,
    pub timeout: Option<u64>,
    pub seed: u64,
    pub v6: bool,
    /// other sockets sharing the SocketSet: 0 none, 1 a closed TCP socket before, 2 an idle bound UDP socket after, 3 both plus a spare listener
    pub spare: u8,
    /// DeviceCapabilities::max_burst_size of the endpoint's device (the interface clamps the advertised window to it)
    pub burst: Option<usize>,
    /// the device verifies / computes no UDP checksums (DeviceCapabilities.checksum.udp = None); TCP's stay with the stack
    pub udp_csum_off: bool,
}

pub struct Ep {
    pub idx: usize,
    pub iface: Interface,
    pub dev: QDev,
    pub sockets: SocketSet<'static>,
    pub h: SocketHandle,
    pub cfg: EpCfg,
    pub written: i64,
    pub read: i64,
    pub closed_at: Option<i64>,
    /// device tokens for the next poll only (None: plenty; running out of plenty is a hang)
    pub limit: Option<usize>,
}

pub fn state_name(s: tcp::State) -> &'static str {
    match s {
        tcp::State::Closed => "CLOSED",
        tcp::State::Listen => "LISTEN",
        tcp::State::SynSent => "SYN-SENT",
        tcp::State::SynReceived => "SYN-RECEIVED",
        tcp::State::Established => "ESTABLISHED",
        tcp::State::FinWait1 => "FIN-WAIT-1",
        tcp::State::FinWait2 => "FIN-WAIT-2",
        tcp::State::CloseWait => "CLOSE-WAIT",
        tcp::State::Closing => "CLOSING",
        tcp::State::LastAck => "LAST-ACK",
        tcp::State::TimeWait => "TIME-WAIT",
    }
}

impl Ep {
    pub fn new(idx: usize, cfg: EpCfg, now: Instant) -> Ep {
        let mut dev = QDev::new(Medium::Ip, cfg.mtu);
        dev.burst = cfg.burst;
        if cfg.udp_csum_off {
            dev.csum.udp = smoltcp::phy::Checksum::None;
        }
        let mut c = Config::new(HardwareAddress::Ip);
        c.random_seed = cfg.seed;
        let mut iface = Interface::new(c, &mut dev, now);
        iface.update_ip_addrs(|a| {
            a.push(IpCidr::new(ep_addr(idx, cfg.v6), if cfg.v6 { 64 } else { 24 })).unwrap();
        });
        let mut s = tcp::Socket::new(tcp::SocketBuffer::new(vec![0u8; cfg.rx]), tcp::SocketBuffer::new(vec![0u8; cfg.tx]));
        s.set_ack_delay(cfg.ack_delay.map(Duration::from_millis));
        s.set_nagle_enabled(cfg.nagle);
        s.set_keep_alive(cfg.keep_alive.map(Duration::from_millis));
        s.set_timeout(cfg.timeout.map(Duration::from_millis));
        match cfg.cc {
            1 => s.set_congestion_control(tcp::CongestionControl::Reno),
            2 => s.set_congestion_control(tcp::CongestionControl::Cubic),
            _ => s.set_congestion_control(tcp::CongestionControl::None),
        }
        if cfg.ts {
            s.set_tsval_generator(Some(ts_gen));
        }
        let mut sockets = SocketSet::new(vec![]);
        // neighbours in the socket set that have no deadline of their own (and never match the connection's ports)
        if cfg.spare == 1 || cfg.spare == 3 {
            sockets.add(tcp::Socket::new(tcp::SocketBuffer::new(vec![0u8; 64]), tcp::SocketBuffer::new(vec![0u8; 64])));
        }
        let h = sockets.add(s);
        if cfg.spare >= 2 {
            let mut u = smoltcp::socket::udp::Socket::new(
                smoltcp::socket::udp::PacketBuffer::new(vec![smoltcp::socket::udp::PacketMetadata::EMPTY; 2], vec![0u8; 128]),
                smoltcp::socket::udp::PacketBuffer::new(vec![smoltcp::socket::udp::PacketMetadata::EMPTY; 2], vec![0u8; 128]),
            );
            u.bind(9).unwrap();
            sockets.add(u);
        }
        if cfg.spare == 3 {
            let mut l = tcp::Socket::new(tcp::SocketBuffer::new(vec![0u8; 64]), tcp::SocketBuffer::new(vec![0u8; 64]));
            l.listen(9).unwrap();
            sockets.add(l);
        }
        Ep { idx, iface, dev, sockets, h, cfg, written: 0, read: 0, closed_at: None, limit: None }
    }
    pub fn sock(&mut self) -> &mut tcp::Socket<'static> {
        self.sockets.get_mut::<tcp::Socket>(self.h)
    }
    pub fn state(&mut self) -> &'static str {
        state_name(self.sock().state())
    }
    pub fn poll_at(&mut self, now: i64) -> i64 {
        match self.iface.poll_at(Instant::from_millis(now), &self.sockets) {
            Some(t) => crate::util::ms_ceil(t),
            None => -1,
        }
    }
    pub fn post(&mut self, now: i64) -> Value {
        let pa = self.poll_at(now);
        let s = self.sock();
        json!({"st": state_name(s.state()), "sq": s.send_queue(), "rq": s.recv_queue(), "cs": s.can_send(), "mr": s.may_recv(), "ms": s.may_send(), "pa": pa})
    }
    /// One Interface::poll with the given frames queued; returns emitted frames; Err on panic / hang.
    pub fn poll(&mut self, now: i64, frames: Vec<Vec<u8>>) -> Result<Vec<Vec<u8>>, String> {
        for f in frames {
            self.dev.rx.push_back(f);
        }
        let lim = self.limit.take();
        self.dev.tx_budget = Some(lim.unwrap_or(5000));
        let r = guarded(|| {
            self.iface.poll(Instant::from_millis(now), &mut self.dev, &mut self.sockets);
        });
        let hang = lim.is_none() && self.dev.tx_budget == Some(0);
        self.dev.tx_budget = None;
        let out = self.dev.take_tx();
        match r {
            Err(m) => Err(format!("panic: {m}")),
            Ok(()) if hang => {
                let mut num = Numbering::default();
                let first: Vec<String> = out.iter().take(4).map(|o| num.proj_frame(self.idx, o).to_string()).collect();
                Err(format!("hang: poll exhausted a 5000-frame budget; first frames (absolute numbers): {}", first.join(" ")))
            }
            Ok(()) => Ok(out),
        }
    }
}

/// Relative numbering of both directions, learned from the SYNs seen on the wire.
#[derive(Clone, Default)]
pub struct Numbering {
    pub iss: [Option<u32>; 2],
}

impl Numbering {
    pub fn rel(&self, who: usize, v: u32) -> i64 {
        match self.iss[who] {
            Some(b) => (v.wrapping_sub(b) as i32) as i64,
            None => (v as i32) as i64,
        }
    }
    /// Projection of a TCP segment sent by endpoint `from`.
    pub fn proj(&mut self, from: usize, ip: &IpPkt, t: &TcpSeg) -> Value {
        if t.syn && !t.rst {
            // (re)learn the sender's ISN from every SYN it emits: a new connection attempt renumbers the stream
            if self.iss[from] != Some(t.seq) {
                self.iss[from] = Some(t.seq);
            }
        }
        let norel = self.iss[from].is_none();
        let seq = self.rel(from, t.seq);
        let ack = match t.ack {
            Some(a) => self.rel(1 - from, a),
            None => -1,
        };
        let mut pd: i64 = -1;
        for (i, b) in t.payload.iter().enumerate() {
            if *b != content(from, seq - 1 + i as i64) {
                pd = i as i64;
                break;
            }
        }
        json!({"from": from, "seq": seq, "ha": t.ack.is_some(), "ack": ack, "len": t.payload.len(), "syn": t.syn, "fin": t.fin, "rst": t.rst, "psh": t.psh,
            "win": t.win, "ws": t.wscale.map(|x| x as i64).unwrap_or(-1), "mss": t.mss.map(|x| x as i64).unwrap_or(-1), "sp": t.sackp, "ts": t.ts.is_some(),
            "ol": t.hdr_len - 20, "pd": pd, "cs": t.csum_ok && ip.hdr_csum_ok, "wf": ip.wf, "iplen": ip.total_len, "norel": norel,
            "srcok": ip.src == ADDR[from].to_vec() || ip.src == ADDR6[from].to_vec(), "ackno_base": self.iss[1 - from].is_some()})
    }
    pub fn proj_frame(&mut self, from: usize, f: &[u8]) -> Value {
        match parse_ip(f) {
            Some(ip) => match &ip.l4 {
                L4::Tcp(t) => {
                    let t = t.clone();
                    self.proj(from, &ip, &t)
                }
                _ => {
                    let mut v = ip_json(&ip);
                    v["from"] = json!(from);
                    v["nontcp"] = json!(true);
                    v
                }
            },
            None => json!({"from": from, "nontcp": true, "unparsed": true, "hex": hex(&f[..f.len().min(64)])}),
        }
    }
}

// ------------------------------------------------------------------------------------------------
// pair world

struct InFlight {
    at: i64,
    to: usize,
    frame: Vec<u8>,
    id: u64,
    fate: &'static str,
}

fn pick_cfg(rng: &mut Rng, seed: u64, small: bool) -> EpCfg {
    let sizes: &[usize] = if small { &[16, 32, 64, 100, 128, 256] } else { &[64, 256, 1024, 4096, 16384, 65535, 100000, 262144] };
    EpCfg {
        rx: *rng.pick(sizes),
        tx: *rng.pick(sizes),
        mtu: *rng.pick(&[576usize, 1500, 1500, 9000, 296]),
        cc: rng.below(3) as u8,
        ack_delay: *rng.pick(&[None, None, Some(10u64), Some(10), Some(200), Some(900)]),
        nagle: rng.chance(50),
        ts: rng.chance(25),
        keep_alive: *rng.pick(&[None, None, None, Some(700u64), Some(4000)]),
        timeout: *rng.pick(&[None, None, None, Some(6000u64), Some(30000)]),
        seed,
        v6: rng.chance(40),
        spare: *rng.pick(&[0u8, 0, 1, 2, 3]),
        // (taken from the seed, not from the generator: the other choices of a run stay what they were)
        burst: if (seed / 7) % 4 == 0 { Some(1 + (seed % 3) as usize) } else { None },
        udp_csum_off: (seed / 3) % 2 == 0,
    }
}

/// Inverts smoltcp's 64-bit LCG so that the k-th rand_u32() after Interface::new equals `want`.
/// (No hook: the harness only chooses Config::random_seed; the SYN on the wire confirms the result.)
pub fn seed_for_isn(want: u32, k: u32, t: u64) -> u64 {
    const M: u64 = 0xbb2efcec3c39611d;
    const A: u64 = 0x7590ef39;
    // modular inverse of M mod 2^64 (Newton iteration)
    let mut inv: u64 = M;
    for _ in 0..6 {
        inv = inv.wrapping_mul(2u64.wrapping_sub(M.wrapping_mul(inv)));
    }
    let shift = 29 - t;
    let mut s: u64 = (t << 61) | ((want as u64) << shift) | 0x155;
    for _ in 0..k {
        s = s.wrapping_sub(A).wrapping_mul(inv);
    }
    s
}

pub fn isn_seed(rng: &mut Rng, class: u64) -> (u64, i64) {
    // class 0: random seed; 1: ISN just below 2^31; 2: just below 2^32; 3: small
    let off = rng.range(1, 3000) as u32;
    let want = match class {
        1 => 0x8000_0000u32.wrapping_sub(off),
        2 => 0u32.wrapping_sub(off),
        3 => off,
        _ => return (rng.next(), -1),
    };
    (seed_for_isn(want, 4, rng.below(8)), want as i64)
}

pub fn pair(args: &Args) {
    let seed0 = args.u64("seed", 1);
    let runs = args.usize("runs", 10);
    let mut t = Trace::create(&args.str("out", ""));
    let pollat_mode = args.flag("pollat");
    let probe = args.flag("probe");
    let small = args.flag("small");
    let force_zwr = args.flag("zwr");
    // (C08 only: half of the endpoints sit on a device that leaves UDP checksums alone -- TCP's must be verified all the
    //  same --, and a quarter of the endpoints sit on a device with a burst limit, which makes the interface clamp the window
    //  field of what it emits. Such a socket accepts more than the window it lets out; the rules that judge segments
    //  against the advertised window (C04, C05, C17) would have to be weakened for it, so their traces do not have it.)
    let burst_mode = args.flag("burst");
    let force_ackloss = args.flag("ackloss");
    // (C01 only: the receiver of a scaled-edge run is not polled by its timers while its reader sleeps -- a busy host --,
    //  which is outside the poll discipline C02 presupposes)
    let edge_mode = args.flag("edge");
    let maxbytes = args.u64("maxbytes", 20000);
    let only = args.map.get("only").map(|x| x.parse::<usize>().unwrap());
    for run in 0..runs {
        if only.is_some() && only != Some(run) {
            continue;
        }
        let mut rng = Rng::new(seed0.wrapping_mul(1_000_003).wrapping_add(run as u64));
        let (sa, wa) = isn_seed(&mut rng, run as u64 % 4);
        let (sb, wb) = isn_seed(&mut rng, (run as u64 / 4) % 4);
        let mut ca = pick_cfg(&mut rng, sa, small);
        let mut cb = pick_cfg(&mut rng, sb, small);
        if !burst_mode {
            ca.burst = None;
            cb.burst = None;
            ca.udp_csum_off = false;
            cb.udp_csum_off = false;
        }
        cb.mtu = ca.mtu; // one link, one MTU
        cb.v6 = ca.v6; // and one address family
        // aligned runs: the receive buffer is a small multiple k of the segment size and the stream a few segments
        // longer, so that the window fills exactly and the unsent tail is a whole number of segments
        let aligned = rng.chance(30);
        let seg = (ca.mtu - if ca.v6 { 60 } else { 40 } - if ca.ts && cb.ts { 12 } else { 0 }).max(1);
        let kseg = *rng.pick(&[2usize, 3, 4, 4, 5, 5]);
        // a quarter of the aligned runs use a receive buffer just above 64 KiB with an odd size: the window is scaled, the
        // edge the receiver remembers is rounded down, and the stream (with its FIN on the last segment) ends exactly at the
        // edge the sender took from the SYN-ACK's unscaled window
        let scaled_edge = aligned && !small && edge_mode && rng.chance(60);
        if aligned {
            cb.rx = kseg * seg;
            ca.tx = ca.tx.max((kseg + 3) * seg);
            ca.nagle = false;
        }
        if scaled_edge {
            cb.rx = 65537 + 2 * rng.range(0, 3000) as usize;
            ca.tx = ca.tx.max(70000);
        }
        // half of the aligned runs have a quiet link with exactly one scripted loss (the first, the second or the last
        // segment of the first window), so that duplicate ACKs arrive in order and fast retransmit is exercised
        BULK_WRITE.with(|c| c.set(aligned));
        // blackout runs: a long total outage (far beyond any retransmission back-off) in the middle of the transfer, then a
        // reliable link: the transfer has to pick up again within the idle horizon of the world
        let blackout = !aligned && rng.chance(8);
        if blackout {
            let b0 = rng.range(50, 3000) as i64;
            let d = *rng.pick(&[100_000i64, 1_000_000, 10_000_000]);
            BLACKOUT.with(|c| c.set((b0, b0 + d)));
            ca.keep_alive = None;
            ca.timeout = None;
            cb.keep_alive = None;
            cb.timeout = None;
        } else {
            BLACKOUT.with(|c| c.set((0, 0)));
        }
        // zero-window runs: a small receive buffer whose reader sleeps for seconds and then takes everything at once; the
        // zero-window ACKs of that time are overtaken by the window update, and some of the data sent into the re-opened
        // window is lost (the stall patterns named in C02 live here)
        let zwr = !aligned && !blackout && (rng.chance(12) || force_zwr);
        if zwr {
            cb.rx = *rng.pick(&[1usize, 2, 3]) * seg;
            ca.tx = ca.tx.max(3 * cb.rx).min(65535);
        }
        // a third of the zero-window runs (not with the small buffers): a receive buffer just above 64 KiB of odd size (the
        // window is scaled by one bit and its right edge moves back by one octet whenever the room left becomes odd), a
        // stream that fills it exactly while the reader sleeps, written in pieces of any size without Nagle -- the last
        // octet may be on the wire beyond the edge the receiver goes by --, and the window update after the zero window lost
        let zwedge = zwr && !small && rng.chance(34);
        if zwedge {
            cb.rx = 65537 + 2 * rng.range(0, 3000) as usize;
            ca.tx = ca.tx.max(70000);
            ca.nagle = false;
            ca.timeout = None;
            cb.timeout = None;
        }
        // acknowledgment-loss runs: data flows both ways, for a few seconds only the bare acknowledgments are lost
        let ackloss = !aligned && !blackout && !zwr && (rng.chance(8) || force_ackloss);
        if ackloss {
            // several segments in flight each way, and a congestion controller that allows one segment per time-out
            ca.cc = 1 + rng.below(2) as u8;
            cb.cc = 1 + rng.below(2) as u8;
            for c in [&mut ca, &mut cb] {
                c.tx = c.tx.max(4 * seg).min(65535);
                c.rx = c.rx.max(4 * seg).min(65535);
                c.nagle = false;
                c.timeout = None;
            }
        }
        let scripted_loss = aligned && !scaled_edge && rng.chance(50);
        DROP_NTH_DATA.with(|c| c.set(if scripted_loss { *rng.pick(&[1i64, 1, 2, kseg as i64]) } else { 0 }));
        let mut eps = [Ep::new(0, ca.clone(), Instant::from_millis(0)), Ep::new(1, cb.clone(), Instant::from_millis(0))];
        let mut num = Numbering::default();
        // link parameters
        let drop_pct = *rng.pick(&[0u64, 0, 5, 10, 20, 30]);
        let dup_pct = *rng.pick(&[0u64, 0, 5, 10]);
        let flip_pct = *rng.pick(&[0u64, 0, 2, 5]);
        let base_delay = rng.range(1, 40) as i64;
        let jitter = *rng.pick(&[0u64, 0, 5, 50, 300]) as i64;
        let adv_until = rng.range(200, 8000) as i64; // end of the adversarial phase (ms)
        let (drop_pct, dup_pct, flip_pct, jitter) = if scripted_loss { (0, 0, 0, 0) } else { (drop_pct, dup_pct, flip_pct, jitter) };
        #[allow(unused_mut)]
        let mut total = [rng.below(maxbytes + 1) as i64, if rng.chance(50) { rng.below(maxbytes / 4 + 1) as i64 } else { 0 }];
        if aligned {
            total[0] = ((kseg + *rng.pick(&[1usize, 1, 2])) * seg) as i64;
        }
        if scaled_edge {
            total[0] = 65535;
        }
        let mut reader_stall = [if rng.chance(25) { rng.range(100, 5000) as i64 } else { 0 }, if rng.chance(35) { rng.range(100, 5000) as i64 } else { 0 }];
        if scaled_edge {
            reader_stall[1] = reader_stall[1].max(3000);
        }
        let (drop_pct, dup_pct, flip_pct, jitter, adv_until) = if zwr {
            reader_stall = [0, rng.range(1500, 6000) as i64];
            // half of the runs: what is left when the window closes for the first time fits the window that re-opens, so
            // that everything queued is in flight at once
            total = if rng.chance(50) { [cb.rx as i64 + rng.range(1, cb.rx as u64) as i64, 0] } else { [(cb.rx as i64) * rng.range(3, 8) as i64 + rng.range(0, seg as u64) as i64, 0] };
            let until = reader_stall[1] + rng.range(1000, 4000) as i64;
            if zwedge {
                total = [cb.rx as i64, 0];
                ZWR.with(|c| c.set((0, 0, 0)));
                ZWEDGE.with(|c| c.set((until, false)));
            } else {
                ZWR.with(|c| c.set((rng.range(2, 400) as i64, *rng.pick(&[0u64, 30, 50, 70]), until)));
                ZWEDGE.with(|c| c.set((0, false)));
            }
            (0, 0, 0, 0, 0)
        } else {
            ZWR.with(|c| c.set((0, 0, 0)));
            ZWEDGE.with(|c| c.set((0, false)));
            (drop_pct, dup_pct, flip_pct, jitter, adv_until)
        };
        if ackloss {
            let a0 = rng.range(20, 600) as i64;
            ACKLOSS.with(|c| c.set((a0, a0 + rng.range(1500, 9000) as i64)));
            total[0] = total[0].max(4 * seg as i64);
            total[1] = total[1].max(4 * seg as i64);
        } else {
            ACKLOSS.with(|c| c.set((0, 0)));
        }
        // a stream much longer than the smallest buffer on its way only adds steps (and would hit the step limit)
        total[0] = total[0].min(400 * (ca.tx.min(cb.rx) as i64));
        total[1] = total[1].min(400 * (cb.tx.min(ca.rx) as i64));
        t.ev(json!({"ev":"reset","run":run,"world":"tcp_pair","seed":seed0,"pollat":pollat_mode,"args":{"small":small,"probe":probe,"zwr":force_zwr,"ackloss":force_ackloss,"edge":edge_mode,"burst":burst_mode,"maxbytes":maxbytes},"zw":zwr,"al":ackloss,
            "v6":ca.v6,"cfg":[{"rx":ca.rx,"tx":ca.tx,"mtu":ca.mtu,"cc":ca.cc,"ad":ca.ack_delay.map(|x| x as i64).unwrap_or(-1),"nagle":ca.nagle,"ts":ca.ts,"isn":wa,"ka":ca.keep_alive.map(|x| x as i64).unwrap_or(-1),"tmo":ca.timeout.map(|x| x as i64).unwrap_or(-1),"spare":ca.spare,"burst":ca.burst.map(|x| x as i64).unwrap_or(-1),"udpoff":ca.udp_csum_off},
                   {"rx":cb.rx,"tx":cb.tx,"mtu":cb.mtu,"cc":cb.cc,"ad":cb.ack_delay.map(|x| x as i64).unwrap_or(-1),"nagle":cb.nagle,"ts":cb.ts,"isn":wb,"ka":cb.keep_alive.map(|x| x as i64).unwrap_or(-1),"tmo":cb.timeout.map(|x| x as i64).unwrap_or(-1),"spare":cb.spare,"burst":cb.burst.map(|x| x as i64).unwrap_or(-1),"udpoff":cb.udp_csum_off}],
            "link":{"drop":drop_pct,"dup":dup_pct,"flip":flip_pct,"delay":base_delay,"jitter":jitter,"adv_until":adv_until},"total":total}));
        // open: B listens, A connects
        let mut now: i64 = 0;
        eps[1].sock().listen(PORT[1]).unwrap();
        let p = eps[1].post(now);
        t.ev(json!({"ev":"api","ep":1,"now":now,"call":"listen","before":"CLOSED","post":p}));
        {
            let e = &mut eps[0];
            let cx = e.iface.context();
            let r = e.sockets.get_mut::<tcp::Socket>(e.h).connect(cx, (ep_addr(1, ca.v6), PORT[1]), PORT[0]);
            assert!(r.is_ok());
        }
        let p = eps[0].post(now);
        t.ev(json!({"ev":"api","ep":0,"now":now,"call":"connect","before":"CLOSED","post":p}));
        let mut flight: Vec<InFlight> = vec![];
        let mut next_id = 0u64;
        let mut last_arrival = [0i64; 2]; // keeps the reliable phase in order
        let mut app_at = [rng.range(0, 50) as i64, rng.range(0, 50) as i64];
        let mut finished = [false, false]; // saw Finished on recv
        let mut dead = [false, false];
        let mut last_activity: i64 = 0;
        let mut steps = 0u64;
        let horizon_gap: i64 = 3_600_000;
        let mut end = "horizon";
        let mut deadline = [eps[0].poll_at(now), eps[1].poll_at(now)];
        'sim: loop {
            steps += 1;
            if steps > 40_000 {
                end = "steplimit";
                break;
            }
            // the application wakes up when it has something to do
            for e in 0..2 {
                if app_at[e] < 0 && !app_idle(&mut eps, e, &total, &finished) {
                    app_at[e] = now + rng.range(1, 30) as i64;
                }
            }
            // next event time
            let mut tnext = i64::MAX;
            for f in &flight {
                tnext = tnext.min(f.at);
            }
            for e in 0..2 {
                if deadline[e] >= 0 {
                    tnext = tnext.min(deadline[e].max(now));
                }
                if app_at[e] >= 0 {
                    tnext = tnext.min(app_at[e].max(now));
                }
            }
            if tnext == i64::MAX {
                end = "quiescent";
                break;
            }
            if tnext - last_activity > horizon_gap {
                end = "horizon";
                break;
            }
            now = tnext;
            // 1. deliveries due now (one frame per poll)
            let mut progressed = false;
            if let Some(pos) = flight.iter().position(|f| f.at <= now) {
                let f = flight.remove(pos);
                let e = f.to;
                // a timer that is due now fires first, in its own poll, so that the frames logged with the
                // arriving segment are the ones caused by that segment
                if deadline[e] >= 0 && deadline[e] <= now {
                    let before = eps[e].state();
                    let dl = deadline[e];
                    if let Ok(out) = eps[e].poll(now, vec![]) {
                        let outs: Vec<Value> = out.iter().map(|o| num.proj_frame(e, o)).collect();
                        let p = eps[e].post(now);
                        t.ev(json!({"ev":"egress","ep":e,"now":now,"deadline":dl,"out":outs,"before":before,"post":p}));
                        emit_frames(&mut rng, &mut flight, &mut next_id, &mut last_arrival, out, e, now, adv_until, drop_pct, dup_pct, flip_pct, base_delay, jitter, &mut t);
                    }
                }
                let dlb = eps[e].poll_at(now);
                let before = eps[e].state();
                let segp = num.clone().proj_frame(1 - e, &f.frame);
                // scaled-edge runs: while its reader sleeps the receiver's device lets nothing out (the one token of a poll
                // goes with the received frame), so the window edge it remembers stays the one of its SYN-ACK
                eps[e].limit = if scaled_edge && e == 1 && now < reader_stall[1] && before == "ESTABLISHED" { Some(1) } else { None };
                match eps[e].poll(now, vec![f.frame.clone()]) {
                    Ok(out) => {
                        let outs: Vec<Value> = out.iter().map(|o| num.proj_frame(e, o)).collect();
                        let p = eps[e].post(now);
                        t.ev(json!({"ev":"rx","ep":e,"now":now,"seg":segp,"fid":f.id,"fate":f.fate,"out":outs,"before":before,"post":p,"dl":dlb}));
                        emit_frames(&mut rng, &mut flight, &mut next_id, &mut last_arrival, out, e, now, adv_until, drop_pct, dup_pct, flip_pct, base_delay, jitter, &mut t);
                    }
                    Err(m) => {
                        t.ev(json!({"ev":"panic","ep":e,"now":now,"msg":m,"seg":segp,"before":before}));
                        dead[e] = true;
                        end = "panic";
                        break 'sim;
                    }
                }
                deadline[e] = eps[e].poll_at(now);
                if scaled_edge && e == 1 && now < reader_stall[1] && eps[1].state() == "ESTABLISHED" {
                    // the busy host: no timer poll before its reader wakes up
                    deadline[1] = reader_stall[1];
                }
                last_activity = now;
                progressed = true;
            }
            if progressed {
                continue;
            }
            // 2. application actions due now
            for e in 0..2 {
                if app_at[e] >= 0 && app_at[e] <= now {
                    let did = app_step(&mut eps, e, now, &mut rng, &total, &mut finished, reader_stall[e], &mut t);
                    deadline[e] = eps[e].poll_at(now);
                    if did {
                        last_activity = now;
                    }
                    // schedule the next app action
                    let idle = app_idle(&mut eps, e, &total, &finished);
                    app_at[e] = if idle { -1 } else { now + rng.range(1, 60) as i64 };
                    progressed = true;
                }
            }
            // 3. timer-driven polls
            for e in 0..2 {
                let due = if pollat_mode { deadline[e] >= 0 && deadline[e] <= now } else { deadline[e] >= 0 && deadline[e] <= now };
                if due {
                    let before = eps[e].state();
                    let dl = deadline[e];
                    match eps[e].poll(now, vec![]) {
                        Ok(out) => {
                            let outs: Vec<Value> = out.iter().map(|o| num.proj_frame(e, o)).collect();
                            let p = eps[e].post(now);
                            t.ev(json!({"ev":"egress","ep":e,"now":now,"deadline":dl,"out":outs,"before":before,"post":p}));
                            if !out.is_empty() {
                                last_activity = now;
                            }
                            emit_frames(&mut rng, &mut flight, &mut next_id, &mut last_arrival, out, e, now, adv_until, drop_pct, dup_pct, flip_pct, base_delay, jitter, &mut t);
                        }
                        Err(m) => {
                            t.ev(json!({"ev":"panic","ep":e,"now":now,"msg":m}));
                            end = "panic";
                            break 'sim;
                        }
                    }
                    deadline[e] = eps[e].poll_at(now);
                    progressed = true;
                    // wake the application: data or space may have become available
                    if app_at[e] < 0 && !app_idle(&mut eps, e, &total, &finished) {
                        app_at[e] = now + 1;
                    }
                }
            }
            // after deliveries the application may have work again
            for e in 0..2 {
                if app_at[e] < 0 && !app_idle(&mut eps, e, &total, &finished) {
                    app_at[e] = now + rng.range(1, 30) as i64;
                }
            }
            // C13 probe: an extra poll strictly before the deadline, nothing queued, no API call since
            if probe && rng.chance(60) {
                for e in 0..2 {
                    if deadline[e] > now + 1 && !flight.iter().any(|f| f.to == e && f.at <= now) {
                        let at = if rng.chance(50) { deadline[e] - 1 } else { now + rng.range(0, (deadline[e] - now - 1).min(5000) as u64) as i64 };
                        // only probe when nothing else happens before `at`
                        let mut clear = true;
                        for f in &flight {
                            if f.at <= at {
                                clear = false;
                            }
                        }
                        for x in 0..2 {
                            if app_at[x] >= 0 && app_at[x] <= at {
                                clear = false;
                            }
                            if x != e && deadline[x] >= 0 && deadline[x] <= at {
                                clear = false;
                            }
                        }
                        if clear {
                            let dl = deadline[e];
                            if let Ok(out) = eps[e].poll(at, vec![]) {
                                let outs: Vec<Value> = out.iter().map(|o| num.proj_frame(e, o)).collect();
                                let p = eps[e].post(at);
                                t.ev(json!({"ev":"probe","ep":e,"now":at,"deadline":dl,"out":outs,"post":p}));
                                now = at;
                                emit_frames(&mut rng, &mut flight, &mut next_id, &mut last_arrival, out, e, now, adv_until, drop_pct, dup_pct, flip_pct, base_delay, jitter, &mut t);
                                deadline[e] = eps[e].poll_at(now);
                            }
                        }
                    }
                }
            }
            if !progressed {
                // nothing was due exactly now (deadline in the past handled above); avoid spinning
                continue;
            }
        }
        let pa = eps[0].post(now);
        let pb = eps[1].post(now);
        t.ev(json!({"ev":"end","how":end,"now":now,"post":[pa,pb],"written":[eps[0].written,eps[1].written],"read":[eps[0].read,eps[1].read],
            "closed":[eps[0].closed_at.unwrap_or(-1),eps[1].closed_at.unwrap_or(-1)],"finished":finished,"steps":steps}));
    }
    println!("{}", json!({"runs": runs, "events": t.finish()}));
}

#[allow(clippy::too_many_arguments)]
thread_local! {
    /// scripted loss of the pair world: the n-th data-carrying segment from endpoint 0 is dropped once (0: none)
    static DROP_NTH_DATA: std::cell::Cell<i64> = const { std::cell::Cell::new(0) };
    /// blackout runs: every frame emitted in [start, end) is lost, in both directions (then the link is reliable)
    static BLACKOUT: std::cell::Cell<(i64, i64)> = const { std::cell::Cell::new((0, 0)) };
    /// aligned runs: endpoint 0 writes its whole stream with one call and closes at once
    static BULK_WRITE: std::cell::Cell<bool> = const { std::cell::Cell::new(false) };
    /// zero-window runs: (hold, drop, until) -- until `until`, endpoint 1's empty segments advertising a zero window
    /// are held back `hold` ms (so that a later window update overtakes them), endpoint 0's data segments are lost
    /// with probability `drop` %, everything else is delivered in order; endpoint 1 reads all it has in one call
    static ZWR: std::cell::Cell<(i64, u64, i64)> = const { std::cell::Cell::new((0, 0, 0)) };
    /// acknowledgment-loss runs: in [start, end) every segment without data, SYN or FIN is lost in both directions
    /// while data gets through -- both ends receive everything and both run into retransmission time-outs
    static ACKLOSS: std::cell::Cell<(i64, i64)> = const { std::cell::Cell::new((0, 0)) };
    /// scaled-edge zero-window runs: (end of the phase in which B's window updates are lost, B has announced a zero window)
    static ZWEDGE: std::cell::Cell<(i64, bool)> = const { std::cell::Cell::new((0, false)) };
}

fn emit_frames(rng: &mut Rng, flight: &mut Vec<InFlight>, next_id: &mut u64, last_arrival: &mut [i64; 2], out: Vec<Vec<u8>>, from: usize, now: i64,
               adv_until: i64, drop_pct: u64, dup_pct: u64, flip_pct: u64, base_delay: i64, jitter: i64, t: &mut Trace) {
    let to = 1 - from;
    for f in out {
        let id = *next_id;
        *next_id += 1;
        let (b0, b1) = BLACKOUT.with(|c| c.get());
        if now >= b0 && now < b1 {
            t.ev(json!({"ev":"net","fid":id,"fate":"drop","blackout":true}));
            continue;
        }
        if from == 0 && DROP_NTH_DATA.with(|c| c.get()) > 0 {
            let has_data = matches!(parse_ip(&f), Some(IpPkt { l4: L4::Tcp(ref seg), .. }) if !seg.payload.is_empty());
            if has_data {
                let left = DROP_NTH_DATA.with(|c| {
                    c.set(c.get() - 1);
                    c.get()
                });
                if left == 0 {
                    t.ev(json!({"ev":"net","fid":id,"fate":"drop","scripted":true}));
                    continue;
                }
            }
        }
        let (k0, k1) = ACKLOSS.with(|c| c.get());
        if now >= k0 && now < k1 {
            if let Some(IpPkt { l4: L4::Tcp(ref seg), .. }) = parse_ip(&f) {
                if seg.payload.is_empty() && !seg.syn && !seg.fin && !seg.rst {
                    t.ev(json!({"ev":"net","fid":id,"fate":"drop","ackloss":true}));
                    continue;
                }
            }
        }
        let (euntil, ezero) = ZWEDGE.with(|c| c.get());
        if euntil > 0 && now < euntil && from == 1 {
            if let Some(IpPkt { l4: L4::Tcp(ref seg), .. }) = parse_ip(&f) {
                if seg.payload.is_empty() && !seg.syn && !seg.fin && !seg.rst {
                    if seg.win == 0 {
                        ZWEDGE.with(|c| c.set((euntil, true)));
                    } else if ezero {
                        // the window update that follows a zero window is lost (the sender has to find out by probing)
                        t.ev(json!({"ev":"net","fid":id,"fate":"drop","zwedge":true}));
                        continue;
                    }
                }
            }
        }
        let (zhold, zdrop, zuntil) = ZWR.with(|c| c.get());
        if zhold > 0 && now < zuntil {
            if let Some(IpPkt { l4: L4::Tcp(ref seg), .. }) = parse_ip(&f) {
                if from == 1 && seg.payload.is_empty() && seg.win == 0 && !seg.syn && !seg.fin && !seg.rst {
                    // parked until the window update that follows has been sent (at the latest until the phase ends)
                    t.ev(json!({"ev":"net","fid":id,"fate":"held","d":zuntil - now}));
                    flight.push(InFlight { at: zuntil + (id % 7) as i64, to, frame: f, id, fate: "held" });
                    continue;
                }
                if from == 1 && seg.win > 0 && !seg.syn {
                    // the window re-opens: what was parked arrives `zhold` ms behind this segment
                    for g in flight.iter_mut() {
                        if g.fate == "held" && g.at > now + base_delay + zhold {
                            g.at = now + base_delay + zhold;
                        }
                    }
                }
                if from == 0 && !seg.payload.is_empty() && rng.below(100) < zdrop {
                    t.ev(json!({"ev":"net","fid":id,"fate":"drop","zw":true}));
                    continue;
                }
            }
        }
        if now < adv_until {
            let c = rng.below(100);
            if c < drop_pct {
                t.ev(json!({"ev":"net","fid":id,"fate":"drop"}));
                continue;
            }
            let d1 = base_delay + if jitter > 0 { rng.below(jitter as u64 + 1) as i64 } else { 0 };
            if c < drop_pct + dup_pct {
                let d2 = base_delay + if jitter > 0 { rng.below(jitter as u64 + 1) as i64 } else { rng.range(0, 3) as i64 };
                t.ev(json!({"ev":"net","fid":id,"fate":"dup","d":[d1,d2]}));
                flight.push(InFlight { at: now + d1, to, frame: f.clone(), id, fate: "orig" });
                flight.push(InFlight { at: now + d2, to, frame: f, id, fate: "dup" });
                continue;
            }
            if c < drop_pct + dup_pct + flip_pct && !f.is_empty() {
                let bit = rng.below(f.len() as u64 * 8);
                let mut g = f.clone();
                g[(bit / 8) as usize] ^= 1 << (bit % 8);
                t.ev(json!({"ev":"net","fid":id,"fate":"flip","bit":bit,"d":d1}));
                flight.push(InFlight { at: now + d1, to, frame: g, id, fate: "flip" });
                continue;
            }
            flight.push(InFlight { at: now + d1, to, frame: f, id, fate: "deliver" });
        } else {
            // reliable phase: fixed delay, FIFO
            let at = (now + base_delay).max(last_arrival[to]);
            last_arrival[to] = at;
            flight.push(InFlight { at, to, frame: f, id, fate: "deliver" });
        }
    }
}

fn app_idle(eps: &mut [Ep; 2], e: usize, total: &[i64; 2], finished: &[bool; 2]) -> bool {
    let written = eps[e].written;
    let closed = eps[e].closed_at.is_some();
    let s = eps[e].sock();
    let can_write = written < total[e] && s.can_send() && s.may_send();
    let want_close = written >= total[e] && !closed && s.may_send();
    let stuck_open = written < total[e] && !s.may_send() && s.state() != tcp::State::SynSent && s.state() != tcp::State::SynReceived && s.state() != tcp::State::Listen;
    let can_read = s.can_recv() || (!finished[e] && !s.may_recv() && !matches!(s.state(), tcp::State::Listen | tcp::State::SynSent | tcp::State::SynReceived));
    let _ = stuck_open;
    !(can_write || want_close || can_read)
}

#[allow(clippy::too_many_arguments)]
fn app_step(eps: &mut [Ep; 2], e: usize, now: i64, rng: &mut Rng, total: &[i64; 2], finished: &mut [bool; 2], stall_until: i64, t: &mut Trace) -> bool {
    let mut did = false;
    let before = eps[e].state();
    // write
    let written = eps[e].written;
    if written < total[e] && eps[e].sock().may_send() && eps[e].sock().can_send() && rng.chance(80) {
        let want = if e == 0 && BULK_WRITE.with(|c| c.get()) { total[e] - written } else { (rng.range_pick(1, &[1u64, 8, 100, 1500, 70000]) as i64).min(total[e] - written) };
        let data: Vec<u8> = (0..want).map(|i| content(e, written + i)).collect();
        let r = eps[e].sock().send_slice(&data);
        let (ret, err) = match r {
            Ok(n) => (n as i64, "none"),
            Err(_) => (-1, "invalid"),
        };
        if ret > 0 {
            eps[e].written += ret;
            did = true;
        }
        let p = eps[e].post(now);
        t.ev(json!({"ev":"api","ep":e,"now":now,"call":"send","n":want,"ret":ret,"err":err,"before":before,"post":p}));
        if e == 0 && BULK_WRITE.with(|c| c.get()) && eps[e].written >= total[e] && eps[e].closed_at.is_none() && eps[e].sock().may_send() {
            // write everything, close at once: the FIN is queued behind data that the window does not admit yet
            let before = eps[e].state();
            let w = eps[e].written;
            eps[e].sock().close();
            eps[e].closed_at = Some(w);
            let p = eps[e].post(now);
            t.ev(json!({"ev":"api","ep":e,"now":now,"call":"close","at":w,"before":before,"post":p}));
        }
    } else if written >= total[e] && eps[e].closed_at.is_none() && eps[e].sock().may_send() && rng.chance(60) {
        eps[e].sock().close();
        eps[e].closed_at = Some(written);
        let p = eps[e].post(now);
        t.ev(json!({"ev":"api","ep":e,"now":now,"call":"close","at":written,"before":before,"post":p}));
        did = true;
    }
    // read (a stalled reader does not read before stall_until)
    if now >= stall_until || rng.chance(3) {
        let before = eps[e].state();
        let s = eps[e].sock();
        let active = !matches!(s.state(), tcp::State::Listen | tcp::State::SynSent | tcp::State::SynReceived);
        if (s.can_recv() || (!finished[e] && active && !s.may_recv())) && rng.chance(85) {
            let maxn = if e == 1 && ZWR.with(|c| c.get().0) > 0 { 70000 } else { rng.range_pick(1, &[1u64, 16, 256, 4096, 70000]) as usize };
            let mut buf = vec![0u8; maxn];
            let rq = s.recv_queue();
            let r = s.recv_slice(&mut buf);
            let rd = eps[e].read;
            match r {
                Ok(n) => {
                    let mut diff: i64 = -1;
                    for i in 0..n {
                        if buf[i] != content(1 - e, rd + i as i64) {
                            diff = i as i64;
                            break;
                        }
                    }
                    eps[e].read += n as i64;
                    let p = eps[e].post(now);
                    t.ev(json!({"ev":"api","ep":e,"now":now,"call":"recv","n":maxn,"ret":n,"err":"none","diff":diff,"rqb":rq,"before":before,"post":p}));
                    if n > 0 {
                        did = true;
                    }
                }
                Err(tcp::RecvError::Finished) => {
                    finished[e] = true;
                    let p = eps[e].post(now);
                    t.ev(json!({"ev":"api","ep":e,"now":now,"call":"recv","n":maxn,"ret":-1,"err":"finished","diff":-1,"rqb":rq,"before":before,"post":p}));
                    did = true;
                }
                Err(tcp::RecvError::InvalidState) => {
                    // connection was reset or never opened: nothing more to read
                    finished[e] = true;
                    let p = eps[e].post(now);
                    t.ev(json!({"ev":"api","ep":e,"now":now,"call":"recv","n":maxn,"ret":-1,"err":"invalid","diff":-1,"rqb":rq,"before":before,"post":p}));
                }
            }
        }
    }
    did
}

// ------------------------------------------------------------------------------------------------
// peer world: one real socket (endpoint 1 = "B") against a scripted peer (endpoint 0 = "A")

pub struct PeerW {
    pub ep: Ep,
    pub num: Numbering,
    pub now: i64,
    pub peer_iss: u32,
    pub peer_fin: i64, // stream offset of the peer's FIN (-1: none)
    /// the scripted peer speaks RFC 7323 timestamps (when the socket has a generator): value from its clock, echo of
    /// the last value the socket sent; every tenth segment leaves the option out
    pub ts_on: bool,
    pub ts_echo: std::cell::Cell<u32>,
    pub ts_count: std::cell::Cell<u32>,
    /// acknowledgment number (relative) and window field of the last segment without SYN the socket emitted
    pub last_adv: std::cell::Cell<(i64, i64)>,
    /// the highest right edge any emitted segment (the SYN-ACK included) has advertised, window fields read as octets
    pub max_edge: std::cell::Cell<i64>,
    /// the window-scale option of the socket's SYN / SYN-ACK (-1: none)
    pub sock_ws: std::cell::Cell<i64>,
}

impl PeerW {
    fn note_adv(&self, outs: &[Value]) {
        for o in outs {
            if o["syn"].as_bool() == Some(true) {
                self.sock_ws.set(o["ws"].as_i64().unwrap_or(-1));
            }
            if o["rst"].as_bool() == Some(false) && o["ha"].as_bool() == Some(true) {
                self.max_edge.set(self.max_edge.get().max(o["ack"].as_i64().unwrap_or(0) + o["win"].as_i64().unwrap_or(0)));
            }
            if o["syn"].as_bool() == Some(false) && o["rst"].as_bool() == Some(false) && o["ha"].as_bool() == Some(true) {
                self.last_adv.set((o["ack"].as_i64().unwrap_or(-1), o["win"].as_i64().unwrap_or(-1)));
            }
        }
    }
    pub fn new(cfg: EpCfg, peer_iss: u32) -> PeerW {
        let mut num = Numbering::default();
        num.iss[0] = Some(peer_iss);
        let ts_on = cfg.ts;
        PeerW { ep: Ep::new(1, cfg, Instant::from_millis(0)), num, now: 0, peer_iss, peer_fin: -1, ts_on, ts_echo: std::cell::Cell::new(0), ts_count: std::cell::Cell::new(0), last_adv: std::cell::Cell::new((-1, -1)), max_edge: std::cell::Cell::new(0), sock_ws: std::cell::Cell::new(-1) }
    }
    /// Crafts a segment from relative numbers: seq relative to the peer's ISN, ack relative to the socket's ISN
    /// (absolute 0-based if the socket's ISN is not yet known).
    #[allow(clippy::too_many_arguments)]
    pub fn craft(&self, seq: i64, ack: Option<i64>, len: usize, syn: bool, fin: bool, rst: bool, win: u16, mss: Option<u16>, ws: Option<u8>) -> Vec<u8> {
        let aseq = self.peer_iss.wrapping_add(seq as u32);
        let aack = ack.map(|a| self.num.iss[1].unwrap_or(0).wrapping_add(a as u32));
        // (the octets a SYN carries follow the SYN in sequence space)
        let first = if syn { seq } else { seq - 1 };
        let payload: Vec<u8> = (0..len as i64).map(|i| content(0, first + i)).collect();
        self.ts_count.set(self.ts_count.get() + 1);
        let ts = if self.ts_on && (syn || self.ts_count.get() % 10 != 0) { Some((1000u32.wrapping_add(self.now as u32), self.ts_echo.get())) } else { None };
        let t = TcpSeg { sport: PORT[0], dport: PORT[1], seq: aseq, ack: aack, syn, fin, rst, psh: false, win, mss, wscale: ws, sackp: false, ts, payload, ..Default::default() };
        if self.ep.cfg.v6 {
            ipv6_packet(ADDR6[0], ADDR6[1], 6, 64, &t.emit(), true)
        } else {
            ipv4_packet(ADDR[0], ADDR[1], 6, 1, 64, &t.emit(), true)
        }
    }
    pub fn inject(&mut self, frame: Vec<u8>, t: &mut Trace, extra: Value) -> bool {
        let before = self.ep.state();
        let dlb = self.ep.poll_at(self.now);
        let segp = self.num.clone().proj_frame(0, &frame);
        match self.ep.poll(self.now, vec![frame]) {
            Ok(out) => {
                let outs: Vec<Value> = out.iter().map(|o| self.num.proj_frame(1, o)).collect();
                self.note_adv(&outs);
                for o in &out {
                    if let Some(IpPkt { l4: L4::Tcp(seg), .. }) = parse_ip(o) {
                        if let Some((v, _)) = seg.ts {
                            self.ts_echo.set(v);
                        }
                    }
                }
                let p = self.ep.post(self.now);
                t.ev(json!({"ev":"rx","ep":1,"now":self.now,"seg":segp,"fate":"crafted","out":outs,"before":before,"post":p,"x":extra,"dl":dlb}));
                true
            }
            Err(m) => {
                t.ev(json!({"ev":"panic","ep":1,"now":self.now,"msg":m,"seg":segp,"before":before}));
                false
            }
        }
    }
    pub fn timer_poll(&mut self, t: &mut Trace, extra: Value) -> bool {
        let before = self.ep.state();
        let dl = self.ep.poll_at(self.now);
        match self.ep.poll(self.now, vec![]) {
            Ok(out) => {
                let outs: Vec<Value> = out.iter().map(|o| self.num.proj_frame(1, o)).collect();
                self.note_adv(&outs);
                let p = self.ep.post(self.now);
                t.ev(json!({"ev":"egress","ep":1,"now":self.now,"deadline":dl,"out":outs,"before":before,"post":p,"x":extra}));
                true
            }
            Err(m) => {
                t.ev(json!({"ev":"panic","ep":1,"now":self.now,"msg":m}));
                false
            }
        }
    }
    pub fn api_recv(&mut self, maxn: usize, t: &mut Trace) {
        let before = self.ep.state();
        let mut buf = vec![0u8; maxn];
        let rq = self.ep.sock().recv_queue();
        let r = self.ep.sock().recv_slice(&mut buf);
        let rd = self.ep.read;
        let (ret, err, diff) = match r {
            Ok(n) => {
                let mut diff: i64 = -1;
                for i in 0..n {
                    if buf[i] != content(0, rd + i as i64) {
                        diff = i as i64;
                        break;
                    }
                }
                self.ep.read += n as i64;
                (n as i64, "none", diff)
            }
            Err(tcp::RecvError::Finished) => (-1, "finished", -1),
            Err(tcp::RecvError::InvalidState) => (-1, "invalid", -1),
        };
        let p = self.ep.post(self.now);
        t.ev(json!({"ev":"api","ep":1,"now":self.now,"call":"recv","n":maxn,"ret":ret,"err":err,"diff":diff,"rqb":rq,"before":before,"post":p}));
    }
    pub fn api_send(&mut self, n: usize, t: &mut Trace) {
        let before = self.ep.state();
        let w = self.ep.written;
        let data: Vec<u8> = (0..n as i64).map(|i| content(1, w + i)).collect();
        let r = self.ep.sock().send_slice(&data);
        let (ret, err) = match r {
            Ok(k) => (k as i64, "none"),
            Err(_) => (-1, "invalid"),
        };
        if ret > 0 {
            self.ep.written += ret;
        }
        let p = self.ep.post(self.now);
        t.ev(json!({"ev":"api","ep":1,"now":self.now,"call":"send","n":n,"ret":ret,"err":err,"before":before,"post":p}));
    }
    pub fn api_close(&mut self, t: &mut Trace) {
        let before = self.ep.state();
        self.ep.sock().close();
        if self.ep.closed_at.is_none() {
            self.ep.closed_at = Some(self.ep.written);
        }
        let at = self.ep.closed_at.unwrap();
        let p = self.ep.post(self.now);
        t.ev(json!({"ev":"api","ep":1,"now":self.now,"call":"close","at":at,"before":before,"post":p}));
    }
    pub fn api_abort(&mut self, t: &mut Trace) {
        let before = self.ep.state();
        self.ep.sock().abort();
        let p = self.ep.post(self.now);
        t.ev(json!({"ev":"api","ep":1,"now":self.now,"call":"abort","before":before,"post":p}));
    }
    pub fn api_listen(&mut self, t: &mut Trace) {
        let before = self.ep.state();
        let r = self.ep.sock().listen(PORT[1]);
        let p = self.ep.post(self.now);
        t.ev(json!({"ev":"api","ep":1,"now":self.now,"call":"listen","ok":r.is_ok(),"before":before,"post":p}));
    }
    pub fn api_connect(&mut self, t: &mut Trace) {
        let before = self.ep.state();
        let e = &mut self.ep;
        let cx = e.iface.context();
        let r = e.sockets.get_mut::<tcp::Socket>(e.h).connect(cx, (ep_addr(0, e.cfg.v6), PORT[0]), PORT[1]);
        let p = self.ep.post(self.now);
        t.ev(json!({"ev":"api","ep":1,"now":self.now,"call":"connect","ok":r.is_ok(),"before":before,"post":p}));
    }
}

fn peer_cfg(args: &Args, seed: u64) -> EpCfg {
    EpCfg { rx: args.usize("rx", 2), tx: args.usize("tx", 4), mtu: args.usize("mtu", 1500), cc: args.u64("cc", 0) as u8, ack_delay: None, nagle: args.flag("nagle"), ts: false, keep_alive: None, timeout: None, seed, v6: args.flag("v6"), spare: args.u64("spare", 0) as u8, burst: None, udp_csum_off: false }
}

/// Replays TLC schedules (steps exported from MCTcpPeer) on a real listening socket.
/// Step kinds: seg {seq, ack(-1 none), len, ctl, win}, poll {fire}, recv {n}, send {n}, close, abort.
/// seq/ack in the schedule are model-relative: peer ISS = 0 offset (model ISS("A") maps to peer_iss), socket ISS offset likewise.
pub fn peer_replay(args: &Args) {
    let sched = read_ndjson(&args.str("sched", ""));
    let mut t = Trace::create(&args.str("out", ""));
    let peer_iss_base = args.u64("peeriss", 0xffff_fff0) as u32;
    let ma = args.u64("model_iss_a", 100) as i64;
    let mb = args.u64("model_iss_b", 300) as i64;
    for (k, sc) in sched.iter().enumerate() {
        let (seed, want) = match k % 3 {
            0 => (seed_for_isn(0x7fff_fffa, 4, (k as u64 / 3) % 8), 0x7fff_fffau32 as i64),
            1 => (seed_for_isn(0xffff_fffb, 4, (k as u64 / 3) % 8), 0xffff_fffbu32 as i64),
            _ => (k as u64 * 7919 + 13, -1),
        };
        let cfg = peer_cfg(args, seed);
        let mut w = PeerW::new(cfg.clone(), peer_iss_base);
        t.ev(json!({"ev":"reset","run":k,"world":"tcp_peer","src":"tlc","cfg":[{"rx":65535,"tx":65535,"mtu":cfg.mtu,"cc":0,"ad":-1,"nagle":false,"ts":false,"isn":peer_iss_base as i64,"scripted":true},
            {"rx":cfg.rx,"tx":cfg.tx,"mtu":cfg.mtu,"cc":cfg.cc,"ad":-1,"nagle":cfg.nagle,"ts":false,"isn":want}], "peer_fin": sc.get("peer_fin").cloned().unwrap_or(json!(-1))}));
        if args.flag("connector") {
            w.api_connect(&mut t);
        } else {
            w.api_listen(&mut t);
        }
        for st in sc["steps"].as_array().unwrap() {
            let kind = st["k"].as_str().unwrap();
            let ok = match kind {
                "seg" => {
                    let g = &st["g"];
                    let seq = g["seq"].as_i64().unwrap() - ma;
                    let ackm = g["ack"].as_i64().unwrap();
                    let ack = if ackm < 0 { None } else { Some(ackm - mb) };
                    let ctl = g["ctl"].as_str().unwrap();
                    let f = w.craft(seq, ack, g["len"].as_u64().unwrap() as usize, ctl == "syn", ctl == "fin", ctl == "rst", g["win"].as_u64().unwrap() as u16, if ctl == "syn" { Some(1460) } else { None }, None);
                    w.now += 1;
                    if ctl == "fin" {
                        t.ev(json!({"ev":"api","ep":0,"now":w.now,"call":"close","at":seq - 1 + g["len"].as_i64().unwrap(),"scripted":true}));
                    }
                    w.inject(f, &mut t, json!({"after": st["after"], "mbefore": st["before"]}))
                }
                "due" => {
                    // the armed timer reaches its deadline: jump to the instant the socket itself reports
                    let pa = w.ep.poll_at(w.now);
                    if pa > w.now {
                        w.now = pa;
                    }
                    t.ev(json!({"ev":"clock","ep":1,"now":w.now,"pa":pa}));
                    true
                }
                "poll" => {
                    w.timer_poll(&mut t, json!({"after": st["after"]}))
                }
                "recv" => {
                    w.now += 1;
                    w.api_recv(st["n"].as_u64().unwrap() as usize, &mut t);
                    true
                }
                "send" => {
                    w.now += 1;
                    w.api_send(st["n"].as_u64().unwrap() as usize, &mut t);
                    true
                }
                "close" => {
                    w.now += 1;
                    w.api_close(&mut t);
                    true
                }
                "abort" => {
                    w.now += 1;
                    w.api_abort(&mut t);
                    true
                }
                _ => true,
            };
            if !ok {
                break;
            }
        }
    }
    println!("{}", json!({"runs": sched.len(), "events": t.finish()}));
}

/// Seeded hostile-but-consistent peer against a real listener or connector.
pub fn peer_random(args: &Args) {
    let seed0 = args.u64("seed", 1);
    let runs = args.usize("runs", 50);
    let steps = args.usize("steps", 150);
    let mut t = Trace::create(&args.str("out", ""));
    let only = args.map.get("only").map(|x| x.parse::<usize>().unwrap());
    for run in 0..runs {
        if only.is_some() && only != Some(run) {
            continue;
        }
        let mut rng = Rng::new(seed0.wrapping_mul(7_000_003).wrapping_add(run as u64));
        let (seed, want) = isn_seed(&mut rng, run as u64 % 4);
        let rx = *rng.pick(&[4usize, 16, 64, 256, 1000, 4096, 70000, 131072]);
        let tx = *rng.pick(&[8usize, 64, 512, 4096, 70000]);
        let mtu = *rng.pick(&[576usize, 1500, 296, 9000]);
        let cfg = EpCfg { rx, tx, mtu, cc: rng.below(3) as u8, ack_delay: if rng.chance(40) { Some(10) } else { None }, nagle: rng.chance(50), ts: rng.chance(30), keep_alive: None, timeout: None, seed, v6: rng.chance(40), spare: *rng.pick(&[0u8, 0, 1, 2, 3]), burst: None, udp_csum_off: false };
        let peer_iss = match rng.below(4) {
            0 => 0xffff_ff00u32.wrapping_add(rng.below(200) as u32),
            1 => 0x7fff_ff00u32.wrapping_add(rng.below(200) as u32),
            2 => rng.below(1000) as u32,
            _ => rng.next() as u32,
        };
        let mut w = PeerW::new(cfg.clone(), peer_iss);
        let listener = rng.chance(70);
        // bytes the peer will "write": now and then exactly (or one off) what the first receive window takes, so that its FIN
        // sits at the window edge -- with window scaling the edge the socket remembers is rounded down
        let peer_total = if rng.chance(15) { (rx as i64 + rng.range(0, 2) as i64 - 1).max(0) } else { rng.range(0, (rx as u64 * 3).min(300_000)) as i64 };
        let peer_mss_opt: Option<u16> = *rng.pick(&[None, Some(0u16), Some(1), Some(47), Some(48), Some(536), Some(1460), Some(9000)]);
        let peer_ws: Option<u8> = *rng.pick(&[None, Some(0u8), Some(2), Some(7), Some(14)]);
        // a peer that offers no window scaling to a listener whose buffer would need it reads every window field as
        // octets: it first probes just beyond the edge it can read (see below), which needs a stream that long
        let unscaled_probe = listener && peer_ws.is_none() && rx >= 65536;
        // ... and a peer that does offer scaling may not rely on more than the SYN-ACK's (unscaled) window before it has seen
        // another advertisement: in half of those runs the segment that completes the handshake carries 100 octets just
        // beyond that edge (inside the buffer), then the stream in order up to there
        let early_probe = listener && peer_ws.is_some() && rx >= 65536 + 200 && rng.chance(50);
        let peer_total = if unscaled_probe || early_probe { peer_total.max(rx as i64) } else { peer_total };
        // (no burst limit on the device here: the interface then accepts more than the window it lets out, and the rules that
        // judge a hostile peer's segments against the advertised window would have to be weakened; the pair world has it)
        t.ev(json!({"ev":"reset","run":run,"world":"tcp_peer","src":"random","seed":seed0,"cfg":[{"rx":65535,"tx":65535,"mtu":mtu,"cc":0,"ad":-1,"nagle":false,"ts":false,"isn":peer_iss as i64,"scripted":true},
            {"rx":rx,"tx":tx,"mtu":mtu,"cc":cfg.cc,"ad":cfg.ack_delay.map(|x| x as i64).unwrap_or(-1),"nagle":cfg.nagle,"ts":false,"isn":want}], "peer_fin": peer_total, "listener": listener}));
        // --- handshake (correct, so that the interesting part starts from ESTABLISHED most of the time)
        let mut peer_nxt: i64 = 1; // next new stream seq (relative) the peer would send
        let mut peer_closed = false;
        if listener {
            w.api_listen(&mut t);
            // now and then a handshake that is aborted first: a SYN announcing a large MSS, then a reset; the listener is
            // back in LISTEN and what that SYN said must not colour the connection that follows
            if rng.chance(15) {
                let f = w.craft(0, None, 0, true, false, false, 4000, Some(1400), Some(3));
                if !w.inject(f, &mut t, json!({"aborted": true})) {
                    continue;
                }
                w.now += 1;
                let f = w.craft(1, None, 0, false, false, true, 0, None, None);
                if !w.inject(f, &mut t, json!({"aborted": true})) {
                    continue;
                }
                w.now += 1;
                if w.ep.state() != "LISTEN" {
                    continue;
                }
            }
            // (now and then the SYN carries the first octets of the stream: the socket may leave them to be sent again, but
            // it must not count them as received without storing them)
            let syn_data = if rng.chance(20) { rng.range(1, 24) as usize } else { 0 };
            let f = w.craft(0, None, syn_data, true, false, false, rng.range(0, 65535) as u16, peer_mss_opt, peer_ws);
            if !w.inject(f, &mut t, json!({})) {
                continue;
            }
            // hostile segments while the socket is in SYN-RECEIVED
            if rng.chance(40) {
                for _ in 0..rng.range(1, 3) {
                    let ack = *rng.pick(&[None, Some(0i64), Some(2), Some(3), Some(-1)]);
                    let seq = *rng.pick(&[1i64, 1, 0, 2, 70000, 5]);
                    let kind = rng.below(4);
                    let f = w.craft(seq, ack, if kind == 2 { 3 } else { 0 }, false, kind == 3, kind == 0, 1000, None, None);
                    w.now += 1;
                    if !w.inject(f, &mut t, json!({})) {
                        break;
                    }
                }
                if w.ep.state() != "SYN-RECEIVED" {
                    continue;
                }
            }
            let early_at = w.max_edge.get() + 50;
            let f = if early_probe && w.ep.state() == "SYN-RECEIVED" && early_at + 100 <= rx as i64 {
                w.craft(early_at, Some(1), 100, false, false, false, 1000, None, None)
            } else {
                w.craft(1, Some(1), 0, false, false, false, rng.range(0, 65535) as u16, None, None)
            };
            w.now += 1;
            if !w.inject(f, &mut t, json!({})) {
                continue;
            }
            if early_probe && w.ep.state() == "ESTABLISHED" && early_at + 100 <= rx as i64 {
                // the stream in order up to the probe, never beyond what the latest advertisement allows (window fields
                // scaled by the shift of the socket's SYN-ACK: both sides offered scaling)
                let sh = w.sock_ws.get().max(0);
                let mut ok = true;
                let mut nxt: i64 = 1;
                let mut guard = 0;
                while ok && nxt < early_at && guard < 200 {
                    guard += 1;
                    let (a, wn) = w.last_adv.get();
                    let edge = if a >= 1 { a + (wn << sh) } else { w.max_edge.get() };
                    let len = 1400i64.min(early_at - nxt).min(edge - nxt);
                    if len <= 0 {
                        break;
                    }
                    let f = w.craft(nxt, Some(1), len as usize, false, false, false, 1000, None, None);
                    w.now += 1;
                    ok = w.inject(f, &mut t, json!({"probe": "early"}));
                    w.now += 12;
                    ok = ok && w.timer_poll(&mut t, json!({}));
                    nxt += len;
                }
                peer_nxt = peer_nxt.max(nxt);
                if !ok {
                    continue;
                }
            }
            if unscaled_probe && w.ep.state() == "ESTABLISHED" {
                // one octet in order draws an acknowledgment with a window field; 100 octets just beyond the edge that field
                // gives when read as octets (inside the buffer, so a socket that shifts it by a scale nobody negotiated would
                // take them); then the stream in order up to there, never beyond what the latest advertisement allows
                let f = w.craft(1, Some(1), 1, false, false, false, 1000, None, None);
                w.now += 1;
                let mut ok = w.inject(f, &mut t, json!({"probe": "unscaled"}));
                w.now += 20;
                ok = ok && w.timer_poll(&mut t, json!({}));
                let (a0, w0) = w.last_adv.get();
                // (beyond every edge advertised so far: the SYN-ACK's unscaled window counts)
                let beyond = w.max_edge.get().max(a0 + w0) + 50;
                if ok && a0 >= 1 && w0 > 0 && beyond + 100 <= rx as i64 && beyond + 100 <= peer_total + 1 {
                    let f = w.craft(beyond, Some(1), 100, false, false, false, 1000, None, None);
                    w.now += 1;
                    ok = w.inject(f, &mut t, json!({"probe": "unscaled"}));
                    let mut nxt: i64 = 2;
                    let mut guard = 0;
                    // (the 100 octets themselves are not sent again: they were only ever sent beyond the window)
                    while ok && nxt < beyond && guard < 200 {
                        guard += 1;
                        let (a, wn) = w.last_adv.get();
                        let len = 1400i64.min(beyond - nxt).min(a + wn - nxt);
                        if len <= 0 {
                            break;
                        }
                        let f = w.craft(nxt, Some(1), len as usize, false, false, false, 1000, None, None);
                        w.now += 1;
                        ok = w.inject(f, &mut t, json!({"probe": "unscaled"}));
                        w.now += 12;
                        ok = ok && w.timer_poll(&mut t, json!({}));
                        nxt += len;
                    }
                    peer_nxt = peer_nxt.max(nxt);
                }
                if !ok {
                    continue;
                }
            }
        } else {
            // (now and then the socket has listened before in its life: nothing of that may show in the active open)
            if rng.chance(30) {
                w.api_listen(&mut t);
                w.api_close(&mut t);
            }
            w.api_connect(&mut t);
            // now and then a SYN-ACK / reset that arrives before the SYN has left (ingress runs before egress): one that does
            // not acknowledge ISS + 1 opens nothing
            if want >= 0 && rng.chance(40) {
                // (the ISN is known before the SYN shows it only when the run has chosen it through the interface's seed)
                w.num.iss[1] = Some(want as u32);
                let ack = *rng.pick(&[Some(0i64), Some(0), Some(2), Some(-5), None]);
                let kind = rng.below(3);
                let f = w.craft(0, ack, 0, kind != 0, false, kind == 0, 1000, None, None);
                if !w.inject(f, &mut t, json!({"early": true})) {
                    continue;
                }
                w.now += 1;
                if w.ep.state() != "SYN-SENT" {
                    continue;
                }
            }
            if !w.timer_poll(&mut t, json!({})) {
                continue;
            }
            // a simultaneous open now and then: the peer's bare SYN crosses ours (SYN-SENT -> SYN-RECEIVED); then either a
            // reset at RCV.NXT (an active opener goes to CLOSED: it is no listener) or the acknowledgment that completes it
            let mut simultaneous = false;
            if rng.chance(15) {
                let f = w.craft(0, None, 0, true, false, false, rng.range(0, 65535) as u16, peer_mss_opt, peer_ws);
                w.now += 1;
                if !w.inject(f, &mut t, json!({"simultaneous": true})) {
                    continue;
                }
                if w.ep.state() == "SYN-RECEIVED" {
                    simultaneous = true;
                    w.now += 1;
                    if rng.chance(50) {
                        let f = w.craft(1, None, 0, false, false, true, 0, None, None);
                        let _ = w.inject(f, &mut t, json!({"simultaneous": true}));
                        continue;
                    }
                    let f = w.craft(1, Some(1), 0, false, false, false, rng.range(0, 65535) as u16, None, None);
                    if !w.inject(f, &mut t, json!({"simultaneous": true})) || w.ep.state() != "ESTABLISHED" {
                        continue;
                    }
                }
            }
            // hostile segments while the socket is in SYN-SENT: resets / SYN-ACKs / ACKs around the expected ACK number
            if !simultaneous && rng.chance(50) {
                for _ in 0..rng.range(1, 3) {
                    let ack = *rng.pick(&[None, Some(0i64), Some(2), Some(2), Some(3), Some(1000), Some(-5), Some(1)]);
                    let kind = rng.below(4);
                    let f = w.craft(0, ack, 0, kind == 1, false, kind == 0 || kind == 3, 1000, None, None);
                    w.now += 1;
                    if !w.inject(f, &mut t, json!({})) {
                        break;
                    }
                }
                if w.ep.state() == "SYN-RECEIVED" {
                    // a simultaneous open (the peer's bare SYN crossed ours); a reset at RCV.NXT ends it: an active opener
                    // goes to CLOSED, it is no listener
                    let f = w.craft(1, None, 0, false, false, true, 0, None, None);
                    w.now += 1;
                    let _ = w.inject(f, &mut t, json!({}));
                    continue;
                }
                if w.ep.state() != "SYN-SENT" {
                    continue;
                }
            }
            if !simultaneous {
                let syn_data = if rng.chance(20) { rng.range(1, 24) as usize } else { 0 };
                let f = w.craft(0, Some(1), syn_data, true, false, false, rng.range(0, 65535) as u16, peer_mss_opt, peer_ws);
                w.now += 1;
                if !w.inject(f, &mut t, json!({})) {
                    continue;
                }
            }
        }
        let mut alive = true;
        for _ in 0..steps {
            if !alive {
                break;
            }
            w.now += *rng.pick(&[0u64, 1, 1, 5, 20, 300, 1500]) as i64;
            let c = rng.below(100);
            if c < 50 {
                // a segment somewhere around the window
                let p = w.ep.post(w.now);
                let rq = p["rq"].as_i64().unwrap();
                let rcvnxt = w.ep.read + rq + 1; // relative seq of next expected byte (approximation: ignores FIN)
                let edge = rcvnxt + (rx as i64 - rq);
                let base = *rng.pick(&[rcvnxt, rcvnxt, rcvnxt, edge, peer_nxt, rcvnxt - 1, 1]);
                let seq = (base + rng.range(0, 6) as i64 - 3 + if rng.chance(30) { rng.below(rx as u64 + 4) as i64 } else { 0 }).max(1);
                let maxlen = (mtu - 40).min(1460) as u64;
                let mut len = if rng.chance(20) { 0 } else { rng.range_pick(0, &[1u64, 4, 64, maxlen]).min(maxlen) as i64 };
                let mut fin = false;
                // beyond the peer's own FIN: once that FIN has been sent, a hostile peer may go on sending octets "after the
                // end of its stream" (right behind the FIN's sequence number) -- none of them may reach the application
                let beyond = peer_closed && rng.chance(8);
                let seq = if beyond { peer_total + 2 + rng.below(3) as i64 } else { seq };
                if beyond {
                    len = rng.range(1, 40) as i64;
                } else if seq + len >= peer_total + 1 {
                    len = (peer_total + 1 - seq).max(0);
                    if seq <= peer_total + 1 && rng.chance(60) {
                        fin = true;
                    }
                }
                if seq > peer_total + 1 && !beyond {
                    continue;
                }
                let sndnxt = w.ep.written + 1 + if w.ep.closed_at.is_some() { 1 } else { 0 };
                let back = (sndnxt - rng.below(50) as i64).max(0);
                let ackv = *rng.pick(&[sndnxt, sndnxt, sndnxt, sndnxt - 1, sndnxt + 1, 1, back]);
                let ack = if rng.chance(95) { Some(ackv.max(0)) } else { None };
                let mut rst = rng.chance(2);
                let syn = rng.chance(1);
                // now and then a bare RST exactly at an edge of the receive window (the acceptance test is an edge test)
                let (seq, len, fin) = if rng.chance(3) {
                    rst = true;
                    (*rng.pick(&[rcvnxt - 1, rcvnxt, edge - 1, edge, edge, edge + 1]), 0i64, false)
                } else {
                    (seq, len, fin)
                };
                let seq = seq.max(1);
                let win = *rng.pick(&[0u16, 0, 1, 100, 1000, 65535, 536]);
                if fin && !peer_closed {
                    peer_closed = true;
                    t.ev(json!({"ev":"api","ep":0,"now":w.now,"call":"close","at":peer_total,"scripted":true}));
                }
                peer_nxt = peer_nxt.max(seq + len);
                let f = w.craft(seq, ack, len as usize, syn, fin && !syn && !rst, rst, win, None, None);
                alive = w.inject(f, &mut t, json!({}));
            } else if c < 56 {
                // three or four identical bare ACKs at the acknowledged frontier, with a window that may be smaller than
                // what is in flight (fast retransmit must respect it)
                let p = w.ep.post(w.now);
                let sq = p["sq"].as_i64().unwrap();
                let sndnxt = w.ep.written + 1 + if w.ep.closed_at.is_some() { 1 } else { 0 };
                let una = (sndnxt - sq).max(1);
                let win = *rng.pick(&[1u16, 50, 200, 536, 1000, 4000]);
                // (the first one may count as a window update; three more identical ones make the third duplicate)
                for _ in 0..rng.range(4, 6) {
                    if !alive {
                        break;
                    }
                    let f = w.craft(peer_nxt.max(1), Some(una), 0, false, false, false, win, None, None);
                    alive = w.inject(f, &mut t, json!({"dupack": true}));
                }
            } else if c < 70 {
                let n = rng.range_pick(1, &[1u64, 8, 300, 70000]) as usize;
                w.api_recv(n, &mut t);
            } else if c < 82 {
                // timer-driven poll at the socket's own deadline (or just now)
                let pa = w.ep.poll_at(w.now);
                if pa > w.now && rng.chance(70) {
                    w.now = pa;
                }
                alive = w.timer_poll(&mut t, json!({}));
            } else if c < 94 {
                let n = rng.range_pick(1, &[1u64, 10, 600, 3000]) as usize;
                if w.ep.closed_at.is_none() {
                    w.api_send(n, &mut t);
                }
                alive = w.timer_poll(&mut t, json!({}));
            } else if c < 98 {
                w.api_close(&mut t);
                alive = w.timer_poll(&mut t, json!({}));
            } else {
                w.api_abort(&mut t);
                alive = w.timer_poll(&mut t, json!({}));
            }
        }
        // the socket is used again (a server listening anew): nothing of the connection that just ended -- data buffered
        // out of order, what the old peer announced -- may show in the next one.  It is a run of its own in the trace.
        if alive && rng.chance(25) {
            if w.ep.state() != "CLOSED" {
                w.api_abort(&mut t);
                if !w.timer_poll(&mut t, json!({})) {
                    continue;
                }
            }
            let total2 = rng.range(1, (rx as u64).clamp(1, 4000)) as i64;
            let iss2 = rng.next() as u32;
            w.peer_iss = iss2;
            w.num = Numbering::default();
            w.num.iss[0] = Some(iss2);
            w.ep.written = 0;
            w.ep.read = 0;
            w.ep.closed_at = None;
            w.peer_fin = total2;
            w.now += 20_000;
            t.ev(json!({"ev":"reset","run":100_000 + run,"reuse_of":run,"world":"tcp_peer","src":"random","seed":seed0,"cfg":[{"rx":65535,"tx":65535,"mtu":mtu,"cc":0,"ad":-1,"nagle":false,"ts":false,"isn":iss2 as i64,"scripted":true},
                {"rx":rx,"tx":tx,"mtu":mtu,"cc":cfg.cc,"ad":cfg.ack_delay.map(|x| x as i64).unwrap_or(-1),"nagle":cfg.nagle,"ts":false,"isn":-1}], "peer_fin": total2, "listener": true}));
            w.api_listen(&mut t);
            let f = w.craft(0, None, 0, true, false, false, 60000, Some(1460), None);
            if !w.inject(f, &mut t, json!({})) {
                continue;
            }
            w.now += 1;
            let f = w.craft(1, Some(1), 0, false, false, false, 60000, None, None);
            if !w.inject(f, &mut t, json!({})) {
                continue;
            }
            // the new peer is honest: its stream in order, in small segments, the application reading along
            let mut nxt: i64 = 1;
            let mut ok = true;
            while ok && nxt <= total2 {
                let room = (rx as i64 - w.ep.post(w.now)["rq"].as_i64().unwrap()).max(0);
                let len = (rng.range(1, 40) as i64).min(total2 + 1 - nxt).min(room);
                w.now += 2;
                if len > 0 {
                    let last = nxt + len == total2 + 1;
                    if last {
                        t.ev(json!({"ev":"api","ep":0,"now":w.now,"call":"close","at":total2,"scripted":true}));
                    }
                    let f = w.craft(nxt, Some(1), len as usize, false, last, false, 60000, None, None);
                    ok = w.inject(f, &mut t, json!({}));
                    nxt += len;
                }
                w.api_recv(70000, &mut t);
            }
            for _ in 0..3 {
                w.now += 5;
                w.api_recv(70000, &mut t);
            }
        }
    }
    println!("{}", json!({"runs": runs, "events": t.finish()}));
}
