#!/usr/bin/env python3
"""Regenerates /verif/MANIFEST.json from the table below (kept valid against /root/.vp/MANIFEST.schema.json)."""
import json, os, sys
ROOT = os.path.dirname(os.path.dirname(os.path.abspath(__file__)))

CHECKS = {
    # id: (engine, technique, level category, level text, level note, design ref)
}
NOT_APPLICABLE = {
    "C06": "pure encode/decode fidelity of ~25 byte layouts: the oracle is the identity function, there is no state or transition for a TLA+ specification to decide; an honest check would be property-based testing, a different technique (DESIGN.md section 7)",
    "C07": "memory safety of accessor sets over all byte strings: fuzzing / bounded-model-checking territory without state or transitions to specify; only the DNS name-pointer walk is modelled (under C19) (DESIGN.md section 7)",
}
ENGINES = []


def load_table():
    p = os.path.join(ROOT, "bin", "manifest_table.json")
    t = json.load(open(p))
    return t


def main():
    t = load_table()
    props = [json.loads(l)["id"] for l in open(os.path.join(ROOT, "properties.jsonl"))]
    checks = []
    for pid in props:
        c = t["checks"].get(pid)
        if not c:
            continue
        checks.append({
            "property_id": pid,
            "quick_cmd": "bin/check %s --tier quick" % pid,
            "thorough_cmd": "bin/check %s --tier thorough" % pid,
            "evidence_file": "evidence/%s.json" % pid,
            "replay_cmd_template": "bin/check replay {path}",
            "engine": c["engine"],
            "technique": c["technique"],
            "level_claimed": {"category": c["level"], "text": c["text"], "design_ref": c["design_ref"]},
            "level_note": c["note"],
        })
    na = []
    for pid in props:
        if pid in t["checks"]:
            continue
        reason = t["not_applicable"].get(pid) or "not yet built in this tree: the TLA+ model, world driver and trace monitor for this property are still to come (DESIGN.md section 8a build order); no claim is made"
        na.append({"property_id": pid, "reason": reason})
    m = {
        "version": 1,
        "setup_cmd": "bin/check setup",
        "hooks": t["hooks"],
        "engines": t["engines"],
        "checks": checks,
        "not_applicable": na,
        "notes": t["notes"],
    }
    with open(os.path.join(ROOT, "MANIFEST.json"), "w") as f:
        json.dump(m, f, indent=1)
    try:
        import jsonschema
        jsonschema.validate(m, json.load(open("/root/.vp/MANIFEST.schema.json")))
        print("MANIFEST.json valid: %d checks, %d not_applicable" % (len(checks), len(na)))
    except ImportError:
        print("MANIFEST.json written (jsonschema not available)")


if __name__ == "__main__":
    main()
