"""C18 -- DHCPv4 client never uses an address beyond its lease."""
import json, os
from vlib.core import *

H = {"H1", "H2", "H3", "H4", "H5", "PANIC"}


def pm(v):
    d = {"rule": v["rule"]}
    if v["rule"] in ("H2", "H3", "Q1", "Q2", "H4") and v["p"]:
        d["why"] = v["p"][-1] if v["rule"] != "H4" else v["p"][0]
    return d


def dhcp_traces(tier, sd, tag):
    exe = build_harness()
    nf, runs = (4, 250) if tier == "quick" else (12, 1000)
    files = []
    for k in range(nf):
        tf = os.path.join(OUT, "traces", "dhcp.%s.%d.ndjson" % (tag, k))
        run_harness(exe, ["dhcp-random", "--seed", sd * 100 + k, "--runs", runs, "--out", tf])
        files.append(tf)
    return files


def run(tier, vd):
    sd = seed()
    cfgs = [{"DiscT": 4, "ReqT": 2, "ReqRetries": 2, "MinRenew": 2, "Leases": "{0,3,8}", "MaxTime": 14}]
    if tier == "thorough":
        cfgs.append({"DiscT": 3, "ReqT": 1, "ReqRetries": 3, "MinRenew": 1, "Leases": "{0,1,2,5,9}", "MaxTime": 16})
    for c in cfgs:
        c2 = dict(c)
        c2["DevAckBeforeReq"] = False
        r = tlc("Dhcp", write_cfg("Dhcp_c18", cfg_text(c2, ["H1", "H2", "H3"])), workers=8, tag="c18.mc", timeout=2400, collect=())
        if r.violated:
            raise ToolError("Dhcp model violates %s (log %s)" % (r.violated, r.log))
        vd.add_model("Dhcp %s" % json.dumps(c), r, "client phases, hostile server (type x xid x header x config x lease), loss, application event consumption")
    c2 = dict(cfgs[0])
    c2["DevAckBeforeReq"] = True
    r = tlc("Dhcp", write_cfg("DhcpNeg", cfg_text(c2, ["H1", "H2", "H3"])), workers=4, tag="c18.neg", timeout=600, collect=())
    vd.cov["models"].append({"model": "Dhcp negative control DevAckBeforeReq", "violated": r.violated})
    if r.violated != "H1":
        raise ToolError("negative control DevAckBeforeReq: expected H1 to fail, got %s" % r.violated)
    files = dhcp_traces(tier, sd, "c18")
    res = validate_traces("DhcpTrace", files, parallel=8)
    vd.add_validation(res)
    r2 = dict(res)
    r2["viol"] = [v for v in res["viol"] if v["rule"] in H]
    oth = {}
    for v in res["viol"]:
        if v["rule"] not in H:
            oth[v["rule"]] = oth.get(v["rule"], 0) + 1
    if oth:
        vd.cov["other_rule_hits"] = oth
    report_viols(vd, "C18", r2, {"seed": sd}, pm, lambda v: "%s %s" % (v["rule"], v["p"]))
    vd.cov["samples"].append({"kind": "dhcp world: discover / offer / request / ack, then renewal", "events": split_runs(files[0])[0][:8]})

    def mut(e):
        if e.get("ev") == "poll" and e.get("event") == "configured":
            for m in e.get("rx", []):
                if m.get("k") == "dhcp" and m.get("type") == 5:
                    m["xid"] += 1
            return True
        return False
    canary_check(vd, "DhcpTrace", files[0], mut, "H1", "c18.H1", max_runs=30)
    vd.cov["exhaustive"] = True
    vd.assumptions += ["the application applies every Configured/Deconfigured event to the interface", "leases of 10^6 s and more are treated as unbounded by the monitor (32-bit TLC integers)",
                       "the monitor extends the lease on every ACK it considers valid, so it is at most more permissive than the client"]


def replay(obj, vd):
    ev0 = obj["events"][0]
    exe = build_harness()
    tf = os.path.join(OUT, "traces", "dhcp.replay.ndjson")
    run_harness(exe, ["dhcp-random", "--seed", ev0["seed"], "--runs", ev0["run"] + 1, "--out", tf])
    runs = split_runs(tf)
    with open(tf, "w") as f:
        for e in runs[ev0["run"]]:
            f.write(json.dumps(e) + "\n")
    res = validate_traces("DhcpTrace", [tf], parallel=1)
    vd.add_validation(res)
    prop = obj.get("property", "C18")
    r2 = dict(res)
    if prop == "C08":
        r2["viol"] = [v for v in res["viol"] if v["rule"] in ("H1", "PANIC")]
    else:
        r2["viol"] = [v for v in res["viol"] if (v["rule"] in H) == (prop == "C18")]
    report_viols(vd, prop, r2, obj.get("ctx", {}), pm)
    vd.add_model("replay only", FakeTlc())
    vd.cov["samples"].append(split_runs(tf)[0][:8])
