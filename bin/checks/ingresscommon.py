"""The ingress decision table (Ingress.tla) enumerated by TLC, replayed row by row, judged by IngressTrace."""
import json, os
from vlib.core import *

RULESETS = {"C11": {"I1", "I2", "I3", "I4", "I5", "PANIC"}, "C10": {"E3", "K2", "PANIC"}, "C08": {"K2", "K3", "K4", "PANIC"}}


def table(vd, tag):
    rf = os.path.join(OUT, "sched", "ingress.%s.rows" % tag)
    r = tlc("Ingress", write_cfg("Ingress_" + tag, cfg_text({}, ["TableSane", "Export"])), workers=8, tag="ingress." + tag, timeout=900, tagged_file=rf)
    if r.violated:
        raise ToolError("Ingress table violates %s (log %s)" % (r.violated, r.log))
    vd.add_model("Ingress decision table", r, "medium x link destination x IP version x source class x destination class x protocol/port x corruption, enumerated completely")
    sf = os.path.join(OUT, "sched", "ingress.%s.sched" % tag)
    n = 0
    with open(sf, "w") as f:
        for l in open(rf):
            f.write(json.dumps(json.loads(l)["v"]) + "\n")
            n += 1
    exe = build_harness()
    tf = os.path.join(OUT, "traces", "ingress.%s.ndjson" % tag)
    run_harness(exe, ["ingress-replay", "--sched", sf, "--out", tf])
    log("[%s] %d table rows replayed on fresh interfaces" % (tag, n))
    return tf


def pm(v):
    p = v["p"]
    d = {"rule": v["rule"]}
    if len(p) >= 7:
        d.update({"m": p[0], "ld": p[1], "v": p[2], "s": p[3], "d": p[4], "p": p[5], "c": p[6]})
        d["loop6"] = (p[2] == 6 and (p[3] == "loop" or p[4] == "loop"))
    return d


def judge(vd, prop, tf, ctx):
    # the monitor keeps at most 60 violations per run, so split the table into chunks of 400 rows (one run each)
    runs = []
    ev = list(read_ndjson(tf))
    rows = [e for e in ev if e.get("ev") != "reset"]
    cf = tf + ".chunks"
    with open(cf, "w") as f:
        for i in range(0, len(rows), 50):
            f.write(json.dumps({"ev": "reset", "run": i // 50, "world": "ingress", "cfg": {"mtu": 1500}}) + "\n")
            for e in rows[i:i + 50]:
                f.write(json.dumps(e) + "\n")
    res = validate_traces("IngressTrace", [cf], parallel=1)
    vd.add_validation(res)
    r2 = dict(res)
    r2["viol"] = [v for v in res["viol"] if v["rule"] in RULESETS[prop]]
    oth = {}
    for v in res["viol"]:
        if v["rule"] not in RULESETS[prop]:
            oth[v["rule"]] = oth.get(v["rule"], 0) + 1
    if oth:
        vd.cov.setdefault("other_rule_hits", {}).update(oth)
    report_viols(vd, prop, r2, ctx, pm, lambda v: "%s row=%s" % (v["rule"], v["p"]), per_class=1)
    return res, cf


def replay(obj, vd, prop):
    rows = [e for e in obj["events"] if e.get("ev") == "row"]
    sf = os.path.join(OUT, "sched", "ingress.replay.sched")
    with open(sf, "w") as f:
        for e in rows:
            f.write(json.dumps({k: e[k] for k in ("m", "ld", "v", "s", "d", "p", "c")}) + "\n")
    exe = build_harness()
    tf = os.path.join(OUT, "traces", "ingress.replay.ndjson")
    run_harness(exe, ["ingress-replay", "--sched", sf, "--out", tf])
    judge(vd, prop, tf, obj.get("ctx", {}))
    vd.add_model("replay only", FakeTlc())
    vd.cov["samples"].append(list(read_ndjson(tf))[:4])
