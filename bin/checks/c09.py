"""C09 -- datagram sockets preserve message boundaries, order and addressing."""
from checks.netcommon import *


def run(tier, vd):
    sd = seed()
    for (nd, cap) in ([(3, 2)] if tier == "quick" else [(3, 2), (4, 2), (4, 3)]):
        c = {"Sockets": "{1,2}", "NDgrams": nd, "Cap": cap, "RxCap": 1, "DevDequeueFirst": False}
        r = tlc("Dgram", write_cfg("Dgram_c09", cfg_text(c, ["WireOrder", "NoLoss", "RxOnce"])), workers=8, tag="c09.mc", timeout=1200, collect=())
        if r.violated:
            raise ToolError("Dgram model violates %s (log %s)" % (r.violated, r.log))
        vd.add_model("Dgram sockets=2 datagrams=%d cap=%d" % (nd, cap), r, "dequeue only after a successful emit; egress outcomes emitted / neighbor pending / device exhausted")
    c = {"Sockets": "{1,2}", "NDgrams": 3, "Cap": 2, "RxCap": 1, "DevDequeueFirst": True}
    r = tlc("Dgram", write_cfg("DgramNeg", cfg_text(c, ["WireOrder", "NoLoss", "RxOnce"])), workers=4, tag="c09.neg", timeout=600, collect=())
    vd.cov["models"].append({"model": "Dgram negative control DevDequeueFirst", "violated": r.violated})
    if r.violated != "NoLoss":
        raise ToolError("negative control DevDequeueFirst: expected NoLoss to fail, got %s" % r.violated)
    files = neigh_traces(tier, sd, "c09")
    validate_report(vd, "C09", files, {"seed": sd})
    vd.cov["samples"].append({"kind": "neigh world: datagrams queued behind neighbor discovery, tiny ring capacities", "events": [e for e in split_runs(files[0])[1] if e.get("ev") == "api"][:10]})

    def mut(e):
        if e.get("ev") == "api" and e.get("call") == "recv" and e.get("err") == "none":
            e["size"] += 1
            return True
        return False
    canary_check(vd, "NeighTrace", files[0], mut, "D5", "c09.D5", max_runs=150)
    vd.cov["exhaustive"] = True
    vd.assumptions += ["UDP sockets over IPv4/Ethernet (ICMP and raw sockets share PacketBuffer and dequeue_with; their wire behaviour is covered by C12's echo traffic only)",
                       "D3 is demanded of a datagram only while every earlier datagram of the same socket was resolvable (queue order)",
                       "D5 delivery is mandatory only when the receive queue was empty and the datagram fits (C14's EmptyAccepts); otherwise either outcome is accepted"]


def replay(obj, vd):
    from checks.netcommon import replay as rp
    rp(obj, vd, "C09")
