"""C09 -- datagram sockets preserve message boundaries, order and addressing."""
import os
from checks.netcommon import *


def run(tier, vd):
    sd = seed()
    for (nd, cap) in ([(3, 2)] if tier == "quick" else [(3, 2), (4, 2), (4, 3)]):
        c = {"Sockets": "{1,2}", "NDgrams": nd, "Cap": cap, "RxCap": 1, "DevDequeueFirst": False}
        r = tlc("Dgram", write_cfg("Dgram_c09", cfg_text(c, ["WireOrder", "NoLoss", "RxOnce"])), workers=8, tag="c09.mc", timeout=1200, collect=())
        if r.violated:
            raise ToolError("Dgram model violates %s (log %s)" % (r.violated, r.log))
        vd.add_model("Dgram sockets=2 datagrams=%d cap=%d" % (nd, cap), r, "dequeue only after a successful emit; egress outcomes emitted / neighbor pending / device exhausted")
    c = {"Sockets": "{1,2}", "NDgrams": 3, "Cap": 2, "RxCap": 1, "DevDequeueFirst": True}
    r = tlc("Dgram", write_cfg("DgramNeg", cfg_text(c, ["WireOrder", "NoLoss", "RxOnce"])), workers=4, tag="c09.neg", timeout=600, collect=())
    vd.cov["models"].append({"model": "Dgram negative control DevDequeueFirst", "violated": r.violated})
    if r.violated != "NoLoss":
        raise ToolError("negative control DevDequeueFirst: expected NoLoss to fail, got %s" % r.violated)
    files = neigh_traces(tier, sd, "c09")
    validate_report(vd, "C09", files, {"seed": sd})
    vd.cov["samples"].append({"kind": "neigh world: datagrams queued behind neighbor discovery, tiny ring capacities", "events": [e for e in split_runs(files[0])[1] if e.get("ev") == "api"][:10]})

    # datagrams that need the fragmentation buffer (several sockets, back to back, sizes around the IP / link MTU, device
    # back-pressure): transmitted completely and exactly once (F5), unaltered (F2), delivered as sent (F3)
    exe = build_harness()
    ff = []
    for k in range(2 if tier == "quick" else 8):
        tf = os.path.join(OUT, "traces", "c09.frag.%d.ndjson" % k)
        run_harness(exe, ["frag-random", "--seed", sd * 100 + 30 + k, "--runs", 200 if tier == "quick" else 1000, "--out", tf])
        ff.append(tf)
    rf = validate_traces("FragTrace", ff, parallel=8)
    vd.add_validation(rf)
    rfb = dict(rf)
    rfb["viol"] = [v for v in rf["viol"] if v["rule"] in ("F2", "F3", "F5", "PANIC")]
    report_viols(vd, "C09", rfb, {"world": "frag", "seed": sd}, lambda v: {"rule": v["rule"], "world": "frag"}, lambda v: "frag %s %s" % (v["rule"], v["p"]))

    def mut(e):
        if e.get("ev") == "api" and e.get("call") == "recv" and e.get("err") == "none":
            e["size"] += 1
            return True
        return False
    canary_check(vd, "NeighTrace", files[0], mut, "D5", "c09.D5", max_runs=150)
    vd.cov["exhaustive"] = True
    vd.assumptions += ["UDP, ICMP (identifier-bound) and raw sockets over IPv4 / ARP and IPv6 / neighbour discovery on Ethernet; fragmented datagrams through the frag world (raw IP and Ethernet)",
                       "D3 is demanded of a datagram only while every earlier datagram of the same socket was resolvable (queue order)",
                       "D5 delivery is mandatory only when the receive queue was empty and the datagram fits (C14's EmptyAccepts); otherwise either outcome is accepted"]


def replay(obj, vd):
    if obj.get("ctx", {}).get("world") == "frag":
        from checks import c12
        c12.replay(obj, vd)
        return
    from checks.netcommon import replay as rp
    rp(obj, vd, "C09")
