"""C15 -- the reassembly tracker is an exact, bounded set of byte ranges."""
import json, os, copy
from vlib.core import *
from vlib import tour


def _write_cfg(name, u, n, edge=True):
    p = os.path.join(SPEC, name + ".cfg")
    with open(p, "w") as f:
        f.write("SPECIFICATION Spec\nCONSTANTS\n U = %d\n N = %d\nINVARIANT TypeOK\nINVARIANT Bounded\n"
                "PROPERTY RefusedUnchanged\nPROPERTY ZeroNeverRefused\nPROPERTY RefusalJustified\nVIEW View\n"
                "%sCHECK_DEADLOCK FALSE\n" % (u, n, "ACTION_CONSTRAINT Edge\n" if edge else ""))
    return name


def canary(trace_file, vd):
    """Corrupts one observation of a recorded trace; the monitor must report it."""
    runs = split_runs(trace_file)
    out = os.path.join(OUT, "traces", "c15.canary.ndjson")
    done = None
    with open(out, "w") as f:
        for r in runs[:50]:
            for e in r:
                if done is None and e.get("ev") == "op" and e.get("ok") and e.get("runs"):
                    e = copy.deepcopy(e)
                    e["runs"][-1][1] += 1      # claims one byte more than was inserted
                    done = "A3"
                f.write(json.dumps(e) + "\n")
    if done is None:
        raise ToolError("C15 canary: no suitable event found")
    res = validate_traces("AssemblerTrace", [out], parallel=1)
    rules = sorted({v["rule"] for v in res["viol"]})
    vd.cov["canary"] = {"corruption": "last reported range extended by one byte", "rules_reported": rules}
    if "A3" not in rules:
        raise ToolError("C15 canary not detected by AssemblerTrace (got %s)" % rules)


def run(tier, vd):
    sd = seed()
    configs = [(9, 4)] if tier == "quick" else [(11, 4), (9, 3), (7, 2), (5, 1)]
    rand_runs, rand_ops = (300, 200) if tier == "quick" else (3000, 300)
    first_trace = None
    for (u, n) in configs:
        exe = build_harness({"ASSEMBLER_MAX_SEGMENT_COUNT": n} if n != 4 else None)
        vd.cov["builds"].append("ASSEMBLER_MAX_SEGMENT_COUNT=%d" % n)
        cfg = _write_cfg("MCAssembler_gen", u, n)
        ef = os.path.join(OUT, "sched", "c15.u%dn%d.edges" % (u, n))
        r = tlc("MCAssembler", cfg, workers=8, tagged_file=ef, tag="c15.mc.u%dn%d" % (u, n), timeout=1500)
        if r.violated:
            # the contract model is the specification; a failure here is a specification error
            raise ToolError("MCAssembler violates %s (U=%d N=%d), log %s" % (r.violated, u, n, r.log))
        vd.add_model("MCAssembler U=%d N=%d" % (u, n), r, "all reachable tracker states, all ops and arguments")
        edges = tour.load_edges(ef)
        scheds, st = tour.build_tour(edges, init=[])
        sf = os.path.join(OUT, "sched", "c15.u%dn%d.sched" % (u, n))
        tour.write_schedules(scheds, sf)
        log("[C15] U=%d N=%d: %d states, %d edges -> %d schedules (%d steps, longest %d)" % (
            u, n, r.distinct, st["edges"], st["schedules"], st["steps"], st["longest"]))
        # split the replay into chunks validated in parallel
        nchunks = 8
        files = []
        for c in range(nchunks):
            part = scheds[c::nchunks]
            if not part:
                continue
            pf = sf + ".%d" % c
            tour.write_schedules(part, pf)
            tf = os.path.join(OUT, "traces", "c15.u%dn%d.%d.ndjson" % (u, n, c))
            run_harness(exe, ["asm-replay", "--sched", pf, "--n", n, "--out", tf])
            files.append(tf)
        rf = os.path.join(OUT, "traces", "c15.rand.n%d.ndjson" % n)
        run_harness(exe, ["asm-random", "--seed", sd, "--runs", rand_runs, "--ops", rand_ops, "--n", n,
                          "--u", max(2 * n + 3, 12), "--out", rf])
        files.append(rf)
        res = validate_traces("AssemblerTrace", files, parallel=8)
        vd.add_validation(res)
        _report(vd, res, {"n": n, "seed": sd})
        if first_trace is None:
            first_trace = files[0]
            vd.cov["samples"].append({"kind": "tlc schedule replayed on the real Assembler (first run of the tour)",
                                      "events": split_runs(files[0])[min(40, len(scheds) // 8 - 1)][:12]})
            vd.cov["samples"].append({"kind": "random run", "events": split_runs(rf)[0][:12]})
            vd.cov["exhaustive"] = True
    if tier == "thorough":
        # N = 32: exhaustive exploration needs U >= 65 (2^65 states); simulation-generated schedules + random runs
        n = 32
        exe = build_harness({"ASSEMBLER_MAX_SEGMENT_COUNT": n})
        vd.cov["builds"].append("ASSEMBLER_MAX_SEGMENT_COUNT=32")
        files = []
        for k in range(8):
            rf = os.path.join(OUT, "traces", "c15.rand.n32.%d.ndjson" % k)
            run_harness(exe, ["asm-random", "--seed", sd * 1000 + k, "--runs", 200, "--ops", 600, "--n", n,
                              "--u", 96, "--out", rf])
            files.append(rf)
        res = validate_traces("AssemblerTrace", files, parallel=8)
        vd.add_validation(res)
        _report(vd, res, {"n": n, "seed": sd})
    canary(first_trace, vd)
    vd.assumptions += ["offsets and sizes stay below 2^31 (TLC integers); usize overflow of offset+size is outside the bounded universe",
                       "harness logs peek_front/is_empty/iter_data faithfully"]


def _report(vd, res, ctx):
    seen = {}
    for v in res["viol"]:
        pm = {"rule": v["rule"], "op": v["p"][0] if v["p"] else None}
        k = (v["rule"], pm["op"])
        seen[k] = seen.get(k, 0) + 1
        if seen[k] > 3:          # a few replay files per (rule, op) class are enough
            vd.report({"rule": v["rule"], "pm": pm, "what": "(further occurrence)"}, "see-first-occurrence")
            continue
        rp = write_replay("C15", "%s-run%s" % (os.path.basename(v["file"]), v["run"]),
                          {"property": "C15", "trace_file": v["file"], "run": v["run"], "rule": v["rule"],
                           "line": v["line"], "params": v["p"], "ctx": ctx,
                           "events": _run_events(v["file"], v["run"])})
        vd.report({"rule": v["rule"], "pm": pm, "what": "op=%s args=%s" % (pm["op"], v["p"][1:])}, rp)


def _run_events(path, run):
    for r in split_runs(path):
        if r and r[0].get("run") == run:
            return r
    return []


def replay(obj, vd):
    """Re-executes the recorded operation sequence on the current tree and re-validates it."""
    n = obj["ctx"]["n"]
    exe = build_harness({"ASSEMBLER_MAX_SEGMENT_COUNT": n} if n != 4 else None)
    steps = [{"op": e["op"], "o": e.get("o", 0), "s": e.get("s", 0)} for e in obj["events"] if e.get("ev") in ("op", "panic")]
    sf = os.path.join(OUT, "sched", "c15.replay.sched")
    tour.write_schedules([steps], sf)
    tf = os.path.join(OUT, "traces", "c15.replay.ndjson")
    run_harness(exe, ["asm-replay", "--sched", sf, "--n", n, "--out", tf])
    res = validate_traces("AssemblerTrace", [tf], parallel=1)
    vd.add_validation(res)
    _report(vd, res, obj["ctx"])
    r = type("R", (), {"distinct": 1, "generated": 1, "wall": 0, "coverage": {}})()
    vd.add_model("replay only", r)
    vd.cov["samples"].append(split_runs(tf)[0][:20])
