"""C02 -- TCP makes progress when driven only by poll_at and arriving frames."""
from checks.tcpcommon import *


def run(tier, vd):
    sd = seed()
    mc_pair(vd, tier, ["DeadlineInv", "NoStall", "NoHang"], tag="c02")
    neg_controls(vd, ["DevRtoZeroWin", "DevFastIdle"] if tier == "quick" else ["DevRtoZeroWin", "DevFastIdle", "DevZwpStopInflight", "DevZwpKeepEmpty"])
    pf = pair_random(vd, tier, sd, "c02", pollat=True)
    sample(vd, pf, "poll_at-driven pair run: endpoints polled only on frame arrival, after API calls, or at their last poll_at")
    rf = peer_random(vd, tier, sd, "c02")
    validate_and_report(vd, "C02", pf + rf, {"seed": sd})
    tcp_canary(vd, "C02", pf[0], "L1")
    vd.cov["exhaustive"] = True
    vd.assumptions += ["horizon: 1 h of simulated time without any frame or application event counts as no progress",
                       "the adversarial phase of the link ends after a seeded instant; afterwards delivery is reliable and in order"]


def replay(obj, vd):
    replay_generic(obj, vd, "C02")
