"""C08 -- Internet checksums are computed correctly, emitted valid and enforced."""
import json, os
from vlib.core import *
from checks import ingresscommon, tcpcommon, netcommon


def run(tier, vd):
    sd = seed()
    maxlen = 5 if tier == "quick" else 6
    rf = os.path.join(OUT, "sched", "c08.vectors")
    r = tlc("Checksum", write_cfg("Checksum_c08", cfg_text({"MaxLen": maxlen, "Alphabet": "{0,1,127,128,255}"}, ["Agree", "Export"])), workers=8, tag="c08.mc", timeout=2400, tagged_file=rf)
    if r.violated:
        raise ToolError("Checksum model: unrolled routine differs from RFC 1071 (%s, log %s)" % (r.violated, r.log))
    vd.add_model("Checksum MaxLen=%d alphabet 5" % maxlen, r, "unrolled little-endian routine = RFC 1071 sum for every byte sequence")
    sf = os.path.join(OUT, "sched", "c08.sched")
    with open(sf, "w") as f:
        for l in open(rf):
            f.write(json.dumps(json.loads(l)["v"]) + "\n")
    exe = build_harness()
    tf = os.path.join(OUT, "traces", "c08.csum.ndjson")
    if tier == "quick":
        run_harness(exe, ["csum-replay", "--sched", sf, "--out", tf, "--seed", sd, "--maxlen", 2048, "--step", 7, "--sparse", 1500])
    else:
        run_harness(exe, ["csum-replay", "--sched", sf, "--out", tf, "--seed", sd, "--maxlen", 2048, "--step", 1, "--sparse", 20000])
    res = validate_traces("CsumTrace", [tf], parallel=1, timeout=3000)
    vd.add_validation(res)
    report_viols(vd, "C08", res, {"world": "csum", "seed": sd}, lambda v: {"rule": v["rule"], "kind": v["p"][0] if v["p"] else None}, lambda v: "K1 %s" % (v["p"],))
    vd.cov["samples"].append({"kind": "checksum::data on a TLC vector / dense / sparse buffer", "events": [e for e in read_ndjson(tf)][5:8]})
    # K3/K4: corrupted packets and zero UDP checksums in the ingress table; K2: every reply's checksums
    itf = ingresscommon.table(vd, "c08")
    ingresscommon.judge(vd, "C08", itf, {"world": "ingress"})
    # K2/K3 on TCP traffic with bit flips on the link
    pf = tcpcommon.pair_random(vd, "quick", sd, "c08", pollat=False)
    r2 = validate_traces("TcpTrace", pf, parallel=8, timeout=3000)
    vd.add_validation(r2)
    r2b = dict(r2)
    r2b["viol"] = [v for v in r2["viol"] if v["rule"] in ("K2", "K3", "PANIC")]
    report_viols(vd, "C08", r2b, {"world": "tcp_pair", "seed": sd}, lambda v: {"rule": v["rule"], "world": "tcp_pair"}, lambda v: "tcp_pair %s %s" % (v["rule"], v["p"]))

    # K2 on fragmented IPv4 traffic (first, middle and last fragments each carry their own header checksum)
    ff = []
    for k in range(2 if tier == "quick" else 8):
        tf2 = os.path.join(OUT, "traces", "c08.frag.%d.ndjson" % k)
        run_harness(exe, ["frag-random", "--seed", sd * 100 + 80 + k, "--runs", 150 if tier == "quick" else 1000, "--out", tf2])
        ff.append(tf2)
    r3 = validate_traces("FragTrace", ff, parallel=8)
    vd.add_validation(r3)
    r3b = dict(r3)
    r3b["viol"] = [v for v in r3["viol"] if v["rule"] in ("K2", "PANIC")]
    report_viols(vd, "C08", r3b, {"world": "frag", "seed": sd}, lambda v: {"rule": v["rule"], "world": "frag"}, lambda v: "frag %s %s" % (v["rule"], v["p"]))

    # K2 on datagram traffic: UDP / ICMP checksums of everything the neigh world's interface emits, including UDP datagrams
    # whose checksum computes to zero (the field must then carry 0xffff, over IPv4 and IPv6)
    nfz = netcommon.neigh_traces("quick", sd, "c08")
    r4 = validate_traces("NeighTrace", nfz, parallel=8)
    vd.add_validation(r4)
    r4b = dict(r4)
    r4b["viol"] = [v for v in r4["viol"] if v["rule"] in ("K2", "PANIC")]
    report_viols(vd, "C08", r4b, {"world": "neigh", "seed": sd}, lambda v: {"rule": v["rule"], "world": "neigh"}, lambda v: "neigh %s %s" % (v["rule"], v["p"]))

    # K3 on the DHCP client's own ingress path (it does not go through the UDP socket layer): replies damaged in transit
    # must not configure anything -- DhcpTrace H1 (a configuration only from an ACK that is valid, checksum included)
    from checks import c18
    dfz = c18.dhcp_traces("quick", sd, "c08")[:2]
    r5 = validate_traces("DhcpTrace", dfz, parallel=4)
    vd.add_validation(r5)
    r5b = dict(r5)
    r5b["viol"] = [v for v in r5["viol"] if v["rule"] in ("H1", "PANIC")]
    report_viols(vd, "C08", r5b, {"world": "dhcp", "seed": sd}, lambda v: {"rule": v["rule"], "world": "dhcp"}, lambda v: "dhcp %s %s" % (v["rule"], v["p"]))

    def mut(e):
        if e.get("ev") == "csum" and e.get("len", 0) > 3:
            e["res"] = (e["res"] + 1) % 65536
            return True
        return False
    canary_check(vd, "CsumTrace", tf, mut, "K1", "c08.K1", max_runs=1)
    vd.cov["exhaustive"] = True
    vd.assumptions += ["checksum capabilities: default (compute and verify everything), except every eighth run of the neigh world, whose device takes over the IPv4 header checksum on transmit; other offload settings are not varied", "dense inputs up to 2048 bytes, sparse inputs (<= 4 non-zero bytes) up to 65535 bytes"]


def replay(obj, vd):
    w = obj.get("ctx", {}).get("world")
    if w == "ingress":
        ingresscommon.replay(obj, vd, "C08")
    elif w == "tcp_pair":
        tcpcommon.replay_generic(obj, vd, "C08")
    elif w == "frag":
        from checks import c12
        c12.replay(obj, vd)
    elif w == "neigh":
        netcommon.replay(obj, vd, "C08")
    elif w == "dhcp":
        from checks import c18
        c18.replay(obj, vd)
    else:
        raise ToolError("re-run bin/check C08 (checksum vectors are regenerated deterministically from the seed)")
