"""C01 -- TCP delivers the peer's byte stream intact, in order, exactly once."""
from checks.tcpcommon import *


def run(tier, vd):
    sd = seed()
    mc_pair(vd, tier, ["RecvSafe", "FinSafe", "StreamSafe", "NoHang"], tag="c01")
    neg_controls(vd, ["DevFinTrim"])
    pf = pair_random(vd, tier, sd, "c01", pollat=False)
    sample(vd, pf, "two real endpoints, adversarial link (drop/dup/delay/reorder/bit-flip), ISNs near 2^31 / 2^32")
    validate_and_report(vd, "C01", pf, {"seed": sd})
    tcp_canary(vd, "C01", pf[0], "P1")
    vd.cov["exhaustive"] = True
    vd.assumptions += ["application bytes are position-coded; the harness reports the first differing index of every delivered chunk",
                       "TcpModel bounds: 2-3 bytes, MSS 1, one drop, one spurious timeout (exhaustive); larger transfers are randomized"]


def replay(obj, vd):
    replay_generic(obj, vd, "C01")
