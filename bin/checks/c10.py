"""C10 -- every transmitted frame is well-formed, fits the MTU and has a legal source."""
import json, os
from vlib.core import *
from checks import ingresscommon, tcpcommon, netcommon


def run(tier, vd):
    sd = seed()
    # replies to every row of the ingress table: legal source (E3), checksums / structure (K2 = E1)
    itf = ingresscommon.table(vd, "c10")
    ingresscommon.judge(vd, "C10", itf, {"world": "ingress"})
    # Ethernet world: frame size (E2), source addresses of ARP and IP frames (E3), UDP / ICMP checksums of what it emits (K2)
    nf = netcommon.neigh_traces("quick", sd, "c10")
    res = validate_traces("NeighTrace", nf, parallel=8)
    vd.add_validation(res)
    r2 = dict(res)
    r2["viol"] = [v for v in res["viol"] if v["rule"] in ("E2", "E3", "K2", "PANIC")]
    report_viols(vd, "C10", r2, {"world": "neigh", "seed": sd}, lambda v: {"rule": v["rule"], "world": "neigh"}, lambda v: "neigh %s %s" % (v["rule"], v["p"]))
    # TCP worlds: every segment well-formed with valid checksums (K2), within the MTU (S2)
    pf = tcpcommon.pair_random(vd, "quick", sd, "c10", pollat=False) + tcpcommon.peer_random(vd, "quick", sd, "c10")
    r3 = validate_traces("TcpTrace", pf, parallel=8, timeout=3000)
    vd.add_validation(r3)
    r3b = dict(r3)
    r3b["viol"] = [v for v in r3["viol"] if v["rule"] in ("K2", "S2", "PANIC")]
    report_viols(vd, "C10", r3b, {"world": "tcp", "seed": sd}, lambda v: {"rule": v["rule"], "world": "tcp"}, lambda v: "tcp %s %s" % (v["rule"], v["p"]))
    # fragmenting world: every fragment fits the MTU and non-final fragments carry a multiple of 8 octets (F1), parses (F2 unparsed)
    exe = build_harness()
    ff = []
    for k in range(2 if tier == "quick" else 8):
        tf = os.path.join(OUT, "traces", "c10.frag.%d.ndjson" % k)
        run_harness(exe, ["frag-random", "--seed", sd * 100 + 50 + k, "--runs", 150 if tier == "quick" else 1000, "--out", tf])
        ff.append(tf)
    r4 = validate_traces("FragTrace", ff, parallel=8)
    vd.add_validation(r4)
    r4b = dict(r4)
    r4b["viol"] = [v for v in r4["viol"] if v["rule"] in ("F1", "K2", "PANIC") or (v["rule"] == "F2" and "unparsed" in v["p"])]
    report_viols(vd, "C10", r4b, {"world": "frag", "seed": sd}, lambda v: {"rule": v["rule"], "world": "frag"}, lambda v: "frag %s %s" % (v["rule"], v["p"]))
    # IEEE 802.15.4: the neighbour solicitations / advertisements the two interfaces of the lowpan world exchange are read
    # by an independent IPHC-length decoder and their option lists must tile the message (W6)
    from checks import c20
    lrf = c20.scenarios(vd, "c10")
    ltf = os.path.join(OUT, "traces", "lowpan.c10.ndjson")
    run_harness(exe, ["lowpan-replay", "--sched", lrf, "--out", ltf])
    r5 = validate_traces("LowpanTrace", [ltf], parallel=1)
    vd.add_validation(r5)
    if not r5["hits"].get("W6"):
        raise ToolError("lowpan world: no neighbour-discovery message was seen (W6 never exercised)")
    # ... and a one-frame UDP datagram to a multicast group (scopes and group identifiers around the compressed forms)
    # must tile its frame: MAC header, IPHC, NHC UDP, payload (W7)
    if not r5["hits"].get("W7"):
        raise ToolError("lowpan world: no multicast datagram was read (W7 never exercised)")
    r5b = dict(r5)
    r5b["viol"] = [v for v in r5["viol"] if v["rule"] in ("W6", "W7", "PANIC")]
    report_viols(vd, "C10", r5b, {"world": "lowpan"}, lambda v: {"rule": v["rule"], "world": "lowpan"}, lambda v: "lowpan %s %s" % (v["rule"], v["p"]), per_class=1)
    vd.cov["samples"].append({"kind": "ingress row with reply frames (source ownership, well-formedness flags from the independent parser)", "events": [e for e in read_ndjson(itf) if e.get("ev") == "row" and e.get("out")][:3]})

    def mut(e):
        if e.get("ev") == "row" and e.get("out"):
            for o in e["out"]:
                if "src_own" in o and o["kind"] not in ("ndisc", "mld", "igmp"):
                    o["src_own"] = False
                    return True
        return False
    canary_check(vd, "IngressTrace", itf, mut, "E3", "c10.E3", max_runs=1)
    vd.cov["exhaustive"] = True
    vd.assumptions += ["structural well-formedness (E1) is decided by the independent parser of the harness (length fields consistent, option lists terminated, checksums) and only aggregated by the monitors",
                       "IPv4 fragment sizes and alignment are judged here with FragTrace's rule F1 (also part of C12), 802.15.4 frame sizes are C20's rule W2; DHCP / MLD frames with the unspecified source are exempt as the statement says"]


def replay(obj, vd):
    w = obj.get("ctx", {}).get("world")
    if w == "ingress":
        ingresscommon.replay(obj, vd, "C10")
    elif w == "neigh":
        netcommon.replay(obj, vd, "C10")
    elif w == "lowpan":
        from checks import c20
        obj["property"] = "C10"
        c20.replay(obj, vd)
    elif w == "frag":
        from checks import c12
        c12.replay(obj, vd)
    else:
        tcpcommon.replay_generic(obj, vd, "C10")
