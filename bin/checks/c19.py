"""C19 -- DNS answers are only taken from matching responses; queries terminate."""
import json, os
from vlib.core import *


def pm(v):
    return {"rule": v["rule"]}


def run(tier, vd):
    sd = seed()
    for servers in ((1, 2) if tier == "quick" else (1, 2, 4)):
        r = tlc("Dns", write_cfg("Dns_c19", cfg_text({"Servers": servers, "MaxT": 30 * servers + 10, "DevAcceptAnyId": False}, ["Provenance", "Bounded", "Spacing"])), workers=4, tag="c19.mc", timeout=600, collect=())
        if r.violated:
            raise ToolError("Dns model violates %s (log %s)" % (r.violated, r.log))
        vd.add_model("Dns servers=%d" % servers, r, "pending-query machine: retransmit back-off 1..10 s, per-server timeout, fail-over; matching / non-matching responses")
    r = tlc("Dns", write_cfg("DnsNeg", cfg_text({"Servers": 1, "MaxT": 30, "DevAcceptAnyId": True}, ["Provenance"])), workers=2, tag="c19.neg", timeout=600, collect=())
    vd.cov["models"].append({"model": "Dns negative control DevAcceptAnyId", "violated": r.violated})
    if r.violated != "Provenance":
        raise ToolError("negative control DevAcceptAnyId: expected Provenance to fail, got %s" % r.violated)
    # name decompression: every byte array up to MaxLen over the alphabet, every start offset
    maxlen = 4 if tier == "quick" else 5
    rf = os.path.join(OUT, "sched", "c19.names.replay")
    r = tlc("DnsName", write_cfg("DnsName_c19", cfg_text({"MaxLen": maxlen, "Alphabet": "{0,1,2,3,64,97,192,193}"}, ["Terminates", "Export"])), workers=8, tag="c19.names", timeout=2400, tagged_file=rf)
    if r.violated:
        raise ToolError("DnsName model violates %s (log %s)" % (r.violated, r.log))
    vd.add_model("DnsName MaxLen=%d alphabet 8" % maxlen, r, "every byte array and start offset: the walk terminates; results exported")
    exe = build_harness()
    sf = os.path.join(OUT, "sched", "c19.names.sched")
    n = 0
    with open(sf, "w") as f:
        for l in open(rf):
            f.write(json.dumps({"buf": json.loads(l)["v"]["buf"]}) + "\n")
            n += 1
    nf = os.path.join(OUT, "traces", "c19.names.ndjson")
    run_harness(exe, ["dnsname-replay", "--sched", sf, "--out", nf])
    log("[C19] %d byte arrays replayed on wire::DnsPacket::parse_name" % n)
    files = [nf]
    builds = [(None, 1)] if tier == "quick" else [(None, 1), ({"DNS_MAX_SERVER_COUNT": 4}, 4), ({"DNS_MAX_SERVER_COUNT": 2}, 2)]
    for (b, ns) in builds:
        ex = build_harness(b)
        for k in range(4 if tier == "quick" else 8):
            tf = os.path.join(OUT, "traces", "c19.dns.%d.%d.ndjson" % (ns, k))
            run_harness(ex, ["dns-random", "--seed", sd * 100 + k, "--runs", 300 if tier == "quick" else 1000, "--servers", ns, "--out", tf])
            files.append(tf)
    res = validate_traces("DnsTrace", files, parallel=8)
    vd.add_validation(res)
    res = dict(res)
    res["viol"] = [v for v in res["viol"] if v["rule"] not in ("Q1", "Q2")]     # the wake-up schedule is C13's
    report_viols(vd, "C19", res, {"seed": sd}, pm, lambda v: "%s %s" % (v["rule"], v["p"]))
    vd.cov["samples"].append({"kind": "dns world: query, hostile / honest responses, result", "events": split_runs(files[1])[0][:6]})
    vd.cov["samples"].append({"kind": "name walk case", "events": list(read_ndjson(nf))[200:203]})

    def mut(e):
        if e.get("ev") == "poll" and e.get("results") and e["results"][0].get("res") == "ok":
            for m in e.get("rx", []):
                if m.get("k") == "resp":
                    m["id"] = (m.get("id", 0) + 1) % 65536
            return True
        return False
    canary_check(vd, "DnsTrace", files[1], mut, "Z1", "c19.Z1", max_runs=40)
    vd.cov["exhaustive"] = True
    vd.assumptions += ["A queries over IPv4 on a raw-IP interface; mDNS responses (port 5353) are accepted from any source by design of the statement",
                       "a response the independent parser cannot read completely contributes only the records read so far to the allowed address set"]


def replay(obj, vd):
    ev0 = obj["events"][0]
    exe = build_harness()
    tf = os.path.join(OUT, "traces", "c19.replay.ndjson")
    if ev0.get("world") == "dns":
        run_harness(exe, ["dns-random", "--seed", ev0["seed"], "--runs", ev0["run"] + 1, "--servers", ev0["cfg"]["servers"], "--out", tf])
        runs = split_runs(tf)
        with open(tf, "w") as f:
            for e in runs[ev0["run"]]:
                f.write(json.dumps(e) + "\n")
    else:
        sf = os.path.join(OUT, "sched", "c19.replay.sched")
        with open(sf, "w") as f:
            for e in obj["events"]:
                if e.get("ev") == "name":
                    f.write(json.dumps({"buf": e["buf"]}) + "\n")
        run_harness(exe, ["dnsname-replay", "--sched", sf, "--out", tf])
    res = validate_traces("DnsTrace", [tf], parallel=1)
    vd.add_validation(res)
    report_viols(vd, "C19", res, obj.get("ctx", {}), pm)
    vd.add_model("replay only", FakeTlc())
    vd.cov["samples"].append(split_runs(tf)[0][:6])
