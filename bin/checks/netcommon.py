"""Shared pieces of the checks that use the `neigh` world (C09, C16) -- and rule sets of NeighTrace."""
import json, os
from vlib.core import *

RULESETS = {"C16": {"N1", "N2", "N3", "N4", "PANIC"}, "C09": {"D1", "D2", "D3", "D4", "D5", "D6", "PANIC"}, "C10": {"E2", "E3", "K2", "PANIC"}, "C13": {"Q2", "PANIC"}, "C08": {"K2", "PANIC"}}


def neigh_traces(tier, sd, tag, builds=(None,)):
    files = []
    nf, runs = (4, 400) if tier == "quick" else (12, 1200)
    for bi, b in enumerate(builds):
        exe = build_harness(b)
        cache = (b or {}).get("IFACE_NEIGHBOR_CACHE_COUNT", 8)
        for k in range(nf if bi == 0 else max(2, nf // 3)):
            tf = os.path.join(OUT, "traces", "neigh.%s.%d.%d.ndjson" % (tag, bi, k))
            run_harness(exe, ["neigh-random", "--seed", sd * 1000 + bi * 100 + k, "--runs", runs, "--cache", cache, "--out", tf])
            files.append(tf)
    return files


def pm(v):
    p = v["p"]
    d = {"rule": v["rule"]}
    if v["rule"] == "D3" and len(p) >= 4:
        d.update({"target": p[2], "other": p[3]})
    if v["rule"] == "N1" and len(p) >= 3:
        d.update({"why": p[2]})
    if v["rule"] == "D5" and len(p) >= 2:
        d.update({"why": p[1]})
    return d


def validate_report(vd, prop, files, ctx):
    res = validate_traces("NeighTrace", files, parallel=8, timeout=3000)
    vd.add_validation(res)
    mine = [v for v in res["viol"] if v["rule"] in RULESETS[prop]]
    other = {}
    for v in res["viol"]:
        if v["rule"] not in RULESETS[prop]:
            other[v["rule"]] = other.get(v["rule"], 0) + 1
    if other:
        vd.cov["other_rule_hits"] = other
        log("[%s] note: rules of other properties fired on these traces: %s" % (prop, other))
    r2 = dict(res)
    r2["viol"] = mine
    report_viols(vd, prop, r2, ctx, pm, lambda v: "%s %s" % (v["rule"], v["p"]))
    return res


def replay(obj, vd, prop):
    ev0 = obj["events"][0]
    exe = build_harness(obj.get("ctx", {}).get("build"))
    tf = os.path.join(OUT, "traces", "neigh.replay.ndjson")
    run_harness(exe, ["neigh-random", "--seed", ev0["seed"], "--runs", ev0["run"] + 1, "--cache", ev0["cfg"]["cache"], "--out", tf])
    runs = split_runs(tf)
    with open(tf, "w") as f:
        for e in runs[ev0["run"]]:
            f.write(json.dumps(e) + "\n")
    validate_report(vd, prop, [tf], obj.get("ctx", {}))
    vd.add_model("replay only", FakeTlc())
    vd.cov["samples"].append(split_runs(tf)[0][:8])
