"""C04 -- a TCP receiver accepts exactly the in-window, in-sequence bytes of any peer."""
from checks.tcpcommon import *


def run(tier, vd):
    sd = seed()
    files = peer_mc_replay(vd, tier, "c04")
    sample(vd, files, "TLC schedule (MCTcpPeer edge tour) replayed on a real listening socket")
    neg_controls(vd, ["DevFinTrim"] if tier == "quick" else ["DevFinTrim", "DevZwpKeepEmpty"])
    rf = peer_random(vd, tier, sd, "c04")
    sample(vd, rf, "seeded hostile-but-consistent peer")
    pf = pair_random(vd, tier, sd, "c04", pollat=False)
    validate_and_report(vd, "C04", files + rf + pf, {"seed": sd})
    tcp_canary(vd, "C04", rf[0], "R3")
    vd.cov["exhaustive"] = True
    vd.assumptions += ["sequence numbers in traces are relative to the ISNs seen in the SYNs (wrapping i32 subtraction in the harness)",
                       "max_burst_size = None; FIN at exactly the advertised right edge counts as inside the window",
                       "TcpModel simplifications: no delayed ACK, window scale 0, controller None (the random worlds vary all of them)"]


def replay(obj, vd):
    replay_generic(obj, vd, "C04")
