"""C20 -- 6LoWPAN compression and fragmentation are lossless."""
import json, os
from vlib.core import *

RULES = {"W1", "W2", "W3", "W4", "W5", "PANIC"}


def scenarios(vd, tag):
    rf = os.path.join(OUT, "sched", "lowpan.%s.replay" % tag)
    r = tlc("Lowpan", write_cfg("Lowpan_" + tag, cfg_text({}, ["Export"])), workers=8, tag="lowpan." + tag, timeout=900, tagged_file=rf)
    if r.violated:
        raise ToolError("Lowpan scenario enumeration failed: %s (log %s)" % (r.violated, r.log))
    vd.add_model("Lowpan scenario space", r, "upper protocol x address class x UDP port class x size x hop limit x fragment order x back-to-back count between two interfaces, and IPHC source x destination x link-layer context x hop limit x next header at wire level, enumerated completely")
    return rf


def pm(v):
    p = v["p"]
    d = {"rule": v["rule"]}
    if v["rule"] == "W5" and len(p) >= 7:
        d.update({"s": p[0], "d": p[1], "ls": p[2], "ld": p[3], "h": p[4], "nh": p[5], "why": p[6]})
    elif len(p) >= 6:
        d.update({"u": p[0], "a": p[1], "p": p[2], "z": p[3], "h": p[4], "o": p[5]})
    return d


def judge(vd, tf, ctx, prop="C20", rules=None):
    res = validate_traces("LowpanTrace", [tf], parallel=1)
    vd.add_validation(res)
    res = dict(res)
    res["viol"] = [v for v in res["viol"] if v["rule"] in (rules or RULES)]  # W6 (neighbour-discovery option lists) is C10's
    report_viols(vd, prop, res, ctx, pm, lambda v: "%s scenario=%s" % (v["rule"], v["p"]), per_class=1)
    return res


def run(tier, vd):
    rf = scenarios(vd, "c20")
    exe = build_harness()
    tf = os.path.join(OUT, "traces", "lowpan.c20.ndjson")
    run_harness(exe, ["lowpan-replay", "--sched", rf, "--out", tf])
    res = judge(vd, tf, {})
    ev = list(read_ndjson(tf))
    vd.cov["samples"].append({"kind": "scenario outcomes", "events": [e for e in ev if e.get("ev") == "scn"][900:902] + [e for e in ev if e.get("ev") == "iphc"][5000:5002]})
    vd.cov["delivered"] = {"scn": sum(1 for e in ev if e.get("ev") == "scn"), "scn_all_delivered": sum(1 for e in ev if e.get("ev") == "scn" and len(e["got"]) >= e["s"]["n"]),
                           "iphc": sum(1 for e in ev if e.get("ev") == "iphc"), "fragmented": sum(1 for e in ev if e.get("ev") == "scn" and e["nfrag_first"] > 1)}

    def mut(e):
        if e.get("ev") == "scn" and e["got"] and e["s"]["z"] >= 40:
            e["got"][0]["diff"] = 7
            return True
        return False
    canary_check(vd, "LowpanTrace", tf, mut, "W1", "c20.W1", max_runs=40)

    def mut5(e):
        if e.get("ev") == "iphc" and e["s"]["d"] == "mc-32":
            e["ok"] = False
            e["why"] = "dst"
            return True
        return False
    # the iphc rows come after the interface scenarios: take a slice of the trace that contains some
    sl = os.path.join(OUT, "traces", "lowpan.c20.iphc-slice.ndjson")
    with open(sl, "w") as f:
        f.write(json.dumps({"ev": "reset", "run": 0, "world": "lowpan"}) + "\n")
        # (rows the canary can mutate must be among them, wherever the enumeration order puts them)
        iph = [e for e in ev if e.get("ev") == "iphc"]
        for e in iph[:250] + [e for e in iph[250:] if e["s"]["d"] == "mc-32"][:50]:
            f.write(json.dumps(e) + "\n")
    canary_check(vd, "LowpanTrace", sl, mut5, "W5", "c20.W5", max_runs=5)
    vd.cov["exhaustive"] = True
    vd.assumptions += ["two interfaces with extended link addresses (neighbour discovery does not carry short link addresses; short link-layer contexts are covered at the IPHC wire level)",
                       "stateless compression only: the stack never emits context-based (CID) forms, so contexts have no sender to round-trip with",
                       "fragment orders: in order, reversed, first duplicated, last two swapped, one dropped; the reassembler tracks one datagram at a time (REASSEMBLY_BUFFER_COUNT = 1)",
                       "frame budget 125 octets; FRAGMENTATION_BUFFER_SIZE 1500"]


def replay(obj, vd):
    rows = [e["s"] for e in obj["events"] if e.get("ev") in ("scn", "iphc", "panic") and "s" in e]
    sf = os.path.join(OUT, "sched", "lowpan.replay.sched")
    with open(sf, "w") as f:
        for s in rows:
            f.write(json.dumps(s) + "\n")
    exe = build_harness()
    tf = os.path.join(OUT, "traces", "lowpan.replay.ndjson")
    run_harness(exe, ["lowpan-replay", "--sched", sf, "--out", tf])
    if obj.get("property") == "C10":
        judge(vd, tf, obj.get("ctx", {}), "C10", {"W6", "PANIC"})
    else:
        judge(vd, tf, obj.get("ctx", {}))
    vd.add_model("replay only", FakeTlc())
    vd.cov["samples"].append(list(read_ndjson(tf))[:4])
