"""C14 -- ring and packet buffers are faithful bounded FIFO queues."""
import json, os
from vlib.core import *
from vlib import tour

RING_INV = ["Refines", "NoBad", "Bounded"]
PKT_INV = ["NoBad", "NoPanic", "Bounded", "Refines"]


def ring_part(tier, vd, exe, sd):
    caps = [(0, 2), (1, 3), (2, 4), (3, 3)] if tier == "quick" else [(0, 2), (1, 3), (2, 4), (3, 5), (4, 5)]
    files = []
    for (c, t) in caps:
        cfg = write_cfg("RingModel", cfg_text({"C": c, "T": t}, RING_INV, view="View", edge="Edge"))
        ef = os.path.join(OUT, "sched", "c14.ring.c%d.edges" % c)
        r = tlc("RingModel", cfg, workers=8, tagged_file=ef, tag="c14.ring.c%d" % c, timeout=1500)
        if r.violated:
            raise ToolError("RingModel (the transcribed algorithm) does not refine RingContract: %s C=%d (log %s)" % (r.violated, c, r.log))
        vd.add_model("RingModel C=%d T=%d" % (c, t), r, "read_at/length algorithm refines the queue contract; all transitions exported")
        scheds, st = tour.build_tour(tour.load_edges(ef))
        log("[C14] ring C=%d: %d states, %d edges -> %d schedules, %d steps" % (c, r.distinct, st["edges"], st.get("schedules", 0), st.get("steps", 0)))
        files += chunked_replay(exe, ["ring-replay", "--cap", c], scheds, "c14.ring.c%d" % c, nchunks=4 if c < 3 else 8)
    rruns, rops, maxcap = (300, 300, 24) if tier == "quick" else (1500, 1000, 64)
    nf = 1 if tier == "quick" else 8
    for k in range(nf):
        rf = os.path.join(OUT, "traces", "c14.ring.rand.%d.ndjson" % k)
        run_harness(exe, ["ring-random", "--seed", sd * 100 + k, "--runs", rruns, "--ops", rops, "--maxcap", maxcap, "--out", rf])
        files.append(rf)
    res = validate_traces("RingTrace", files, parallel=8)
    vd.add_validation(res)
    vd.cov["model_drift"] += res["stats"].get("drift", 0)
    report_viols(vd, "C14", res, {"part": "ring", "seed": sd},
                 lambda v: {"part": "ring", "op": v["p"][0] if v["p"] else None},
                 lambda v: "ring op=%s n=%s off=%s k=%s" % tuple((v["p"] + [None] * 4)[:4]))
    vd.cov["samples"].append({"kind": "ring: TLC schedule replayed on RingBuffer<u32>", "events": split_runs(files[-2 if nf == 1 else 0])[-1][:10]})
    vd.cov["samples"].append({"kind": "ring: random run", "events": split_runs(files[-1])[0][:10]})

    def corrupt(e):
        if e.get("ev") == "op" and e.get("op", "").startswith("dequeue") and e.get("k", 0) >= 1 and e.get("err") == "none":
            e["data"][0] += 1
            return True
        return False
    canary_check(vd, "RingTrace", files[-1], corrupt, "B1", "c14.ring")


def pkt_part(tier, vd, exe, sd):
    cfgs = [(0, 2, 3), (1, 3, 5), (2, 4, 6)] if tier == "quick" else [(0, 2, 3), (1, 3, 6), (2, 4, 8), (3, 5, 8), (2, 6, 9)]
    files = []
    for (m, p, t) in cfgs:
        cfg = write_cfg("PacketModel", cfg_text({"M": m, "P": p, "T": t, "DevInfNoClear": False, "DevStalePadding": False},
                                                PKT_INV, view="View", edge="Edge"))
        ef = os.path.join(OUT, "sched", "c14.pkt.m%dp%d.edges" % (m, p))
        r = tlc("PacketModel", cfg, workers=8, tagged_file=ef, tag="c14.pkt.m%dp%d" % (m, p), timeout=1500)
        if r.violated:
            raise ToolError("PacketModel (transcribed algorithm) violates %s at M=%d P=%d (log %s)" % (r.violated, m, p, r.log))
        vd.add_model("PacketModel M=%d P=%d T=%d" % (m, p, t), r, "padding algorithm refines the (header,payload) queue contract")
        scheds, st = tour.build_tour(tour.load_edges(ef))
        log("[C14] packet M=%d P=%d: %d states, %d edges -> %d schedules, %d steps" % (m, p, r.distinct, st["edges"], st.get("schedules", 0), st.get("steps", 0)))
        files += chunked_replay(exe, ["pbuf-replay", "--m", m, "--p", p], scheds, "c14.pkt.m%dp%d" % (m, p), nchunks=4)
    # negative controls: the model of the code before the two fixes must break the contract (non-vacuity)
    for dev in ("DevInfNoClear", "DevStalePadding"):
        c = {"M": 2, "P": 4, "T": 7, "DevInfNoClear": False, "DevStalePadding": False}
        c[dev] = True
        r = tlc("PacketModel", write_cfg("PacketModelNeg", cfg_text(c, PKT_INV, view="View")), workers=4, tag="c14.pkt.neg." + dev)
        vd.cov["models"].append({"model": "PacketModel negative control " + dev, "violated": r.violated, "distinct_states": r.distinct})
        if r.violated != "NoBad":
            raise ToolError("negative control %s: expected NoBad to fail, got %s" % (dev, r.violated))
    rruns, rops = (300, 300) if tier == "quick" else (1500, 1000)
    nf = 1 if tier == "quick" else 8
    for k in range(nf):
        rf = os.path.join(OUT, "traces", "c14.pkt.rand.%d.ndjson" % k)
        run_harness(exe, ["pbuf-random", "--seed", sd * 100 + k, "--runs", rruns, "--ops", rops, "--out", rf])
        files.append(rf)
    res = validate_traces("PacketTrace", files, parallel=8)
    vd.add_validation(res)
    report_viols(vd, "C14", res, {"part": "packet", "seed": sd},
                 lambda v: {"part": "packet", "op": v["p"][0] if v["p"] else None, "queue": v["p"][3] if len(v["p"]) > 3 else None},
                 lambda v: "packet op=%s size=%s err=%s queue=%s" % tuple((v["p"] + [None] * 4)[:4]))
    vd.cov["samples"].append({"kind": "packet: random run", "events": split_runs(files[-1])[0][:10]})

    def corrupt(e):
        if e.get("ev") == "op" and e.get("op") == "dequeue" and e.get("err") == "none":
            e["h"] += 1
            return True
        return False
    canary_check(vd, "PacketTrace", files[-1], corrupt, "B1", "c14.packet")


def run(tier, vd):
    sd = seed()
    exe = build_harness()
    ring_part(tier, vd, exe, sd)
    pkt_part(tier, vd, exe, sd)
    vd.cov["exhaustive"] = True
    vd.assumptions += ["PacketBuffer::reset is pub(crate) and is not exercised", "enqueue_unallocated / dequeue_allocated only called within their documented preconditions (count <= window / len)",
                       "elements are fresh tokens; a contiguous call may hand out fewer elements than available (counted as model_drift against the reference model, not judged)"]


def replay(obj, vd):
    exe = build_harness()
    ev = [e for e in obj["events"] if e.get("ev") in ("op", "panic")]
    rs = obj["events"][0]
    sf = os.path.join(OUT, "sched", "c14.replay.sched")
    tf = os.path.join(OUT, "traces", "c14.replay.ndjson")
    if obj["ctx"]["part"] == "ring":
        tour.write_schedules([[{"op": e["op"], "n": e.get("n", 0), "off": e.get("off", 0), "decline": e.get("decline", False), "k": e.get("k", 0)} for e in ev]], sf)
        run_harness(exe, ["ring-replay", "--cap", rs["C"], "--sched", sf, "--out", tf])
        res = validate_traces("RingTrace", [tf], parallel=1)
        pm = lambda v: {"part": "ring", "op": v["p"][0] if v["p"] else None}
    else:
        tour.write_schedules([[{"op": e["op"], "size": e.get("size", 0), "w": e.get("w", 0), "decline": e.get("decline", False)} for e in ev]], sf)
        run_harness(exe, ["pbuf-replay", "--m", rs["M"], "--p", rs["P"], "--sched", sf, "--out", tf])
        res = validate_traces("PacketTrace", [tf], parallel=1)
        pm = lambda v: {"part": "packet", "op": v["p"][0] if v["p"] else None, "queue": v["p"][3] if len(v["p"]) > 3 else None}
    vd.add_validation(res)
    vd.add_model("replay only", FakeTlc())
    report_viols(vd, "C14", res, obj["ctx"], pm)
    vd.cov["samples"].append(split_runs(tf)[0][:20])
