"""C05 -- a TCP sender stays inside the peer's window and MSS and never alters data."""
from checks.tcpcommon import *


def run(tier, vd):
    sd = seed()
    files = peer_mc_replay(vd, tier, "c05")
    sample(vd, files, "TLC schedule (MCTcpPeer edge tour) replayed on a real listening socket")
    neg_controls(vd, ["DevFastRetx"])
    if tier == "thorough":
        mc_pair(vd, tier, ["WindowSafe", "StreamSafe"], tag="c05")
    rf = peer_random(vd, tier, sd, "c05")
    pf = pair_random(vd, tier, sd, "c05", pollat=False)
    sample(vd, pf, "two real endpoints over an adversarial link")
    validate_and_report(vd, "C05", files + rf + pf, {"seed": sd})
    tcp_canary(vd, "C05", pf[0], "S1")
    vd.cov["exhaustive"] = True
    vd.assumptions += ["S1 judges against the largest right edge any delivered segment has advertised (shrinking windows are inputs, the socket may have learned its window from any delivered segment)",
                       "S4 exempts sequence numbers the peer has already acknowledged (a peer acknowledging unsent data is outside the quantifier)",
                       "an announced MSS below 48 is read as 48 and 0 as absent (536)"]


def replay(obj, vd):
    replay_generic(obj, vd, "C05")
