"""C16 -- link-layer addressing: only to resolved next hops, discovery rate-limited."""
from checks.netcommon import *


def run(tier, vd):
    sd = seed()
    cfgs = [('{"h1","h2"}', 1, 3, 2)] if tier == "quick" else [('{"h1","h2"}', 1, 4, 3), ('{"h1","h2","h3"}', 2, 3, 2)]
    for (hosts, k, mj, ms) in cfgs:
        c = {"Hosts": hosts, "K": k, "Jumps": "{1,999,1000,59999,60000}", "MaxJumps": mj, "MaxSend": ms, "DevNoExpiry": False, "DevNoRateLimit": False, "DevLearnBroadcast": False, "DevRefreshOnSend": False}
        r = tlc("Neighbor", write_cfg("Neighbor_c16", cfg_text(c, ["NoBad", "CacheBound"], properties=["NoLoss"])), workers=12, tag="c16.mc", timeout=2400, collect=())
        if r.violated:
            raise ToolError("Neighbor model violates %s (log %s)" % (r.violated, r.log))
        vd.add_model("Neighbor hosts=%s K=%d jumps<=%d sends<=%d" % (hosts, k, mj, ms), r, "cache with eviction/expiry, global 1 s limiter, ARP replies incl. non-unicast, clock jumps across 1 s / 60 s")
    for dev in ("DevNoExpiry", "DevNoRateLimit", "DevLearnBroadcast", "DevRefreshOnSend"):
        c = {"Hosts": '{"h1","h2"}', "K": 1, "Jumps": "{1,999,1000,59999,60000}", "MaxJumps": 3, "MaxSend": 2, "DevNoExpiry": False, "DevNoRateLimit": False, "DevLearnBroadcast": False, "DevRefreshOnSend": False}
        c[dev] = True
        r = tlc("Neighbor", write_cfg("NeighborNeg", cfg_text(c, ["NoBad", "CacheBound"])), workers=4, tag="c16.neg." + dev, timeout=600, collect=())
        vd.cov["models"].append({"model": "Neighbor negative control " + dev, "violated": r.violated, "distinct_states": r.distinct})
        if r.violated != "NoBad":
            raise ToolError("negative control %s: expected NoBad to fail, got %s" % (dev, r.violated))
    builds = (None,) if tier == "quick" else (None, {"IFACE_NEIGHBOR_CACHE_COUNT": 2}, {"IFACE_NEIGHBOR_CACHE_COUNT": 1})
    files = neigh_traces(tier, sd, "c16", builds)
    validate_report(vd, "C16", files, {"seed": sd})
    vd.cov["samples"].append({"kind": "neigh world: ARP exchange then data frame", "events": [e for e in split_runs(files[0])[0] if e.get("ev") != "poll" or e.get("out") or e.get("rx")][:10]})

    def mut(e):
        if e.get("ev") == "poll":
            for o in e.get("out", []):
                if o.get("et") == "ip4" and o.get("dmu") and o.get("did", -1) >= 0:
                    o["dmac"] = "02:00:00:00:09:99"
                    return True
        return False
    canary_check(vd, "NeighTrace", files[0], mut, "N1", "c16.N1", max_runs=80)
    vd.cov["exhaustive"] = True
    vd.assumptions += ["IPv4 / ARP and IPv6 / neighbour discovery on Ethernet (chosen per run); IEEE 802.15.4 neighbours are exercised by the 6LoWPAN world only", "discovery spacing is judged globally: any two ARP requests are at least 1 s apart (the literal reading of the statement)",
                       "any frame from a neighbor counts as confirming traffic (the code refreshes on unicast ones only)"]


def replay(obj, vd):
    from checks.netcommon import replay as rp
    rp(obj, vd, "C16")
