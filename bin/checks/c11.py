"""C11 -- only traffic addressed to the interface is delivered; no replies to non-unicast."""
from checks.ingresscommon import *


def run(tier, vd):
    tf = table(vd, "c11")
    res, cf = judge(vd, "C11", tf, {})
    vd.cov["samples"].append({"kind": "table rows with observations", "events": [e for e in read_ndjson(tf) if e.get("ev") == "row"][1000:1003]})

    def mut(e):
        if e.get("ev") == "row" and e.get("ld") == "other" and e.get("p") == "udp-open":
            e["udp"] = 1
            return True
        return False
    canary_check(vd, "IngressTrace", cf, mut, "I1", "c11.I1", max_runs=200)
    mcast_model(tier, vd)
    vd.cov["exhaustive"] = True
    vd.assumptions += ["Ethernet and raw-IP media (IEEE 802.15.4 PAN filtering is exercised in the 6LoWPAN world)", "sockets: one TCP listener, one bound UDP socket; ICMP / raw / DNS sockets and joined groups other than the default ones are not in the table",
                       "loopback and the interface's own address count as unicast sources"]


def mcast_model(tier, vd):
    """Beyond the listed properties: the group-membership machine (Mcast.tla) model checked, and its behaviours replayed
    on a real interface.  Nothing here can raise a VIOLATION: no listed property speaks about group reports."""
    import json, os
    INV = ["Bounded", "NotMember"]
    c = {"Groups": '{"g1", "g2", "g3"}', "Cap": 3, "MaxT": 8, "Resp": 12, "MaxEvents": 6 if tier == "quick" else 7, "Tokens": "{0, 1, 9}"}
    rf = os.path.join(OUT, "sched", "c11.mcast.replay")
    text = cfg_text(c, INV + ["Export"], properties=["JoinReported", "LeaveAnnounced"], view="View")
    r = tlc("Mcast", write_cfg("Mcast_c11", text), workers=8, tag="c11.mcast", timeout=1500, tagged_file=rf)
    if r.violated:
        raise ToolError("Mcast model violates %s (log %s)" % (r.violated, r.log))
    vd.add_model("Mcast groups=3 cap=3 events<=%d (not a listed property)" % c["MaxEvents"], r, "IGMPv2 host side: group table with swap-remove order, join / leave, single report state, multicast_egress per poll with device tokens; invariants " + ",".join(INV) + ", action properties JoinReported, LeaveAnnounced")
    # the observation: a general query is not always answered for every member (single report state, walk by index)
    co = dict(c, Groups='{"g1", "g2"}', MaxT=14, MaxEvents=22, Tokens="{9}")
    ro = tlc("Mcast", write_cfg("Mcast_obs", cfg_text(co, ["GeneralAnswered"], view="View")), workers=4, tag="c11.mcast.obs", timeout=600, collect=())
    vd.cov["models"].append({"model": "Mcast observation GeneralAnswered (expected to fail: documented behaviour of the code, no listed property)", "violated": ro.violated})
    beh = [json.loads(l)["v"] for l in open(rf)]
    import random as _rnd
    if len(beh) > (4000 if tier == "quick" else 30000):
        beh = _rnd.Random(seed()).sample(beh, 4000 if tier == "quick" else 30000)
    exe = build_harness()
    files = chunked_replay(exe, ["mcast-replay", "--resp", c["Resp"]], beh, "c11.mcast", nchunks=4)
    compared = different = panics = 0
    first = None
    for tf in files:
        for e in read_ndjson(tf):
            if e.get("ev") == "panic":
                panics += 1
            if e.get("ev") == "poll":
                compared += 1
                got = [{"m": o["m"], "g": o["g"]} for o in e["out"]]
                if got != e["model"] or any(not o.get("wf", True) for o in e["out"]):
                    different += 1
                    first = first or e
    vd.cov.setdefault("drift_detail", {})["mcast_polls_vs_Mcast_model"] = {"compared": compared, "different": different, "panics": panics}
    vd.cov["model_drift"] = vd.cov.get("model_drift", 0) + different
    if first:
        vd.cov["samples"].append({"kind": "first multicast poll that differs from Mcast.tla", "events": [first]})
    if panics:
        raise ToolError("mcast replay: the interface panicked on a model behaviour (%d)" % panics)
    if compared == 0:
        raise ToolError("mcast replay compared nothing")


def replay(obj, vd):
    from checks.ingresscommon import replay as rp
    rp(obj, vd, "C11")
