"""C11 -- only traffic addressed to the interface is delivered; no replies to non-unicast."""
from checks.ingresscommon import *


def run(tier, vd):
    tf = table(vd, "c11")
    res, cf = judge(vd, "C11", tf, {})
    vd.cov["samples"].append({"kind": "table rows with observations", "events": [e for e in read_ndjson(tf) if e.get("ev") == "row"][1000:1003]})

    def mut(e):
        if e.get("ev") == "row" and e.get("ld") == "other" and e.get("p") == "udp-open":
            e["udp"] = 1
            return True
        return False
    canary_check(vd, "IngressTrace", cf, mut, "I1", "c11.I1", max_runs=200)
    vd.cov["exhaustive"] = True
    vd.assumptions += ["Ethernet and raw-IP media (IEEE 802.15.4 PAN filtering is exercised in the 6LoWPAN world)", "sockets: one TCP listener, one bound UDP socket; ICMP / raw / DNS sockets and joined groups other than the default ones are not in the table",
                       "loopback and the interface's own address count as unicast sources"]


def replay(obj, vd):
    from checks.ingresscommon import replay as rp
    rp(obj, vd, "C11")
