"""C12 -- IPv4 fragmentation and reassembly reproduce the datagram or deliver nothing."""
import json, os, random
from vlib.core import *

INV = ["BodyOK", "DeliveredOK", "CompleteTx", "Obliged"]


def pm(v):
    return {"rule": v["rule"], "kind": v["p"][1] if len(v["p"]) > 1 and isinstance(v["p"][1], str) else None}


def model_and_schedules(vd, consts, tag, sample, sd):
    cfg = write_cfg("Frag_" + tag, cfg_text(consts, INV + ["Export"]))
    rf = os.path.join(OUT, "sched", "c12.%s.replay" % tag)
    r = tlc("Frag", cfg, workers=8, tag="c12." + tag, timeout=2400, tagged_file=rf)
    if r.violated:
        raise ToolError("Frag model violates %s (%s), log %s" % (r.violated, consts, r.log))
    vd.add_model("Frag %s" % json.dumps(consts), r, "shared egress buffer, permuting/duplicating network, reassembly slots; invariants " + ",".join(INV))
    beh = [json.loads(l)["v"] for l in open(rf)]
    rnd = random.Random(sd)
    if sample and len(beh) > sample:
        beh = rnd.sample(beh, sample)
    return beh


def run(tier, vd):
    sd = seed()
    files = []
    plans = [({"NDgrams": 2, "NFrags": 3, "AsmN": 4, "Slots": 1, "DupBudget": 1, "DevOverwrite": False}, None, 1500 if tier == "quick" else None)]
    if tier == "thorough":
        plans.append(({"NDgrams": 2, "NFrags": 4, "AsmN": 2, "Slots": 1, "DupBudget": 0, "DevOverwrite": False}, {"ASSEMBLER_MAX_SEGMENT_COUNT": 2}, 6000))
        plans.append(({"NDgrams": 2, "NFrags": 3, "AsmN": 4, "Slots": 2, "DupBudget": 1, "DevOverwrite": False}, {"REASSEMBLY_BUFFER_COUNT": 2}, 6000))
    drift = compared = 0
    for i, (c, build, sample) in enumerate(plans):
        beh = model_and_schedules(vd, c, "p%d" % i, sample, sd)
        exe = build_harness(build)
        vd.cov["builds"].append(json.dumps(build or {}))
        log("[C12] plan %d: %d arrival schedules from TLC" % (i, len(beh)))
        n = 4
        for k in range(n):
            part = beh[k::n]
            pf = os.path.join(OUT, "sched", "c12.p%d.%d.sched" % (i, k))
            with open(pf, "w") as f:
                for b in part:
                    f.write(json.dumps(b) + "\n")
            tf = os.path.join(OUT, "traces", "c12.p%d.%d.ndjson" % (i, k))
            run_harness(exe, ["frag-replay", "--sched", pf, "--out", tf, "--nfrags", c["NFrags"], "--ndgrams", c["NDgrams"],
                              "--asmn", c["AsmN"], "--slots", c["Slots"]])
            files.append(tf)
            # drift: the model's predicted deliveries vs. the receiver's
            for rr in split_runs(tf):
                gotd = sorted(e["did"] for e in rr if e.get("ev") == "api" and e.get("call") == "recv")
                end = [e for e in rr if e.get("ev") == "end"]
                if end:
                    compared += 1
                    if sorted(end[0].get("model_delivered", [])) != gotd:
                        drift += 1
    # negative control: the code before its fix
    cn = {"NDgrams": 2, "NFrags": 3, "AsmN": 4, "Slots": 1, "DupBudget": 0, "DevOverwrite": True}
    r = tlc("Frag", write_cfg("FragNeg", cfg_text(cn, INV)), workers=4, tag="c12.neg", timeout=600, collect=())
    vd.cov["models"].append({"model": "Frag negative control DevOverwrite", "violated": r.violated, "distinct_states": r.distinct})
    if r.violated not in ("CompleteTx", "BodyOK"):
        raise ToolError("negative control DevOverwrite: expected CompleteTx/BodyOK to fail, got %s" % r.violated)
    exe = build_harness()
    nf, runs = (2, 250) if tier == "quick" else (8, 1000)
    for k in range(nf):
        tf = os.path.join(OUT, "traces", "c12.rand.%d.ndjson" % k)
        run_harness(exe, ["frag-random", "--seed", sd * 100 + k, "--runs", runs, "--out", tf])
        files.append(tf)
    res = validate_traces("FragTrace", files, parallel=8)
    vd.add_validation(res)
    res = dict(res)
    res["viol"] = [v for v in res["viol"] if v["rule"] not in ("Q1", "Q2")]  # pending-fragment deadlines are C13's
    vd.cov["model_drift"] = drift
    vd.cov["drift_detail"] = {"deliveries_vs_Frag_model": {"compared": compared, "different": drift}}
    report_viols(vd, "C12", res, {"seed": sd}, pm, lambda v: "%s %s" % (v["rule"], v["p"]))
    vd.cov["samples"].append({"kind": "TLC arrival schedule replayed: A's fragments delivered to B in the scheduled order", "events": split_runs(files[0])[0][:14]})
    vd.cov["samples"].append({"kind": "random run (MTU 68..1500, back-to-back datagrams, back-pressure, reorder/dup/drop)", "events": split_runs(files[-1])[1][:10]})

    def mut(e):
        if e.get("ev") == "poll" and e.get("out") and e["out"][0].get("frag") and e["out"][0].get("foff", 0) > 0:
            e["out"][0]["pd"] = 3
            return True
        return False
    canary_check(vd, "FragTrace", files[-1], mut, "F2", "c12.F2")
    vd.cov["exhaustive"] = True
    vd.assumptions += ["runs are shorter than the 60 s reassembly timeout", "receiver socket buffers are large enough for every datagram (delivery drops for lack of socket space are C09's)",
                       "ICMP echo traffic: fragments and sizes are judged, the obligation F4 only for UDP"]


def replay(obj, vd):
    ev0 = obj["events"][0]
    exe = build_harness()
    tf = os.path.join(OUT, "traces", "c12.replay.ndjson")
    if ev0.get("src") == "random":
        # the random driver is deterministic per (seed, run): regenerate and keep the one run
        run_harness(exe, ["frag-random", "--seed", ev0["seed"], "--runs", ev0["run"] + 1, "--out", tf])
        runs = split_runs(tf)
        with open(tf, "w") as f:
            for e in runs[ev0["run"]]:
                f.write(json.dumps(e) + "\n")
    else:
        raise ToolError("replay of TLC schedules: re-run bin/check C12 (schedules are regenerated deterministically)")
    res = validate_traces("FragTrace", [tf], parallel=1)
    vd.add_validation(res)
    vd.add_model("replay only", FakeTlc())
    report_viols(vd, "C12", res, obj.get("ctx", {}), pm)
    vd.cov["samples"].append(split_runs(tf)[0][:10])
