"""Shared machinery of the TCP checks (C01 C02 C04 C05 C17): model checking of TcpModel / MCTcpPeer, edge export and
replay on a real socket, random pair and hostile-peer worlds, validation by TcpTrace, rule-filtered verdicts."""
import json, os
from vlib.core import *
from vlib import tour

DEVS = ["DevFinTrim", "DevFastRetx", "DevRtoZeroWin", "DevFastIdle", "DevZwpStopInflight", "DevZwpKeepEmpty"]
PAIR_INV = ["RecvSafe", "FinSafe", "StreamSafe", "WindowSafe", "DeadlineInv", "NoStall", "NoHang"]
PEER_INV = ["PRecvSafe", "PFinSafe", "AckSafe", "PDeadline", "NoHang", "WindowSafe"]
STNAME = {"Closed": "CLOSED", "Listen": "LISTEN", "SynSent": "SYN-SENT", "SynReceived": "SYN-RECEIVED", "Established": "ESTABLISHED",
          "FinWait1": "FIN-WAIT-1", "FinWait2": "FIN-WAIT-2", "CloseWait": "CLOSE-WAIT", "Closing": "CLOSING", "LastAck": "LAST-ACK",
          "TimeWait": "TIME-WAIT"}
RULESETS = {
    "C01": {"P1", "P2", "P3", "PANIC"},
    "C02": {"L1", "L2", "L3", "PANIC"},
    "C04": {"P1", "P2", "R2", "R3", "R6", "PANIC"},
    # (R6 -- window field x negotiated shift never beyond the buffer -- is C05's "later windows are scaled as negotiated" too)
    "C05": {"S1", "S2", "S3", "S4", "S5", "S6", "R6", "PANIC"},
    "C17": {"T1", "T2", "T3", "PANIC"},
    "C13": {"Q1", "Q2", "PANIC"},
    "C08": {"K2", "K3", "PANIC"},
}


def pair_consts(**kw):
    c = {"CapA": 2, "CapB": 2, "TxCap": 2, "MSS": 1, "DataA": 2, "AsmN": 2, "DropBudget": 1, "DupBudget": 0, "RtoBudget": 1, "Nagle": False}
    for d in DEVS:
        c[d] = False
    c.update(kw)
    return c


def peer_consts(**kw):
    c = pair_consts(DataA=0, DropBudget=0, RtoBudget=0, MSS=2)
    c.update({"L": 3, "PeerData": 3, "Steps": 6, "SendB": 1, "Connector": False})
    c.update(kw)
    return c


def mc_pair(vd, tier, invs=None, tag="pair"):
    """Exhaustive check of the two-endpoint model over a lossy / reordering network."""
    cfgs = [pair_consts()] if tier == "quick" else [pair_consts(), pair_consts(CapB=1, DataA=3, TxCap=3), pair_consts(DupBudget=1, DataA=2), pair_consts(Nagle=True)]
    for i, c in enumerate(cfgs):
        cfg = write_cfg("TcpModel_%s%d" % (tag, i), cfg_text(c, invs or PAIR_INV))
        r = tlc("TcpModel", cfg, workers=12, tag="tcp.%s.%d" % (tag, i), timeout=3000 if i == 0 else 1500, collect=(), allow_timeout=(i > 0))
        vd.add_model("TcpModel pair %s%s" % (json.dumps({k: v for k, v in c.items() if not k.startswith("Dev")}), " (PARTIAL: stopped by the time limit)" if r.timed_out else ""), r,
                     "two endpoints, drop/dup/reorder network, atomic polls; invariants " + ",".join(invs or PAIR_INV))
        if r.violated:
            raise ToolError("TcpModel (code as fixed) violates %s in config %d (log %s) -- specification-level finding, "
                            "must be confirmed on the real code before it is reported" % (r.violated, i, r.log))


def neg_controls(vd, devs, steps=9):
    """The model with a deviation switched on (= the code before its fix) must break the matching invariant."""
    expect = {"DevFinTrim": "PFinSafe", "DevFastRetx": "WindowSafe", "DevRtoZeroWin": "PDeadline", "DevFastIdle": "PDeadline",
              "DevZwpStopInflight": "PDeadline", "DevZwpKeepEmpty": "NoHang"}
    from concurrent.futures import ThreadPoolExecutor

    def one(dev):
        c = peer_consts(Steps=steps, SendB=2, MSS=2 if dev == "DevFastRetx" else 1)
        c[dev] = True
        cfg = write_cfg("MCTcpPeerNeg_" + dev, cfg_text(c, PEER_INV, view="View", spec="PSpec"))
        return dev, tlc("MCTcpPeer", cfg, workers=4, tag="tcp.neg." + dev, timeout=2400, collect=())
    with ThreadPoolExecutor(max_workers=4) as ex:
        for dev, r in ex.map(one, devs):
            vd.cov["models"].append({"model": "MCTcpPeer negative control " + dev, "violated": r.violated, "expected": expect[dev],
                                     "distinct_states": r.distinct, "wall_s": round(r.wall, 1)})
            if r.violated != expect[dev]:
                raise ToolError("negative control %s: expected %s to fail, TLC reported %s" % (dev, expect[dev], r.violated))


def peer_mc_replay(vd, tier, tag):
    """MCTcpPeer: exhaustive check, export of every transition, transition tour replayed on a real listening socket."""
    steps = 5 if tier == "quick" else 7
    c = peer_consts(Steps=steps)
    cfg = write_cfg("MCTcpPeer_" + tag, cfg_text(c, PEER_INV, properties=["EdgeSafe"], view="View", edge="Edge", spec="PSpec"))
    ef = os.path.join(OUT, "sched", "tcp.peer.%s.edges" % tag)
    r = tlc("MCTcpPeer", cfg, workers=12, tagged_file=ef, tag="tcp.peer." + tag, timeout=3000)
    if r.violated:
        raise ToolError("MCTcpPeer (code as fixed) violates %s (log %s)" % (r.violated, r.log))
    vd.add_model("MCTcpPeer Steps=%d L=3 PeerData=3 CapB=2" % steps, r, "listener vs hostile-but-consistent peer; all transitions exported")
    edges = tour.load_edges(ef)
    scheds, st = tour.build_tour(edges, share_prefix=False)
    log("[%s] MCTcpPeer: %d states, %d edges (%d distinct state/stimulus pairs) -> %d schedules, %d steps" % (tag, r.distinct, st["edges"], st["distinct_edges"], st["schedules"], st["steps"]))
    exe = build_harness()
    files = []
    n = 8
    for k in range(n):
        part = scheds[k::n]
        pf = os.path.join(OUT, "sched", "tcp.peer.%s.%d.sched" % (tag, k))
        with open(pf, "w") as f:
            for s_ in part:
                f.write(json.dumps({"steps": s_, "peer_fin": c["PeerData"]}, separators=(",", ":")) + "\n")
        tf = os.path.join(OUT, "traces", "tcp.peer.%s.%d.ndjson" % (tag, k))
        run_harness(exe, ["tcp-peer-replay", "--sched", pf, "--out", tf, "--rx", c["CapB"], "--tx", c["TxCap"]])
        files.append(tf)
    # the same with the socket as connector (SYN-SENT and simultaneous open stimuli)
    cc = peer_consts(Steps=4 if tier == "quick" else 5, Connector=True)
    cfg2 = write_cfg("MCTcpPeerConn_" + tag, cfg_text(cc, PEER_INV, properties=["EdgeSafe"], view="View", edge="Edge", spec="PSpec"))
    ef2 = os.path.join(OUT, "sched", "tcp.peerconn.%s.edges" % tag)
    r2 = tlc("MCTcpPeer", cfg2, workers=12, tagged_file=ef2, tag="tcp.peerconn." + tag, timeout=3000)
    if r2.violated:
        raise ToolError("MCTcpPeer connector (code as fixed) violates %s (log %s)" % (r2.violated, r2.log))
    vd.add_model("MCTcpPeer connector Steps=%d" % cc["Steps"], r2, "connecting socket vs hostile peer: SYN-SENT stimuli with ACK numbers ISS, ISS+1, ISS+2")
    sch2, st2 = tour.build_tour(tour.load_edges(ef2), share_prefix=False)
    for k in range(2):
        part = sch2[k::2]
        pf = os.path.join(OUT, "sched", "tcp.peerconn.%s.%d.sched" % (tag, k))
        with open(pf, "w") as f:
            for s_ in part:
                f.write(json.dumps({"steps": s_, "peer_fin": cc["PeerData"]}, separators=(",", ":")) + "\n")
        tf = os.path.join(OUT, "traces", "tcp.peerconn.%s.%d.ndjson" % (tag, k))
        run_harness(exe, ["tcp-peer-replay", "--sched", pf, "--out", tf, "--rx", cc["CapB"], "--tx", cc["TxCap"], "--connector"])
        files.append(tf)
    log("[%s] MCTcpPeer connector: %d states, %d distinct state/stimulus pairs -> %d schedules" % (tag, r2.distinct, st2["distinct_edges"], st2["schedules"]))
    # drift of the real socket against the reference model's predicted state (not a verdict)
    drift = tot = 0
    for e in read_ndjson(files[0]):
        x = e.get("x")
        if e.get("ev") in ("rx", "egress") and x and x.get("after"):
            tot += 1
            if STNAME.get(x["after"]) != e["post"]["st"]:
                drift += 1
    vd.cov["model_drift"] += drift
    vd.cov.setdefault("drift_detail", {})["state_vs_TcpModel"] = {"compared": tot, "different": drift}
    return files


def pair_random(vd, tier, sd, tag, pollat=True, probe=False):
    exe = build_harness()
    nfiles, runs = (4, 80) if tier == "quick" else (16, 400)
    files = []
    for k in range(nfiles):
        tf = os.path.join(OUT, "traces", "tcp.pair.%s.%d.ndjson" % (tag, k))
        a = ["tcp-pair", "--seed", sd * 1000 + k, "--runs", runs, "--out", tf]
        if pollat:
            a.append("--pollat")
        if probe:
            a.append("--probe")
        if k % 4 == 3:
            a.append("--small")
        if tag == "c08":
            a.append("--burst")
        if tier == "thorough" and k % 4 == 2:
            # long transfers: fewer runs, or the traces run into gigabytes
            a += ["--maxbytes", 600000]
            a[a.index("--runs") + 1] = 60
        run_harness(exe, a)
        files.append(tf)
    if tag in ("c01",):
        # scaled-window edge runs (C01 only): a receive buffer just above 64 KiB, a stream of exactly the SYN-ACK's unscaled
        # window with its FIN on the last segment, and a receiver that lets no acknowledgment out while its reader sleeps
        tf = os.path.join(OUT, "traces", "tcp.pair.%s.edge.ndjson" % tag)
        a = ["tcp-pair", "--seed", sd * 1000 + 700, "--runs", 120 if tier == "quick" else 800, "--out", tf, "--edge"]
        if pollat:
            a.append("--pollat")
        run_harness(exe, a)
        files.append(tf)
    if pollat and tag in ("c02",):
        # zero-window runs only (small receive buffer, sleeping reader, zero-window ACKs overtaken by the window update,
        # loss right after the window re-opens): the stall patterns C02 names live here
        tf = os.path.join(OUT, "traces", "tcp.pair.%s.zw.ndjson" % tag)
        run_harness(exe, ["tcp-pair", "--seed", sd * 1000 + 500, "--runs", 600 if tier == "quick" else 5000, "--out", tf, "--pollat", "--zwr"])
        files.append(tf)
        # acknowledgment-loss runs only (data both ways, bare acknowledgments lost for seconds: both ends retransmit)
        tf = os.path.join(OUT, "traces", "tcp.pair.%s.al.ndjson" % tag)
        run_harness(exe, ["tcp-pair", "--seed", sd * 1000 + 600, "--runs", 200 if tier == "quick" else 2000, "--out", tf, "--pollat", "--ackloss"])
        files.append(tf)
    return files


def peer_random(vd, tier, sd, tag):
    exe = build_harness()
    nfiles, runs = (4, 250) if tier == "quick" else (16, 600)
    files = []
    for k in range(nfiles):
        tf = os.path.join(OUT, "traces", "tcp.peerr.%s.%d.ndjson" % (tag, k))
        run_harness(exe, ["tcp-peer-random", "--seed", sd * 1000 + k, "--runs", runs, "--steps", 150, "--out", tf])
        files.append(tf)
    return files


def validate_and_report(vd, prop, files, ctx, also=()):
    res = validate_traces("TcpTrace", files, parallel=8, timeout=3000)
    vd.add_validation(res)
    rules = RULESETS[prop] | set(also)
    other = {}
    mine = []
    for v in res["viol"]:
        if v["rule"] in rules:
            mine.append(v)
        else:
            other[v["rule"]] = other.get(v["rule"], 0) + 1
    if other:
        vd.cov.setdefault("other_rule_hits", {})
        for k, n in other.items():
            vd.cov["other_rule_hits"][k] = vd.cov["other_rule_hits"].get(k, 0) + n
        log("[%s] note: rules of other properties fired on these traces (reported by their own checks): %s" % (prop, other))
    res2 = dict(res)
    res2["viol"] = mine

    def pm(v):
        p = v["p"]
        d = {"rule": v["rule"]}
        if v["rule"] in ("T1", "T3") and len(p) >= 3:
            d.update({"from": p[1], "to": p[2]})
            if v["rule"] == "T1" and len(p) >= 6:
                d["ack"] = p[5]
        if v["rule"] == "S5" and len(p) >= 2:
            d["right"] = p[1]
        if v["rule"] == "L1" and len(p) >= 3:
            d.update({"state": p[1], "what": p[2]})
        return d
    report_viols(vd, prop, res2, ctx, pm, lambda v: "%s ep/params=%s" % (v["rule"], v["p"]))
    return res


def replay_generic(obj, vd, prop):
    """Re-executes the run that produced a violation (same harness arguments and seed) and re-validates it."""
    exe = build_harness()
    ev0 = obj["events"][0] if obj.get("events") else {}
    world = ev0.get("world")
    tf = os.path.join(OUT, "traces", "tcp.replay.ndjson")
    if world == "tcp_pair":
        a = ["tcp-pair", "--seed", ev0["seed"], "--runs", ev0["run"] + 1, "--only", ev0["run"], "--out", tf]
        if ev0.get("pollat"):
            a.append("--pollat")
        flags = list(obj["ctx"].get("flags", []))
        ar = ev0.get("args", {})
        for k in ("small", "probe", "zwr", "ackloss", "edge", "burst"):
            if ar.get(k) and "--" + k not in flags:
                flags.append("--" + k)
        if ar.get("maxbytes") and ar["maxbytes"] != 20000:
            flags += ["--maxbytes", ar["maxbytes"]]
        a += flags
        run_harness(exe, a)
    elif world == "tcp_peer" and ev0.get("src") == "random":
        base = ev0.get("reuse_of", ev0["run"])  # a reuse connection is replayed together with the run whose socket it reuses
        run_harness(exe, ["tcp-peer-random", "--seed", ev0["seed"], "--runs", base + 1, "--only", base, "--steps", 150, "--out", tf])
    else:
        # TLC schedule: rebuild the step list from the recorded events' stimuli
        steps = []
        for e in obj["events"][1:]:
            if e.get("ev") == "rx":
                g = e["seg"]
                steps.append({"k": "seg", "g": {"seq": g["seq"] + 100, "ack": (g["ack"] + 300) if g["ha"] else -1, "len": g["len"],
                                                 "ctl": "syn" if g["syn"] else "rst" if g["rst"] else "fin" if g["fin"] else "none", "win": g["win"]}})
            elif e.get("ev") == "clock":
                steps.append({"k": "due"})
            elif e.get("ev") == "egress":
                steps.append({"k": "poll"})
            elif e.get("ev") == "api" and e.get("ep") == 1 and e.get("call") in ("recv", "send", "close", "abort"):
                steps.append({"k": e["call"], "n": e.get("n", 0)})
        pf = os.path.join(OUT, "sched", "tcp.replay.sched")
        with open(pf, "w") as f:
            f.write(json.dumps({"steps": steps, "peer_fin": ev0.get("peer_fin", -1)}) + "\n")
        cfg = ev0.get("cfg", [{}, {"rx": 2, "tx": 2}])
        run_harness(exe, ["tcp-peer-replay", "--sched", pf, "--out", tf, "--rx", cfg[1]["rx"], "--tx", cfg[1]["tx"]])
    validate_and_report(vd, prop, [tf], obj.get("ctx", {}))
    vd.add_model("replay only", FakeTlc())
    vd.cov["samples"].append(split_runs(tf)[0][:12])


def tcp_canary(vd, prop, src, rule):
    """Corrupts one field of a recorded trace so that `rule` must fire."""
    def mut(e):
        if rule == "P1" and e.get("ev") == "api" and e.get("call") == "recv" and e.get("ret", 0) > 0:
            e["diff"] = 0
            return True
        if rule == "R3" and e.get("ev") == "rx" and e.get("out") and e["out"][0].get("ha") and not e["out"][0].get("rst") and not e["out"][0].get("norel") and e["post"]["st"] == "ESTABLISHED":
            e["out"][0]["ack"] += 7
            return True
        if rule == "S1" and e.get("ev") in ("rx", "egress") and e.get("out") and e["out"][0].get("len", 0) > 1 and not e["out"][0].get("norel"):
            e["out"][0]["seq"] += 100000
            return True
        if rule == "T1" and e.get("ev") == "rx" and e.get("before") == "ESTABLISHED" and e["post"]["st"] == "ESTABLISHED":
            e["post"]["st"] = "FIN-WAIT-2"
            return True
        if rule == "L1" and e.get("ev") == "egress" and e["post"]["st"] in ("FIN-WAIT-1", "LAST-ACK", "SYN-SENT") and e["post"]["pa"] != -1:
            e["post"]["pa"] = -1
            return True
        return False
    canary_check(vd, "TcpTrace", src, mut, rule, "%s.%s" % (prop.lower(), rule), max_runs=40)


def sample(vd, files, kind):
    for f in files[:1]:
        r = split_runs(f)
        if r:
            vd.cov["samples"].append({"kind": kind, "events": r[min(3, len(r) - 1)][:8]})
