"""C13 -- poll_at is a sufficient and non-spinning wake-up schedule."""
import json, os
from vlib.core import *
from checks import tcpcommon, netcommon


def run(tier, vd):
    sd = seed()
    for dev in (None, "DevOptionMin", "DevStaleDeadline"):
        c = {"Sources": '{"tcp","dhcp","slaac"}', "MaxT": 6 if tier == "quick" else 8, "DevOptionMin": False, "DevStaleDeadline": False}
        if dev:
            c[dev] = True
        r = tlc("PollAt", write_cfg("PollAt_c13", cfg_text(c, ["Sufficient", "NonSpinning"])), workers=8, tag="c13.%s" % dev, timeout=1200, collect=())
        if dev is None:
            if r.violated:
                raise ToolError("PollAt model violates %s (log %s)" % (r.violated, r.log))
            vd.add_model("PollAt sources=3 MaxT=%d" % c["MaxT"], r, "composite deadline = min with None as top; event loop sleeping until it")
        else:
            vd.cov["models"].append({"model": "PollAt negative control " + dev, "violated": r.violated})
            exp = "Sufficient" if dev == "DevOptionMin" else "NonSpinning"
            if r.violated != exp:
                raise ToolError("negative control %s: expected %s to fail, got %s" % (dev, exp, r.violated))
    exe = build_harness()
    # 1. timers of every socket kind, SLAAC on/off, an almost silent network
    files = []
    nf, runs = (4, 150) if tier == "quick" else (12, 600)
    for k in range(nf):
        tf = os.path.join(OUT, "traces", "c13.pollat.%d.ndjson" % k)
        run_harness(exe, ["pollat-random", "--seed", sd * 100 + k, "--runs", runs, "--out", tf])
        files.append(tf)
    res = validate_traces("PollAtTrace", files, parallel=8)
    vd.add_validation(res)
    report_viols(vd, "C13", res, {"world": "pollat", "seed": sd}, lambda v: {"rule": v["rule"], "world": "pollat"}, lambda v: "pollat %s %s" % (v["rule"], v["p"]))
    vd.cov["samples"].append({"kind": "pollat world: probe (early) and due polls with the deadline poll_at had returned", "events": split_runs(files[0])[0][:10]})
    # 2. TCP pair world in probe mode (extra polls strictly before the deadline)
    pf = tcpcommon.pair_random(vd, tier, sd, "c13", pollat=True, probe=True)
    res2 = validate_traces("TcpTrace", pf, parallel=8, timeout=3000)
    vd.add_validation(res2)
    r2 = dict(res2)
    r2["viol"] = [v for v in res2["viol"] if v["rule"] in ("Q1", "Q2", "PANIC")]
    report_viols(vd, "C13", r2, {"world": "tcp_pair", "seed": sd, "flags": ["--probe"]}, lambda v: {"rule": v["rule"], "world": "tcp_pair"}, lambda v: "tcp_pair %s %s" % (v["rule"], v["p"]))
    # 3. neighbor discovery back-off and datagram sockets (idle polls)
    nfz = netcommon.neigh_traces("quick", sd, "c13")
    res3 = validate_traces("NeighTrace", nfz, parallel=8)
    vd.add_validation(res3)
    r3 = dict(res3)
    r3["viol"] = [v for v in res3["viol"] if v["rule"] in ("Q2", "PANIC")]
    report_viols(vd, "C13", r3, {"world": "neigh", "seed": sd}, lambda v: {"rule": v["rule"], "world": "neigh"}, lambda v: "neigh %s %s" % (v["rule"], v["p"]))

    # 4. DHCP client against a talking (hostile) server: idle polls around lease expiry and retry exhaustion
    from checks import c18
    df = c18.dhcp_traces("quick", sd, "c13")
    res4 = validate_traces("DhcpTrace", df, parallel=8)
    vd.add_validation(res4)
    r4 = dict(res4)
    r4["viol"] = [v for v in res4["viol"] if v["rule"] in ("Q1", "Q2", "PANIC")]
    report_viols(vd, "C13", r4, {"world": "dhcp", "seed": sd}, lambda v: {"rule": v["rule"], "world": "dhcp", "why": v["p"][-1] if v["p"] else None}, lambda v: "dhcp %s %s" % (v["rule"], v["p"]))

    # 5. DNS socket: concurrent queries at different back-off stages, early (probe) polls
    dfz = []
    for k in range(3 if tier == "quick" else 8):
        tf = os.path.join(OUT, "traces", "c13.dns.%d.ndjson" % k)
        run_harness(exe, ["dns-random", "--seed", sd * 100 + 70 + k, "--runs", 300 if tier == "quick" else 1000, "--servers", 1, "--out", tf])
        dfz.append(tf)
    res5 = validate_traces("DnsTrace", dfz, parallel=8)
    vd.add_validation(res5)
    r5 = dict(res5)
    r5["viol"] = [v for v in res5["viol"] if v["rule"] in ("Q1", "Q2", "PANIC")]
    report_viols(vd, "C13", r5, {"world": "dns", "seed": sd}, lambda v: {"rule": v["rule"], "world": "dns"}, lambda v: "dns %s %s" % (v["rule"], v["p"]))

    # 6. pending fragments: two nodes exchanging oversized datagrams under device back-pressure (the sender is polled
    #    again and again whatever poll_at says, so a deadline that forgets the fragments left over shows as Q1)
    ffz = []
    for k in range(2 if tier == "quick" else 6):
        tf = os.path.join(OUT, "traces", "c13.frag.%d.ndjson" % k)
        run_harness(exe, ["frag-random", "--seed", sd * 100 + 80 + k, "--runs", 200 if tier == "quick" else 1000, "--out", tf])
        ffz.append(tf)
    res6 = validate_traces("FragTrace", ffz, parallel=8)
    vd.add_validation(res6)
    r6 = dict(res6)
    r6["viol"] = [v for v in res6["viol"] if v["rule"] in ("Q1", "Q2", "PANIC")]
    report_viols(vd, "C13", r6, {"world": "frag", "seed": sd}, lambda v: {"rule": v["rule"], "world": "frag"}, lambda v: "frag %s %s" % (v["rule"], v["p"]))

    # 7a. the SLAAC model: invariants, negative controls (the code before its two repairs), and its behaviours
    #     replayed on the real interface
    SINV = ["RsSchedule", "Sufficient", "NonSpinning", "Signalled", "SolSufficient"]
    sc = {"MaxT": 12, "Lifetimes": "{0, 2, 5}", "Routers": '{"r1"}', "Prefixes": '{"p1"}', "MaxEvents": 6 if tier == "quick" else 7,
          "DevMaintainOnly": False, "DevNoSyncDeadline": False}
    rf = os.path.join(OUT, "sched", "c13.slaac.replay")
    r = tlc("Slaac", write_cfg("Slaac_c13", cfg_text(sc, SINV + ["Export"], view="View")), workers=8, tag="c13.slaac", timeout=1500, tagged_file=rf)
    if r.violated:
        raise ToolError("Slaac model violates %s (log %s)" % (r.violated, r.log))
    vd.add_model("Slaac MaxT=12 lifetimes {0,2,5} events<=%d" % sc["MaxEvents"], r, "SLAAC phases, prefix / route tables, maintenance-ingress-egress poll order, event loop sleeping until poll_at; invariants " + ",".join(SINV))
    if tier == "thorough":
        sc2 = dict(sc, Routers='{"r1", "r2"}', Prefixes='{"p1", "p2"}', MaxEvents=5, Lifetimes="{0, 3}", MaxT=9)
        r2m = tlc("Slaac", write_cfg("Slaac_c13b", cfg_text(sc2, SINV, view="View")), workers=8, tag="c13.slaac2", timeout=2400, collect=())
        if r2m.violated:
            raise ToolError("Slaac model (2 routers, 2 prefixes) violates %s (log %s)" % (r2m.violated, r2m.log))
        vd.add_model("Slaac 2 routers 2 prefixes MaxT=9", r2m, "as above with two routers and two prefixes")
    for dev, exp in (("DevMaintainOnly", "Sufficient"), ("DevNoSyncDeadline", "Sufficient")):
        cn = dict(sc)
        cn[dev] = True
        rn = tlc("Slaac", write_cfg("Slaac_neg", cfg_text(cn, ["Sufficient"], view="View")), workers=4, tag="c13.slaac." + dev, timeout=600, collect=())
        vd.cov["models"].append({"model": "Slaac negative control " + dev, "violated": rn.violated})
        if rn.violated != exp:
            raise ToolError("negative control %s: expected %s to fail, got %s" % (dev, exp, rn.violated))
    beh = [json.loads(l)["v"] for l in open(rf)]
    import random as _rnd
    if tier == "quick" and len(beh) > 6000:
        beh = _rnd.Random(sd).sample(beh, 6000)
    stf = chunked_replay(exe, ["slaac-replay"], beh, "c13.slaacm", nchunks=8)
    drift = compared = 0
    for tf in stf:
        for rr in split_runs(tf):
            prev, prev_pa = 0, 0
            for e in rr:
                if e.get("ev") == "poll" and "model" in e:
                    compared += 1
                    m = e["model"]
                    got = (any(o.get("k") == "rs" for o in e["out"]), sorted(a for a in e["addrs"] if a != 0), sorted(e["rts"]))
                    # a poll the model's loop made because its deadline came: the real deadline is that instant too
                    # (the deadline announced after the previous poll; one at or before that poll means "at once")
                    woke = e["kind"] != "due" or (prev_pa != -1 and max(prev_pa, prev) == e["now"])
                    if got != (bool(m["rs"]), m["addrs"], m["rts"]) or not woke:
                        drift += 1
                    prev, prev_pa = e["now"], e["pa"]
    vd.cov["model_drift"] = drift
    vd.cov["drift_detail"] = {"slaac_polls_vs_Slaac_model": {"compared": compared, "different": drift}}
    res7a = validate_traces("SlaacTrace", stf, parallel=8)
    vd.add_validation(res7a)
    report_viols(vd, "C13", res7a, {"world": "slaac_model", "seed": sd}, lambda v: {"rule": v["rule"], "world": "slaac_model"}, lambda v: "slaac(model) %s %s" % (v["rule"], v["p"]))
    # 7. SLAAC with talking routers: solicitation schedule, prefix and router lifetimes, withdrawals, advertisements
    #    that must be ignored; besides Q1 / Q2 the sufficiency rules R1..R3 of SlaacTrace
    sfz = []
    for k in range(3 if tier == "quick" else 8):
        tf = os.path.join(OUT, "traces", "c13.slaac.%d.ndjson" % k)
        run_harness(exe, ["slaac-random", "--seed", sd * 100 + 90 + k, "--runs", 300 if tier == "quick" else 1500, "--out", tf])
        sfz.append(tf)
    res7 = validate_traces("SlaacTrace", sfz, parallel=8)
    vd.add_validation(res7)
    report_viols(vd, "C13", res7, {"world": "slaac", "seed": sd}, lambda v: {"rule": v["rule"], "world": "slaac", "kind": v["p"][0] if v["p"] and isinstance(v["p"][0], str) else None},
                 lambda v: "slaac %s %s" % (v["rule"], v["p"]))
    for need in ("R1", "R2", "R3", "Q1", "Q2"):
        if not res7["hits"].get(need):
            raise ToolError("slaac world: rule %s was never exercised" % need)
    vd.cov["samples"].append({"kind": "slaac world: router advertisements (ra) and the polls that deliver them, addresses / default routes held after each poll", "events": split_runs(sfz[0])[0][:10]})

    def mut(e):
        if e.get("ev") == "poll" and e.get("kind") == "probe" and not e.get("out"):
            e["out"] = [{"et": "ip4", "proto": 6, "ty": -1, "len": 54}]
            return True
        return False
    canary_check(vd, "PollAtTrace", files[0], mut, "Q1", "c13.Q1")
    vd.cov["exhaustive"] = True
    vd.assumptions += ["IGMP/MLD report frames are exempt (the property excludes their timers)", "DHCP lease timing under a talking server is covered by C18; the DNS socket is probed here with concurrent queries, fail-over timing is C19's",
                       "fragment-pending deadlines are probed in C12's two-node world (FragTrace rules Q1 / Q2)"]


def replay(obj, vd):
    ev0 = obj["events"][0]
    exe = build_harness()
    w = obj.get("ctx", {}).get("world")
    tf = os.path.join(OUT, "traces", "c13.replay.ndjson")
    if w == "pollat":
        run_harness(exe, ["pollat-random", "--seed", ev0["seed"], "--runs", ev0["run"] + 1, "--out", tf])
        runs = split_runs(tf)
        with open(tf, "w") as f:
            for e in runs[ev0["run"]]:
                f.write(json.dumps(e) + "\n")
        res = validate_traces("PollAtTrace", [tf], parallel=1)
        vd.add_validation(res)
        report_viols(vd, "C13", res, obj["ctx"], lambda v: {"rule": v["rule"], "world": "pollat"})
        vd.add_model("replay only", FakeTlc())
        vd.cov["samples"].append(split_runs(tf)[0][:8])
    elif w == "tcp_pair":
        tcpcommon.replay_generic(obj, vd, "C13")
    elif w == "dhcp":
        from checks import c18
        obj["property"] = "C13"
        c18.replay(obj, vd)
    elif w == "frag":
        run_harness(exe, ["frag-random", "--seed", ev0["seed"], "--runs", ev0["run"] + 1, "--out", tf])
        runs = split_runs(tf)
        with open(tf, "w") as f:
            for e in runs[ev0["run"]]:
                f.write(json.dumps(e) + "\n")
        res = validate_traces("FragTrace", [tf], parallel=1)
        vd.add_validation(res)
        res = dict(res)
        res["viol"] = [v for v in res["viol"] if v["rule"] in ("Q1", "Q2", "PANIC")]
        report_viols(vd, "C13", res, obj["ctx"], lambda v: {"rule": v["rule"], "world": "frag"})
        vd.add_model("replay only", FakeTlc())
    elif w == "slaac":
        run_harness(exe, ["slaac-random", "--seed", ev0["seed"], "--runs", ev0["run"] + 1, "--out", tf])
        runs = split_runs(tf)
        with open(tf, "w") as f:
            for e in runs[ev0["run"]]:
                f.write(json.dumps(e) + "\n")
        res = validate_traces("SlaacTrace", [tf], parallel=1)
        vd.add_validation(res)
        report_viols(vd, "C13", res, obj["ctx"], lambda v: {"rule": v["rule"], "world": "slaac"})
        vd.add_model("replay only", FakeTlc())
    elif w == "dns":
        run_harness(exe, ["dns-random", "--seed", ev0["seed"], "--runs", ev0["run"] + 1, "--servers", ev0["cfg"]["servers"], "--out", tf])
        runs = split_runs(tf)
        with open(tf, "w") as f:
            for e in runs[ev0["run"]]:
                f.write(json.dumps(e) + "\n")
        res = validate_traces("DnsTrace", [tf], parallel=1)
        vd.add_validation(res)
        res = dict(res)
        res["viol"] = [v for v in res["viol"] if v["rule"] in ("Q1", "Q2", "PANIC")]
        report_viols(vd, "C13", res, obj["ctx"], lambda v: {"rule": v["rule"], "world": "dns"})
        vd.add_model("replay only", FakeTlc())
    else:
        netcommon.replay(obj, vd, "C13")
