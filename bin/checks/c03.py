"""C03 -- no received frame sequence can panic, hang or wedge the interface."""
import json, os, subprocess
from concurrent.futures import ThreadPoolExecutor
from vlib.core import *


def rows(vd, tag):
    rf = os.path.join(OUT, "sched", "garbage.%s.rows" % tag)
    r = tlc("Garbage", write_cfg("Garbage_" + tag, cfg_text({}, ["Alive", "Export"])), workers=8, tag="garbage." + tag, timeout=900, tagged_file=rf)
    if r.violated:
        raise ToolError("Garbage table: %s (log %s)" % (r.violated, r.log))
    vd.add_model("Garbage history table", r, "medium x IP version x phase x checksum verification x exchange stage x mutation, and the header-grammar rows (IPHC base encodings, FRAG1/FRAGN pairs, IPv4 fragment pairs), enumerated completely")
    return [json.loads(l)["v"] for l in open(rf)]


def harness_job(exe, args, tf):
    """Runs one harness process; a watchdog exit (3) with a .hang file is data: the hang is appended to the trace."""
    p = subprocess.run([exe] + [str(a) for a in args], stdout=subprocess.PIPE, stderr=subprocess.PIPE, text=True, timeout=7200)
    if p.returncode == 3 and os.path.exists(tf + ".hang"):
        h = json.loads(open(tf + ".hang").read())
        with open(tf, "a") as f:
            f.write(json.dumps({"ev": "reset", "run": 999999, "world": "garbage"}) + "\n")
            f.write(json.dumps({"ev": "hang", "k": h["k"], "s": h["s"], "frame": h["frame"], "off": h["off"], "hex": h["hex"]}) + "\n")
        os.remove(tf + ".hang")
        return tf
    if p.returncode != 0:
        sys.stdout.write(p.stderr[-2000:])
        raise ToolError("harness %s exited %d" % (" ".join(map(str, args[:4])), p.returncode))
    return tf


def pm(v):
    p = v["p"]
    d = {"rule": v["rule"]}
    if len(p) >= 6:
        d.update({"m": p[0], "ipv": p[1], "ph": p[2], "ck": p[3], "st": p[4]})
        if v["rule"] == "G1" and len(p) >= 8:
            d["locs"] = p[7]       # source locations of the panics: what identifies a finding
        else:
            d["mu"] = p[5] if not str(p[5]).startswith("seed-") else "random"
    return d


def judge(vd, files, ctx):
    res = validate_traces("GarbageTrace", files, parallel=8)
    vd.add_validation(res)
    vac = [v for v in res["viol"] if v["rule"] == "G0"]
    if vac and not ctx.get("replay"):
        raise ToolError("vacuous rows (no frames to mutate): %s" % ([v["p"] for v in vac[:3]],))
    res2 = dict(res)
    res2["viol"] = [v for v in res["viol"] if v["rule"] != "G0"]
    report_viols(vd, "C03", res2, ctx, pm, lambda v: "%s row=%s" % (v["rule"], v["p"]), per_class=1)
    return res


def run(tier, vd):
    rs = rows(vd, "c03")
    exe = build_harness()
    nshard = 12
    jobs = []
    for c in range(nshard):
        part = rs[c::nshard]
        sf = os.path.join(OUT, "sched", "garbage.c03.%d.sched" % c)
        with open(sf, "w") as f:
            for r in part:
                f.write(json.dumps(r) + "\n")
        tf = os.path.join(OUT, "traces", "garbage.c03.%d.ndjson" % c)
        jobs.append((["garbage-replay", "--sched", sf, "--out", tf], tf))
    seed0 = int(os.environ.get("VERIF_SEED", "1"))
    nrand, runs, steps = (8, 60, 2500) if tier == "quick" else (16, 1500, 4000)
    for i in range(nrand):
        tf = os.path.join(OUT, "traces", "garbage.c03.rand%d.ndjson" % i)
        jobs.append((["garbage-random", "--seed", seed0 * 1000 + i, "--runs", runs, "--steps", steps, "--out", tf], tf))
    with ThreadPoolExecutor(max_workers=12) as ex:
        files = list(ex.map(lambda j: harness_job(exe, j[0], j[1]), jobs))
    res = judge(vd, files, {})
    inj = 0
    nrow = 0
    for f in files:
        for e in read_ndjson(f):
            if e.get("ev") == "row":
                inj += e["n"]
                nrow += 1
    vd.cov["injections"] = inj
    vd.cov["rows_run"] = nrow
    log("[c03] %d rows, %d frames injected" % (nrow, inj))
    ev = list(read_ndjson(files[0]))
    vd.cov["samples"].append({"kind": "rows", "events": [e for e in ev if e.get("ev") == "row"][10:13]})

    # an interface with SLAAC switched on and routers that also send advertisements no router should send (the garbage
    # world's interfaces leave SLAAC off): any panic of a poll is this property's
    sd = seed()
    sfz = []
    for k in range(2 if tier == "quick" else 6):
        tf = os.path.join(OUT, "traces", "c03.slaac.%d.ndjson" % k)
        run_harness(exe, ["slaac-random", "--seed", sd * 100 + 40 + k, "--runs", 300 if tier == "quick" else 1500, "--out", tf])
        sfz.append(tf)
    rs7 = validate_traces("SlaacTrace", sfz, parallel=8)
    vd.add_validation(rs7)
    rs7b = dict(rs7)
    rs7b["viol"] = [v for v in rs7["viol"] if v["rule"] == "PANIC"]
    report_viols(vd, "C03", rs7b, {"world": "slaac", "seed": sd}, lambda v: {"rule": v["rule"], "world": "slaac"}, lambda v: "slaac %s %s" % (v["rule"], v["p"]))

    def mut(e):
        if e.get("ev") == "row":
            e["npanic"] = 1
            e["locs"] = ["canary"]
            return True
        return False
    canary_check(vd, "GarbageTrace", files[0], mut, "G1", "c03.G1", max_runs=3)

    def mut3(e):
        if e.get("ev") == "row":
            e["probe"] = "silent"
            return True
        return False
    canary_check(vd, "GarbageTrace", files[0], mut3, "G3", "c03.G3", max_runs=3)
    vd.cov["exhaustive"] = False
    vd.assumptions += ["histories are built from a recorded exchange (every frame kind the stack and its peer emit, plus hand-made ICMP errors, IGMP / MLD queries, router advertisements, IPv4 options, IPv6 extension header chains, fragments) mutated one or two octets at a time, truncated, extended, cut, reordered, replayed; from header grammars (IPHC, 6LoWPAN fragments, IPv4 fragments); and from seeded random octet strings / multi-octet mutations / splices",
                       "single-octet mutations are exhaustive per offset for the listed values, not for all 256 values",
                       "debug assertions and overflow checks are on in the harness build: arithmetic overflow counts as a panic",
                       "a poll that does not return within 20 s is a hang (watchdog)",
                       "the ping after each history comes from a host the interface has never seen, immediately (no time to recover)"]


def replay(obj, vd):
    if obj.get("ctx", {}).get("world") == "slaac":
        from checks import c13
        obj["property"] = "C03"
        ev0 = obj["events"][0]
        exe = build_harness()
        tf = os.path.join(OUT, "traces", "c03.replay.ndjson")
        run_harness(exe, ["slaac-random", "--seed", ev0["seed"], "--runs", ev0["run"] + 1, "--out", tf])
        runs = split_runs(tf)
        with open(tf, "w") as f:
            for e in runs[ev0["run"]]:
                f.write(json.dumps(e) + "\n")
        res = validate_traces("SlaacTrace", [tf], parallel=1)
        vd.add_validation(res)
        res = dict(res)
        res["viol"] = [v for v in res["viol"] if v["rule"] == "PANIC"]
        report_viols(vd, "C03", res, obj["ctx"], lambda v: {"rule": v["rule"], "world": "slaac"})
        vd.add_model("replay only", FakeTlc())
        return
    ev = [e for e in obj["events"] if e.get("ev") in ("row", "hang")]
    exe = build_harness()
    files = []
    rowsf = [e["s"] for e in ev if not str(e["s"].get("mu", "")).startswith("seed-")]
    ctx = dict(obj.get("ctx", {}))
    ctx["replay"] = True
    if rowsf:
        sf = os.path.join(OUT, "sched", "garbage.replay.sched")
        with open(sf, "w") as f:
            for s in rowsf:
                f.write(json.dumps(s) + "\n")
        tf = os.path.join(OUT, "traces", "garbage.replay.ndjson")
        files.append(harness_job(exe, ["garbage-replay", "--sched", sf, "--out", tf], tf))
    for e in ev:
        mu = str(e["s"].get("mu", ""))
        if mu.startswith("seed-"):
            _, seed, run = mu.split("-")
            tf = os.path.join(OUT, "traces", "garbage.replay.%s.%s.ndjson" % (seed, run))
            # the run index selects the generator state: replay the runs up to it (same seed)
            files.append(harness_job(exe, ["garbage-random", "--seed", seed, "--runs", int(run) + 1, "--steps", obj.get("steps", 2500), "--out", tf], tf))
    judge(vd, files, ctx)
    vd.add_model("replay only", FakeTlc())
