"""C17 -- TCP sockets follow the RFC 9293 connection state diagram."""
from checks.tcpcommon import *


def run(tier, vd):
    sd = seed()
    files = peer_mc_replay(vd, tier, "c17")
    sample(vd, files, "TLC schedule (MCTcpPeer edge tour): state() before/after every stimulus")
    rf = peer_random(vd, tier, sd, "c17")
    pf = pair_random(vd, tier, sd, "c17", pollat=True)
    validate_and_report(vd, "C17", files + rf + pf, {"seed": sd})
    tcp_canary(vd, "C17", rf[0], "T1")
    vd.cov["exhaustive"] = True
    vd.assumptions += ["an RST counts as in-window when its segment (sequence number plus payload) overlaps the advertised window (RFC 793 acceptability test)",
                       "edges composing two diagram edges are allowed when both causes are in the same segment"]


def replay(obj, vd):
    replay_generic(obj, vd, "C17")
