"""Transition tours over TLC-exported edge lists: every edge appears as the last step of a path from Init."""
import json
from collections import deque


def load_edges(path, tag="EDGE"):
    edges = []
    with open(path) as f:
        for line in f:
            o = json.loads(line)
            if o.get("tag") == tag:
                edges.append(o["v"])
    return edges


def key(s):
    return json.dumps(s, sort_keys=True, separators=(",", ":"))


def build_tour(edges, init=None, dedup=True, max_paths=None, share_prefix=True):
    """Returns (schedules, stats).  A schedule is a list of edge 'ev' records; the last one is the covered edge.
    With share_prefix, an edge whose source has several outgoing self-loops (state unchanged) is appended to the
    same schedule, because replaying a self-loop does not disturb the source state."""
    if not edges:
        return [], {"edges": 0, "states": 0}
    init_k = key(init) if init is not None else key(edges[0]["from"])
    out = {}
    seen_e = set()
    for e in edges:
        if dedup:
            k = (key(e["from"]), key(e["ev"]))
            if k in seen_e:
                continue
            seen_e.add(k)
        out.setdefault(key(e["from"]), []).append(e)
    parent = {init_k: None}
    q = deque([init_k])
    while q:
        s = q.popleft()
        for e in out.get(s, []):
            t = key(e["to"])
            if t not in parent:
                parent[t] = (s, e["ev"])
                q.append(t)

    def path(s):
        p = []
        while parent[s] is not None:
            s, ev = parent[s]
            p.append(ev)
        p.reverse()
        return p

    scheds = []
    longest = 0
    for s, es in out.items():
        if s not in parent:
            continue
        pre = path(s)
        loops = [e["ev"] for e in es if key(e["to"]) == s] if share_prefix else []
        moves = [e["ev"] for e in es if key(e["to"]) != s] if share_prefix else [e["ev"] for e in es]
        if loops:
            # all self-loops first, then (if any) one state-changing edge at the end
            first = pre + loops + ([moves[0]] if moves else [])
            scheds.append(first)
            longest = max(longest, len(first))
            moves = moves[1:]
        for ev in moves:
            scheds.append(pre + [ev])
            longest = max(longest, len(pre) + 1)
        if max_paths and len(scheds) >= max_paths:
            break
    return scheds, {"edges": len(edges), "distinct_edges": len(seen_e) if dedup else len(edges), "states": len(parent), "schedules": len(scheds), "longest": longest,
                    "steps": sum(len(s) for s in scheds)}


def write_schedules(scheds, path):
    with open(path, "w") as f:
        for s in scheds:
            f.write(json.dumps({"steps": s}, separators=(",", ":")) + "\n")
