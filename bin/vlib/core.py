"""Common machinery for /verif/bin/check: harness build/run, TLC runs, trace validation,
verdicts against known_findings.json, evidence files.  Exit codes: 0 held, 1 violation, 2 tool error."""
import json, os, re, subprocess, sys, time, shutil, hashlib, glob
from concurrent.futures import ThreadPoolExecutor

ROOT = os.path.dirname(os.path.dirname(os.path.dirname(os.path.abspath(__file__))))
SPEC = os.path.join(ROOT, "spec")
OUT = os.path.join(ROOT, "out")
if os.environ.get("VERIF_REPO") and os.environ.get("VERIF_SCRATCH_OUT"):
    # seed testing only (see build_harness): scratch output and evidence directories, so that a check against a seeded
    # worktree can run next to a check against /repo
    OUT = os.environ["VERIF_SCRATCH_OUT"]
HARNESS = os.path.join(ROOT, "harness")
EVID = os.path.join(ROOT, "evidence") if OUT == os.path.join(ROOT, "out") else os.path.join(OUT, "evidence")
JAR = "/opt/veriftools/tla/tla2tools.jar:/opt/veriftools/tla/CommunityModules-deps.jar"


class ToolError(Exception):
    pass


def seed():
    try:
        return int(os.environ.get("VERIF_SEED", "1"))
    except ValueError:
        return 1


def log(*a):
    print(*a, flush=True)


def ensure_dirs():
    for d in (OUT, EVID, os.path.join(OUT, "tlc"), os.path.join(OUT, "traces"), os.path.join(OUT, "violations"),
              os.path.join(OUT, "sched")):
        os.makedirs(d, exist_ok=True)


# ------------------------------------------------------------------------------------------------
# harness

_built = {}


def build_harness(consts=None):
    """cargo build of the harness against /repo's current working tree.  consts: dict of SMOLTCP_* build
    constants -> separate target dir per combination.  Returns path of the binary."""
    consts = consts or {}
    key = "_".join("%s%s" % (k.lower(), v) for k, v in sorted(consts.items()))
    if key in _built:
        return _built[key]
    hdir = HARNESS
    alt = os.environ.get("VERIF_REPO")
    if alt and os.path.abspath(alt) != "/repo":
        # seed testing only: build a scratch copy of the harness against another checkout of smoltcp (a seeded
        # worktree), so that /repo stays untouched while something else is being checked against it
        hdir = os.path.join(os.environ.get("VERIF_SCRATCH", "/tmp/vh"), os.path.basename(os.path.abspath(alt)))
        os.makedirs(hdir, exist_ok=True)
        subprocess.run(["rsync", "-a", "--delete", "--exclude", "target*", HARNESS + "/", hdir + "/"], check=True)
        ct = open(os.path.join(hdir, "Cargo.toml")).read().replace('path = "/repo"', 'path = "%s"' % os.path.abspath(alt))
        open(os.path.join(hdir, "Cargo.toml"), "w").write(ct)
    tdir = os.path.join(hdir, "target" if not key else "target-" + key)
    env = dict(os.environ)
    env["CARGO_NET_OFFLINE"] = "true"
    env["CARGO_TARGET_DIR"] = tdir
    for k in list(env):
        if k.startswith("SMOLTCP_"):
            del env[k]
    for k, v in consts.items():
        env["SMOLTCP_" + k] = str(v)
    lock = os.path.join(hdir, "Cargo.lock")
    if not os.path.exists(lock):
        shutil.copy("/repo/Cargo.lock", lock)
    t0 = time.time()
    p = subprocess.run(["cargo", "build", "--offline", "-q"], cwd=hdir, env=env, stdout=subprocess.PIPE,
                       stderr=subprocess.STDOUT, text=True)
    if p.returncode != 0:
        sys.stdout.write(p.stdout[-6000:])
        raise ToolError("harness build failed (consts=%s)" % consts)
    exe = os.path.join(tdir, "debug", "vharness")
    log("[build] harness %s %.1fs" % (key or "default", time.time() - t0))
    _built[key] = exe
    return exe


def run_harness(exe, args, timeout=1800):
    """Runs the harness; returns its stdout (the harness writes traces to files given in args)."""
    p = subprocess.run([exe] + [str(a) for a in args], stdout=subprocess.PIPE, stderr=subprocess.PIPE, text=True,
                       timeout=timeout)
    if p.returncode == 3 and "--out" in [str(a) for a in args]:
        # the harness watchdog: a call into the code under test did not return.  That is data: cut the trace at its last
        # complete line and append a panic event (every monitor reports PANIC).
        tf = str(args[[str(a) for a in args].index("--out") + 1])
        if os.path.exists(tf + ".hang"):
            os.remove(tf + ".hang")
            data = open(tf, "rb").read() if os.path.exists(tf) else b""
            cut = data.rfind(b"\n") + 1
            with open(tf, "wb") as f:
                f.write(data[:cut])
                f.write((json.dumps({"ev": "panic", "hang": True, "msg": "hang: a call into the code under test did not return (watchdog)", "ep": -1, "now": -1,
                                     "op": "hang", "n": 0, "off": 0, "size": 0, "w": 0, "k": -1, "before": "?", "s": {}}) + "\n").encode())
            log("[harness] watchdog: %s hung; recorded as a panic event" % " ".join(map(str, args[:3])))
            return p.stdout
    if p.returncode != 0:
        sys.stdout.write(p.stdout[-3000:])
        sys.stdout.write(p.stderr[-3000:])
        raise ToolError("harness %s exited %d" % (" ".join(map(str, args[:6])), p.returncode))
    return p.stdout


# ------------------------------------------------------------------------------------------------
# TLC

class TlcResult:
    def __init__(self):
        self.generated = 0
        self.distinct = 0
        self.violated = None      # name of violated invariant / property, or "deadlock"
        self.error = None         # other error text
        self.tagged = {}          # tag -> list of decoded json objects
        self.coverage = {}        # action -> (distinct, total)
        self.log = None
        self.wall = 0.0
        self.timed_out = False
        self.cex = []             # counterexample state texts


_TAG = re.compile(r'^<<"([A-Z0-9_]+)", (.*)>>\s*$')


def _decode_tagged(rest):
    rest = rest.strip()
    if rest.startswith('"'):
        s = json.loads(rest)
        try:
            return json.loads(s)
        except Exception:
            return s
    try:
        return json.loads(rest)
    except Exception:
        return rest


def tlc(module, cfg=None, *, workers=8, timeout=900, env=None, simulate=None, depth=None, dfs=False, tag=None, allow_timeout=False,
        heap="8g", collect=("EDGE", "RUNVIOL", "FINAL", "REPLAY", "STAT"), tagged_file=None, extra=None,
        coverage=False, seed_=None):
    """Runs TLC on spec/<module>.tla with spec/<cfg>.cfg.  Tagged PrintT lines (<<"TAG", "json">>) are decoded
    into result.tagged[TAG]; if tagged_file is given they are written there (one json per line, {"tag":..,"v":..})
    instead of being kept in memory."""
    ensure_dirs()
    tag = tag or module
    cfg = cfg or module
    meta = os.path.join(OUT, "tlc", tag + ".meta")
    shutil.rmtree(meta, ignore_errors=True)
    logf = os.path.join(OUT, "tlc", tag + ".log")
    jopts = ["-XX:+UseParallelGC", "-Xss1g", "-Xmx" + heap]
    if dfs:
        jopts.append("-Dtlc2.tool.queue.IStateQueue=StateDeque")
    cmd = ["java"] + jopts + ["-cp", JAR, "tlc2.TLC", "-workers", str(workers), "-metadir", meta, "-cleanup",
                              "-noGenerateSpecTE", "-config", cfg + ".cfg"]
    if coverage:
        cmd += ["-coverage", "1"]
    if simulate is not None:
        cmd += ["-simulate", "num=%d" % simulate]
        if depth:
            cmd += ["-depth", str(depth)]
        cmd += ["-seed", str(seed_ if seed_ is not None else seed())]
    if extra:
        cmd += extra
    cmd.append(module + ".tla")
    e = dict(os.environ)
    e.pop("JAVA_TOOL_OPTIONS", None)
    if env:
        e.update({k: str(v) for k, v in env.items()})
    r = TlcResult()
    r.log = logf
    t0 = time.time()
    tf = open(tagged_file, "w") if tagged_file else None
    with open(logf, "w") as lf:
        p = subprocess.Popen(cmd, cwd=SPEC, env=e, stdout=subprocess.PIPE, stderr=subprocess.STDOUT, text=True,
                             bufsize=1 << 20)
        try:
            in_cex = False
            for line in p.stdout:
                if time.time() - t0 > timeout:
                    p.kill()
                    r.timed_out = True
                    break
                if line.startswith('<<"'):
                    m = _TAG.match(line)
                    if m and m.group(1) in collect:
                        v = _decode_tagged(m.group(2))
                        if tf:
                            tf.write(json.dumps({"tag": m.group(1), "v": v}) + "\n")
                        else:
                            r.tagged.setdefault(m.group(1), []).append(v)
                        continue
                lf.write(line)
                if line.startswith("Error: Invariant "):
                    r.violated = line.split()[2]
                    in_cex = True
                elif line.startswith("Error: Action property "):
                    r.violated = line.split()[3]
                    in_cex = True
                elif line.startswith("Error: Temporal properties were violated"):
                    r.violated = "temporal"
                    in_cex = True
                elif line.startswith("Error: Deadlock reached"):
                    r.violated = "deadlock"
                    in_cex = True
                elif line.startswith("Error:") and r.error is None and r.violated is None:
                    r.error = line.strip()
                elif "states generated" in line and "distinct states found" in line:
                    m2 = re.search(r"(\d+) states generated.*?(\d+) distinct states found", line.replace(",", ""))
                    if m2:
                        r.generated, r.distinct = int(m2.group(1)), int(m2.group(2))
                elif line.startswith("The number of states generated:"):
                    r.generated = int(line.split(":")[1].strip())
                if in_cex and len(r.cex) < 4000:
                    r.cex.append(line.rstrip("\n"))
                m3 = re.match(r"^<(\w+) line .* of module \w+>: (\d+):(\d+)", line)
                if m3:
                    r.coverage[m3.group(1)] = (int(m3.group(2)), int(m3.group(3)))
        finally:
            try:
                p.wait(timeout=30)
            except Exception:
                p.kill()
    if tf:
        tf.close()
    r.wall = time.time() - t0
    shutil.rmtree(meta, ignore_errors=True)
    if r.timed_out and not allow_timeout:
        raise ToolError("TLC timed out after %ds on %s/%s (log %s)" % (timeout, module, cfg, logf))
    if r.timed_out:
        # a bounded exploration that was cut short: what was explored held; reported as partial
        log("[tlc] %s/%s stopped after %ds with %d distinct states explored (partial)" % (module, tag, timeout, r.distinct))
        return r
    if r.error and r.violated is None:
        raise ToolError("TLC error on %s/%s: %s (log %s)" % (module, cfg, r.error, logf))
    return r


def sany(module):
    p = subprocess.run(["java", "-cp", JAR, "tla2sany.SANY", module + ".tla"], cwd=SPEC, stdout=subprocess.PIPE,
                       stderr=subprocess.STDOUT, text=True)
    ok = p.returncode == 0 and "Semantic errors" not in p.stdout and "***Parse Error***" not in p.stdout \
        and "Fatal errors" not in p.stdout and "Could not parse" not in p.stdout
    return ok, p.stdout


# ------------------------------------------------------------------------------------------------
# trace validation

def validate_traces(trace_module, files, *, cfg=None, parallel=8, timeout=1800, dfs=False, heap="3g", env=None):
    """Validates ndjson trace files with a monitor-style trace specification.  Each file is one TLC run
    (-workers 1).  Returns dict(events, runs, viol=[{file, run, rule, line, p}], hits={rule: n}, finals)."""
    res = {"events": 0, "runs": 0, "viol": [], "hits": {}, "files": len(files), "wall": 0.0, "stats": {}}
    t0 = time.time()
    files = _chunk_big_traces(files)

    def one(i_f):
        i, f = i_f
        e = {"TRACE": f}
        if env:
            e.update(env)
        r = tlc(trace_module, cfg or trace_module, workers=1, timeout=timeout, env=e, dfs=dfs,
                tag="%s.%s.%d" % (trace_module, os.path.basename(f), i), heap=heap)
        return f, r

    with ThreadPoolExecutor(max_workers=parallel) as ex:
        results = list(ex.map(one, list(enumerate(files))))
    for f, r in results:
        if r.violated:
            raise ToolError("trace spec %s itself failed on %s: %s (log %s)" % (trace_module, f, r.violated, r.log))
        fin = r.tagged.get("FINAL", [])
        if len(fin) != 1:
            raise ToolError("trace %s not consumed completely by %s (FINAL lines: %d, log %s)" %
                            (f, trace_module, len(fin), r.log))
        fin = fin[0]
        res["events"] += fin.get("events", 0)
        res["runs"] += fin.get("runs", 0)
        for k, v in fin.get("hits", {}).items():
            res["hits"][k] = res["hits"].get(k, 0) + v
        for k, v in fin.get("stats", {}).items():
            res["stats"][k] = res["stats"].get(k, 0) + v
        for rv in r.tagged.get("RUNVIOL", []):
            for v in rv.get("viol", []):
                # v is a tuple: [line, rule, params...]
                res["viol"].append({"file": f, "run": rv.get("run"), "line": v[0], "rule": v[1], "p": v[2:]})
    res["wall"] = time.time() - t0
    return res


def _chunk_big_traces(files, limit=120 * 1024 * 1024):
    """TLC deserialises a whole trace file at once: files above `limit` are cut at run boundaries (reset events)
    into parts of at most about `limit` bytes; a violation then names the part, which holds its run completely."""
    out = []
    for f in files:
        if os.path.getsize(f) <= limit:
            out.append(f)
            continue
        part, size, n = None, 0, 0
        import glob as _g
        for stale in _g.glob(f + ".part*"):
            os.remove(stale)
        with open(f) as src:
            for line in src:
                if part is None or (size > limit and '"ev":"reset"' in line):
                    if part:
                        part.close()
                    pf = "%s.part%d" % (f, n)
                    n += 1
                    part = open(pf, "w")
                    out.append(pf)
                    size = 0
                part.write(line)
                size += len(line)
        if part:
            part.close()
    return out


# ------------------------------------------------------------------------------------------------
# known findings and verdicts

def load_known():
    p = os.path.join(ROOT, "known_findings.json")
    if not os.path.exists(p):
        return []
    return json.load(open(p)).get("findings", [])


def match_known(prop, v, known):
    """v: {'rule':..., 'p': {...}} ; an entry matches if property and rule agree and every key of entry.match
    equals the corresponding discriminating parameter of the violation."""
    for k in known:
        if k["property"] != prop or k["rule"] != v["rule"]:
            continue
        pm = v.get("pm", {})
        if all(pm.get(a) == b for a, b in k.get("match", {}).items()):
            return k
    return None


class Verdict:
    def __init__(self, prop, tier):
        self.prop = prop
        self.tier = tier
        self.t0 = time.time()
        self.violations = []       # unknown
        self.known_hit = {}        # id -> count
        self.known = load_known()
        self.cov = {"states": 0, "transitions": 0, "traces_validated_against_impl": 0, "samples": [],
                    "events": 0, "rule_hits": {}, "model_drift": 0, "canary": {}, "builds": [], "exhaustive": False,
                    "models": [], "known_findings_hit": {}}
        self.assumptions = []

    def add_model(self, name, r, note=""):
        self.cov["states"] += r.distinct
        self.cov["transitions"] += r.generated
        self.cov["models"].append({"model": name, "distinct_states": r.distinct, "states_generated": r.generated,
                                   "wall_s": round(r.wall, 1), "note": note,
                                   "coverage_actions": {k: v[1] for k, v in list(r.coverage.items())[:40]}})

    def add_validation(self, res):
        self.cov["traces_validated_against_impl"] += res["runs"]
        self.cov["events"] += res["events"]
        for k, v in res["hits"].items():
            self.cov["rule_hits"][k] = self.cov["rule_hits"].get(k, 0) + v

    def report(self, v, replay):
        """v: {'rule', 'pm': discriminating params dict, 'what': text}.  Classifies as known or new."""
        k = match_known(self.prop, v, self.known)
        if k:
            kid = k.get("id", k["rule"])
            self.known_hit[kid] = self.known_hit.get(kid, 0) + 1
            return False
        self.violations.append((v, replay))
        return True

    def finish(self, extra_cov=None, level="model_checking", write=True):
        if extra_cov:
            self.cov.update(extra_cov)
        for kid, n in self.known_hit.items():
            k = [x for x in self.known if x.get("id", x["rule"]) == kid][0]
            log("KNOWN-FINDING: property=%s %s (id=%s, %d occurrence(s) this run)" % (self.prop, k["what"], kid, n))
        self.cov["known_findings_hit"] = self.known_hit
        seen = set()
        for v, replay in self.violations:
            key = (v["rule"], json.dumps(v.get("pm", {}), sort_keys=True))
            if key in seen:
                continue
            seen.add(key)
            if len(seen) > 20:
                break
            log("VIOLATION property=%s replay=%s rule=%s %s" % (self.prop, replay, v["rule"], v.get("what", "")))
        ev = {"property_id": self.prop, "tier": self.tier, "seed": seed(), "level": level, "coverage": self.cov,
              "assumptions": self.assumptions, "wall_s": round(time.time() - self.t0, 1),
              "violations": len(self.violations)}
        if level != "model_checking":
            self.cov.setdefault("evaluations", self.cov.get("events", 0))
        if write:
            os.makedirs(EVID, exist_ok=True)
            with open(os.path.join(EVID, self.prop + ".json"), "w") as f:
                json.dump(ev, f, indent=1, sort_keys=True)
        log("[%s] tier=%s states=%d transitions=%d traces=%d events=%d violations=%d known=%d wall=%.0fs" % (
            self.prop, self.tier, self.cov["states"], self.cov["transitions"],
            self.cov["traces_validated_against_impl"], self.cov["events"], len(self.violations),
            sum(self.known_hit.values()), time.time() - self.t0))
        return 1 if self.violations else 0


def write_replay(prop, name, obj):
    ensure_dirs()
    p = os.path.join(OUT, "violations", "%s-%s.json" % (prop, name))
    with open(p, "w") as f:
        json.dump(obj, f)
    return p


def read_ndjson(path):
    with open(path) as f:
        for line in f:
            line = line.strip()
            if line:
                yield json.loads(line)


def split_runs(path):
    """Splits an ndjson trace into runs (lists of events), each starting with a 'reset' event."""
    runs = []
    for e in read_ndjson(path):
        if e.get("ev") == "reset":
            runs.append([])
        if runs:
            runs[-1].append(e)
    return runs


# ------------------------------------------------------------------------------------------------
# helpers shared by the per-property checks

def write_cfg(name, text):
    """Writes spec/<name>_gen.cfg (git-ignored) and returns the cfg name."""
    n = name + "_gen"
    with open(os.path.join(SPEC, n + ".cfg"), "w") as f:
        f.write(text)
    return n


def cfg_text(consts, invariants=(), properties=(), view=None, edge=None, constraint=None, spec="Spec", symmetry=None):
    t = "SPECIFICATION %s\n" % spec
    if consts:
        t += "CONSTANTS\n" + "".join(" %s = %s\n" % (k, _tla(v)) for k, v in consts.items())
    for i in invariants:
        t += "INVARIANT %s\n" % i
    for p in properties:
        t += "PROPERTY %s\n" % p
    if view:
        t += "VIEW %s\n" % view
    if edge:
        t += "ACTION_CONSTRAINT %s\n" % edge
    if constraint:
        t += "CONSTRAINT %s\n" % constraint
    t += "CHECK_DEADLOCK FALSE\n"
    return t


def _tla(v):
    if isinstance(v, bool):
        return "TRUE" if v else "FALSE"
    return str(v)


def chunked_replay(exe, world_args, scheds, base, nchunks=8):
    """Writes the schedules in nchunks files, replays each with the harness; returns the trace files."""
    from vlib import tour
    files = []
    for c in range(nchunks):
        part = scheds[c::nchunks]
        if not part:
            continue
        pf = os.path.join(OUT, "sched", "%s.%d.sched" % (base, c))
        tour.write_schedules(part, pf)
        tf = os.path.join(OUT, "traces", "%s.%d.ndjson" % (base, c))
        run_harness(exe, world_args + ["--sched", pf, "--out", tf])
        files.append(tf)
    return files


def run_events(path, run):
    for r in split_runs(path):
        if r and r[0].get("run") == run:
            return r
    return []


def report_viols(vd, prop, res, ctx, pm_of, what_of=None, per_class=3):
    """Turns monitor violations into VIOLATION / KNOWN-FINDING decisions; writes a replay file for the first
    per_class occurrences of each (rule, discriminating-parameters) class."""
    seen = {}
    cache = {}
    for v in res["viol"]:
        pm = pm_of(v)
        k = (v["rule"], json.dumps(pm, sort_keys=True))
        seen[k] = seen.get(k, 0) + 1
        what = what_of(v) if what_of else "params=%s" % (v["p"],)
        if seen[k] > per_class:
            vd.report({"rule": v["rule"], "pm": pm, "what": what}, "see-first-occurrence")
            continue
        if v["file"] not in cache:
            cache[v["file"]] = {r[0].get("run"): r for r in split_runs(v["file"]) if r}
        events = cache[v["file"]].get(v["run"], [])
        rp = write_replay(prop, "%s-run%s-%s" % (os.path.basename(v["file"]), v["run"], v["rule"]),
                          {"property": prop, "trace_file": v["file"], "run": v["run"], "rule": v["rule"],
                           "line": v["line"], "params": v["p"], "ctx": ctx, "events": events[:400]})
        vd.report({"rule": v["rule"], "pm": pm, "what": what}, rp)


def canary_check(vd, trace_module, src_trace, mutate, expect_rule, name, max_runs=60):
    """Copies the first runs of a recorded trace with one field corrupted by `mutate(event) -> bool` (True when
    it corrupted this event); the monitor must report `expect_rule`, otherwise the check is a tool failure."""
    import copy
    runs = split_runs(src_trace)
    out = os.path.join(OUT, "traces", name + ".canary.ndjson")
    done = False
    with open(out, "w") as f:
        for r in runs[:max_runs]:
            for e in r:
                if not done:
                    e2 = copy.deepcopy(e)
                    if mutate(e2):
                        e = e2
                        done = True
                f.write(json.dumps(e) + "\n")
    if not done:
        if vd.violations:
            # the tree under test already violates the property; the canary has nothing to corrupt, the verdict stands
            vd.cov["canary"][name] = {"expected": expect_rule, "skipped": "no suitable event in a violating trace"}
            return
        raise ToolError("canary %s: no suitable event found in %s" % (name, src_trace))
    res = validate_traces(trace_module, [out], parallel=1)
    rules = sorted({v["rule"] for v in res["viol"]})
    vd.cov["canary"][name] = {"expected": expect_rule, "rules_reported": rules}
    if expect_rule not in rules:
        raise ToolError("canary %s not detected by %s (got %s)" % (name, trace_module, rules))


class FakeTlc:
    distinct = 1
    generated = 1
    wall = 0.0
    coverage = {}
