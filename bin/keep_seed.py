#!/usr/bin/env python3
"""keep_seed.py <worktree-id> <seed-name> <property> <detected: yes|no|after-strengthening> <check/rule text>
Copies a confirmed seeded change from /tmp/wt/<id> into /verif/seeded/<seed-name>/ (patch.diff, demonstration, meta.json)."""
import sys, os, json, shutil
wid, name, prop, det, how = sys.argv[1:6]
src = "/tmp/wt/" + wid
dst = "/verif/seeded/" + name
os.makedirs(dst, exist_ok=True)
shutil.copy(src + "/mutant.diff", dst + "/patch.diff")
shutil.copy(src + "/tests/seeded_demo.rs", dst + "/seeded_demo.rs")
meta_txt = open(src + "/meta.txt").read() if os.path.exists(src + "/meta.txt") else ""
conf = ""
import glob
for f in sorted(glob.glob("/tmp/wt/confirm*.out")):
    if os.path.exists(f):
        conf += "".join(l for l in open(f) if l.startswith(wid + " "))
json.dump({"property": prop, "origin": "independent sub-agent given only the property text and a scratch worktree",
           "description_and_needs": meta_txt.strip(),
           "confirmed_by_me": conf.strip().split("\n"),
           "how_to_run_demo": "apply patch.diff to a scratch worktree of /repo, copy seeded_demo.rs to tests/, cargo test --offline --test seeded_demo (fails with the patch, passes without); cargo test --offline --lib passes with the patch (673 tests up to round 11, 674 from round 12 on)",
           "detected": det, "detected_by": how}, open(dst + "/meta.json", "w"), indent=1)
print("kept", dst)
