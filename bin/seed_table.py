#!/usr/bin/env python3
"""Regenerates the seeded-change table of DESIGN.md (between the SEEDTABLE markers) from seeded/*/meta.json."""
import json, glob, os, re
root = os.path.dirname(os.path.dirname(os.path.abspath(__file__)))
rows = []
for d in sorted(glob.glob(os.path.join(root, "seeded", "*"))):
    m = json.load(open(os.path.join(d, "meta.json")))
    desc = " ".join(m.get("description_and_needs", "").split())
    desc = re.sub(r"^(C\d\d seeded change[^:]*:|CHANGE:?|Change:?|What:?)\s*", "", desc)[:150].replace("|", "/")
    det = {"yes": "caught as built", "after-strengthening": "missed at first, caught after strengthening", "no": "NOT caught"}.get(m.get("detected"), m.get("detected"))
    rows.append("| `%s` — %s… | %s (%s) | %s |" % (os.path.basename(d), desc, m["property"], det, m.get("detected_by", "").replace("|", "/")))
p = os.path.join(root, "DESIGN.md")
s = open(p).read()
a, b = "<!-- SEEDTABLE -->", "<!-- /SEEDTABLE -->"
if a not in s:
    s = s.replace("SEEDROWS", a + "\n" + b)
i, j = s.index(a) + len(a), s.index(b)
s = s[:i] + "\n" + "\n".join(rows) + "\n" + s[j:]
open(p, "w").write(s)
print("%d seeds" % len(rows))
